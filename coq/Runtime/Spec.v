(** C26 — the property, as a reference semantics and an executable judge.

    "Erg's runtime classes compute the same values as the Python built-ins they wrap, every operation returns an
     instance of the class its Erg declaration promises, and no Nat instance is ever negative."

    * [unwrap]      the plain Python object a runtime value stands for
    * [py_binop], [py_unop]   Python's built-in operators on plain int/bool/float/str/list (floats through the oracle)
    * [declared_*]  the result class the compiler promises (table generated from the live compiler: gen/Sigs.v)
    * [inst_after_rewrap]  "is an instance of the declared class": codegen.rs (emit_expr, Expr::should_wrap) calls the
                    declared class on the raw result of every typed operator/method expression, so the operation an Erg
                    program observes is  D(raw) ; it must succeed, be of class D and keep the value
    * [strict_inst] the raw result itself is already an instance of D (or of an Erg subclass of D)
    * [good]        no Nat (Nat!, Bool) instance anywhere in the value is negative
    * [judge]       all of this for one observed behaviour of the implementation *)
From Coq Require Import ZArith List Bool.
From ErgV Require Import Runtime.Model gen.Sigs.
Import ListNotations.
Open Scope Z_scope.

Definition unwrap_s (s : sval) : sval :=
  match s with
  | SI (KNat | KInt | Kint) z => SI Kint z
  | SI (KBool | Kbool) z => SI Kbool (if z =? 0 then 0 else 1)
  | SF _ b => SF false b
  | SS _ t => SS false t
  | x => x
  end.
Definition unwrap (v : val) : val :=
  match v with Sc s => Sc (unwrap_s s) | Ls _ l => Ls false (map unwrap_s l) | VM _ p => Sc (unwrap_s p) end.
Definition unwrap_res (r : res val) : res val := bind r (fun v => Ok (unwrap v)).

Definition sval_eqb (a b : sval) : bool :=
  match a, b with
  | SI k x, SI k' y => (pycls_eqb (ik_cls k) (ik_cls k')) && (x =? y)
  | SF w x, SF w' y => Bool.eqb w w' && (x =? y)
  | SS w x, SS w' y => Bool.eqb w w' && list_eqb x y
  | SNone, SNone | SNotImpl, SNotImpl | SError, SError | SComplex, SComplex | SOther, SOther => true
  | _, _ => false
  end.
Fixpoint svals_eqb (a b : list sval) : bool :=
  match a, b with [], [] => true | x :: a', y :: b' => sval_eqb x y && svals_eqb a' b' | _, _ => false end.
Definition mk_eqb (a b : mk) : bool := pycls_eqb (mk_cls a) (mk_cls b).
Definition val_eqb (a b : val) : bool :=
  match a, b with
  | Sc x, Sc y => sval_eqb x y
  | Ls w x, Ls w' y => Bool.eqb w w' && svals_eqb x y
  | VM m x, VM m' y => mk_eqb m m' && sval_eqb x y
  | _, _ => false
  end.
(* equality of the Python values two plain objects stand for: True is the integer 1 (True == 1, same hash) *)
Definition sval_eqv (a b : sval) : bool :=
  match a, b with SI _ x, SI _ y => x =? y | _, _ => sval_eqb a b end.
Fixpoint svals_eqv (a b : list sval) : bool :=
  match a, b with [], [] => true | x :: a', y :: b' => sval_eqv x y && svals_eqv a' b' | _, _ => false end.
Definition val_eqv (a b : val) : bool :=
  match a, b with
  | Sc x, Sc y => sval_eqv x y
  | Ls w x, Ls w' y => Bool.eqb w w' && svals_eqv x y
  | _, _ => val_eqb a b
  end.
Definition exc_eqb (a b : exc) : bool :=
  match a, b with
  | ValueError, ValueError | TypeError, TypeError | ZeroDivisionError, ZeroDivisionError | OverflowError, OverflowError
  | AttributeError, AttributeError | IndexError, IndexError | OtherExc, OtherExc => true
  | _, _ => false
  end.
Definition res_eqb (a b : res val) : bool :=
  match a, b with
  | Ok x, Ok y => val_eqv x y | Raise e, Raise f => exc_eqb e f | Unmodelled, Unmodelled => true | _, _ => false end.

Section WithOracle.
Variable orc : Z -> oarg -> oarg -> ores.

(* ---- Python's built-in operators on plain values *)
Definition is_num (v : val) : bool := match v with Sc (SI _ _) | Sc (SF _ _) => true | _ => false end.
Definition py_binop (o : bop) (a b : val) : res val :=
  match a, b with
  | Sc SComplex, _ | _, Sc SComplex | Sc SOther, _ | _, Sc SOther | Sc SError, _ | _, Sc SError
  | Sc SNotImpl, _ | _, Sc SNotImpl | VM _ _, _ | _, VM _ _ => Unmodelled
  | Sc (SI _ x), Sc (SI _ y) => int_arith orc o x y
  | Sc (SI _ _), Sc (SF _ _) | Sc (SF _ _), Sc (SI _ _) | Sc (SF _ _), Sc (SF _ _) =>
      of_ores (orc (opc o) (oarg_of a) (oarg_of b))
  | Sc (SS _ s), Sc (SS _ t) =>
      match o with
      | Add => Ok (Sc (SS false (s ++ t)))
      | Eq => Ok (pbool (list_eqb s t)) | Ne => Ok (pbool (negb (list_eqb s t)))
      | Lt => Ok (pbool (lex_lt s t)) | Le => Ok (pbool (negb (lex_lt t s)))
      | Gt => Ok (pbool (lex_lt t s)) | Ge => Ok (pbool (negb (lex_lt s t)))
      | Mod => Unmodelled
      | _ => Raise TypeError
      end
  | Sc (SS _ s), Sc (SI _ n) | Sc (SI _ n), Sc (SS _ s) =>
      match o with
      | Mul => Ok (Sc (SS false (repeat_list s (Z.to_nat n))))
      | Eq => Ok (pbool false) | Ne => Ok (pbool true)
      | Mod => match a with Sc (SS _ _) => Unmodelled | _ => Raise TypeError end
      | _ => Raise TypeError
      end
  | Ls _ l, Ls _ m =>
      match o with
      | Add => Ok (Ls false (l ++ m))
      | Eq | Ne => if negb (length l =? length m)%nat then Ok (pbool (match o with Eq => false | _ => true end))
                   else match list_eq l m with
                        | Some e => Ok (pbool (match o with Eq => e | _ => negb e end)) | None => Unmodelled end
      | Lt | Le | Gt | Ge => Unmodelled
      | _ => Raise TypeError
      end
  | Ls _ l, Sc (SI _ n) | Sc (SI _ n), Ls _ l =>
      match o with
      | Mul => Ok (Ls false (repeat_list l (Z.to_nat n)))
      | Eq => Ok (pbool false) | Ne => Ok (pbool true)
      | _ => Raise TypeError
      end
  | Sc (SS _ _), _ => match o with Eq => Ok (pbool false) | Ne => Ok (pbool true) | Mod => Unmodelled | _ => Raise TypeError end
  | _, _ =>
      match o with
      | Eq => Ok (pbool (is_none a && is_none b)) | Ne => Ok (pbool (negb (is_none a && is_none b)))
      | _ => Raise TypeError
      end
  end.
Definition py_unop (o : uop) (a : val) : res val :=
  match a with
  | Sc (SI _ z) => Ok (pint (match o with Neg => - z | Pos => z | Abs => Z.abs z end))
  | Sc (SF _ b) => match o with
                   | Pos => Ok (Sc (SF false b))
                   | Neg => of_ores (orc OC_NEG (OFlt b) ONo) | Abs => of_ores (orc OC_ABS (OFlt b) ONo) end
  | Sc SNone | Sc (SS _ _) | Ls _ _ => Raise TypeError
  | _ => Unmodelled
  end.

(* ---- declarations *)
(* Erg class of a runtime object; a plain Python operand counts as the Erg class it is a literal of *)
Definition erg_cls (v : val) : Z :=
  match v with
  | Sc (SI KNat _) => 0 | Sc (SI (KInt | Kint) _) => 1 | Sc (SI (KBool | Kbool) _) => 2
  | Sc (SF _ _) => 5 | Sc (SS _ _) => 7 | Ls _ _ => 9
  | VM MNat _ => 11 | VM MInt _ => 12 | VM MBool _ => 13 | VM MFloat _ => 14 | VM MStr _ => 15
  | Sc SNone => 16 | _ => -3
  end.
Definition declared_binop (o : bop) (a b : val) : option Z :=
  match find (fun e => match e with (o', ca, cb, _) => (o' =? opc o) && (ca =? erg_cls a) && (cb =? erg_cls b) end) sig_binop with
  | Some (_, _, _, r) => Some r | None => None end.
Definition uop_code (o : uop) : Z := match o with Neg => 0 | Pos => 1 | Abs => 2 end.
Definition lookup3 (t : list (Z * Z * Z)) (k c : Z) : option Z :=
  match find (fun e => match e with (k', c', _) => (k' =? k) && (c' =? c) end) t with
  | Some (_, _, r) => Some r | None => None end.
Definition declared_unop (o : uop) (a : val) : option Z :=
  match o with Abs => lookup3 sig_method 30 (erg_cls a) | _ => lookup3 sig_unop (uop_code o) (erg_cls a) end.
Definition meth_code (m : meth) : Z :=
  match m with MSucc => 0 | MPred => 1 | MBitCount => 2 | MMutate => 3 | MSatSub => 4 | MInvert => 5 | MGet => 6
             | MFrom => 7 | MPush => 8 | MReversed => 9 | MSum => 10 | MProd => 11 | MGetItem => 12 | MUpdate => 13
             | MInc => 14 | MDec => 15 | MInc0 => 16 | MDec0 => 17 | MCopy => 18 end.
Definition declared_method (m : meth) (recv : val) : option Z := lookup3 sig_method (meth_code m) (erg_cls recv).

Definition cast_of_tag (t : Z) : option cast :=
  if t =? 0 then Some ToNat else if t =? 1 then Some ToInt else if t =? 2 then Some ToBool
  else if t =? 5 then Some ToFloat else if t =? 7 then Some ToStr else if t =? 9 then Some ToList else None.
Definition tag_of (v : val) : Z :=     (* exact runtime class, wire tags *)
  match v with
  | Sc (SI KNat _) => 0 | Sc (SI KInt _) => 1 | Sc (SI KBool _) => 2 | Sc (SI Kint _) => 3 | Sc (SI Kbool _) => 4
  | Sc (SF w _) => if w then 5 else 6 | Sc (SS w _) => if w then 7 else 8 | Ls w _ => if w then 9 else 10
  | VM MNat _ => 11 | VM MInt _ => 12 | VM MBool _ => 13 | VM MFloat _ => 14 | VM MStr _ => 15
  | Sc SNone => 16 | Sc SNotImpl => 17 | Sc SError => 18 | Sc SComplex => 19 | Sc SOther => 20
  end.
(* Erg's nominal subclassing among the wrapper classes: Bool <: Nat <: Int <: Float, X! <: X *)
Definition erg_sub (c d : Z) : bool :=
  (c =? d) ||
  match d with
  | 0 => (c =? 2) || (c =? 11) || (c =? 13)
  | 1 => (c =? 0) || (c =? 2) || (c =? 11) || (c =? 12) || (c =? 13)
  | 2 => (c =? 13)
  | 5 => (c =? 0) || (c =? 1) || (c =? 2) || ((11 <=? c) && (c <=? 14))
  | 7 => (c =? 15)
  | 11 => (c =? 13) | 12 => (c =? 11) || (c =? 13) | 14 => (c =? 11) || (c =? 12) || (c =? 13)
  | _ => false
  end.
Definition strict_inst (d : Z) (v : val) : bool := erg_sub (tag_of v) d.
(* the re-wrap the compiler inserts: D(raw) succeeds, has class D, and stands for the same Python value *)
Definition inst_after_rewrap (d : Z) (v : val) : bool :=
  match cast_of_tag d with
  | None => if d =? 16 then is_none v else if (11 <=? d) && (d <=? 15) then tag_of v =? d else true
  | Some c => match rewrap orc c v with
              | Ok v' => (tag_of v' =? d) && val_eqv (unwrap v') (unwrap v)
              | _ => false end
  end.

(* ---- well-formed operands: what the constructors of the runtime accept (Nat(i) checks i >= 0, Bool is True/False,
   a Mut object made by `!x` holds a value of its own class) *)
Definition wf_s (s : sval) : bool :=
  match s with SI KNat z => 0 <=? z | SI (KBool | Kbool) z => (z =? 0) || (z =? 1) | _ => true end.
Definition canonical (m : mk) (p : sval) : bool :=
  match m, p with
  | MNat, SI KNat _ | MInt, SI KInt _ | MBool, SI KBool _ | MFloat, SF true _ | MStr, SS true _ => true
  | _, _ => false end.
Definition wf (v : val) : bool :=
  match v with Sc s => wf_s s | Ls _ l => forallb wf_s l | VM m p => wf_s p && canonical m p end.
Definition is_plain (v : val) : bool :=
  match v with Sc (SI (Kint | Kbool) _) | Sc (SF false _) | Sc (SS false _) | Ls false _ => true | _ => false end.

(* ---- no negative Nat *)
Definition good_s (s : sval) : bool := match s with SI (KNat | KBool) z => 0 <=? z | _ => true end.
Definition good (v : val) : bool :=
  match v with
  | Sc s => good_s s
  | Ls _ l => forallb good_s l
  | VM (MNat | MBool) p => good_s p && nonneg_s p
  | VM _ p => good_s p
  end.

(* ---- reference for the named methods, on the unwrapped receiver/arguments: (result, receiver afterwards) *)
Definition ref_method (m : meth) (recv_is_nat : bool) (r : val) (args : list val) : res (val * val) :=
  let natck v := match v with
                 | Sc (SI _ z) => if recv_is_nat && (z <? 0) then Raise ValueError else Ok (vnone, v)
                 | _ => Ok (vnone, v) end in
  match m, r, args with
  | MSucc, Sc (SI _ z), [] => Ok (pint (z + 1), r)
  | MPred, Sc (SI _ z), [] => Ok (pint (z - 1), r)
  | MBitCount, Sc (SI _ z), [] => Ok (pint (popcount z), r)
  | MSatSub, Sc (SI _ x), [Sc (SI _ y)] => Ok (pint (Z.max 0 (x - y)), r)
  | MInvert, Sc (SI Kbool z), [] => Ok (pbool (z =? 0), r)
  | MMutate, _, [] => Ok (r, r)
  | MCopy, _, [] => Ok (r, r)
  | MPush, Ls _ l, [Sc e] => Ok (Ls false (l ++ [e]), r)
  | MReversed, Ls _ l, [] => Ok (Ls false (rev l), r)
  | MFrom, Ls _ l, [Sc (SI _ n)] => Ok (Ls false (skipn (Z.to_nat (slice_from (zlen l) n)) l), r)
  | MFrom, Sc (SS _ s), [Sc (SI _ n)] => Ok (Sc (SS false (skipn (Z.to_nat (slice_from (zlen s) n)) s)), r)
  | MGetItem, Ls _ l, [Sc (SI _ n)] =>
      match norm_index (zlen l) n with
      | Some j => match nth_z l j with Some e => Ok (Sc e, r) | None => Raise IndexError end | None => Raise IndexError end
  | MGetItem, Sc (SS _ s), [Sc (SI _ n)] =>
      match norm_index (zlen s) n with
      | Some j => match nth_z s j with Some c => Ok (Sc (SS false [c]), r) | None => Raise IndexError end
      | None => Raise IndexError end
  | MSum, Ls _ l, [] => bind (fold_left (fun acc e => bind acc (fun a => py_binop Add a (Sc e))) l (Ok (pint 0))) (fun v => Ok (v, r))
  | MProd, Ls _ l, [] => bind (fold_left (fun acc e => bind acc (fun a => py_binop Mul a (Sc e))) l (Ok (pint 1))) (fun v => Ok (v, r))
  | MInc, _, [i] => bind (py_binop Add r i) natck
  | MDec, _, [i] => bind (py_binop Sub r i) natck
  | MInc0, Sc (SI _ _), [] => bind (py_binop Add r (pint 1)) natck
  | MDec0, Sc (SI _ _), [] => bind (py_binop Sub r (pint 1)) natck
  | MInc0, Sc (SF _ _), [] => bind (py_binop Add r (Sc (SF false one_f))) natck
  | MDec0, Sc (SF _ _), [] => bind (py_binop Sub r (Sc (SF false one_f))) natck
  | MUpdate, Sc (SI Kint _), [Sc (SI Kint _) as v] | MUpdate, Sc (SI Kbool _), [Sc (SI Kbool _) as v]
  | MUpdate, Sc (SF _ _), [Sc (SF _ _) as v] | MUpdate, Sc (SS _ _), [Sc (SS _ _) as v] => natck v
  | _, _, _ => Unmodelled
  end.

(* ---- the judge: clauses that fail for one observed behaviour (empty list = the property holds for this case)
   1 value differs from the Python built-in          2 not an instance of the declared class (after the re-wrap)
   3 a negative Nat exists afterwards                 4 a method of an immutable class changed its receiver
   5 (informational, not a failure by itself) raw result is not a strict instance of the declared class *)
Definition is_mut (v : val) : bool := match v with VM _ _ => true | _ => false end.
Definition agree (impl ref_ : res val) : bool :=
  match ref_ with
  | Unmodelled => true
  | _ => match impl with Unmodelled => true | _ => res_eqb (unwrap_res impl) ref_ end
  end.
Definition class_ok (decl : option Z) (impl : res val) : bool :=
  match decl, impl with
  | Some d, Ok v => if d =? -2 then true else inst_after_rewrap d v
  | _, _ => true
  end.
Definition strict_ok (decl : option Z) (impl : res val) : bool :=
  match decl, impl with
  | Some d, Ok v => if (d =? -2) || (d =? 16) || (d =? 19) then true else strict_inst d v
  | _, _ => true
  end.
Definition clauses (c1 c2 c3 c4 c5 : bool) : list Z :=
  (if c1 then [] else [1]) ++ (if c2 then [] else [2]) ++ (if c3 then [] else [3]) ++ (if c4 then [] else [4])
  ++ (if c5 then [] else [5]).
Definition res_good (r : res val) : bool := match r with Ok v => good v | _ => true end.

(* clauses 1 and 2 speak about operations the compiler accepts for the operand classes (a plain Python operand counts
   as the class it is a literal of); clauses 3 and 4 about everything that can be executed *)
Definition judge_binop (o : bop) (a b : val) (impl : res val) (a' b' : val) : list Z :=
  let d := declared_binop o a b in
  let dcl := match d with Some _ => wf a && wf b | None => false end in
  clauses (negb dcl || agree impl (py_binop o (unwrap a) (unwrap b))) (negb dcl || class_ok d impl)
          (negb (good a && good b) || (res_good impl && good a' && good b'))
          ((is_mut a || val_eqb a a') && (is_mut b || val_eqb b b')) (negb dcl || strict_ok d impl).
Definition judge_unop (o : uop) (a : val) (impl : res val) (a' : val) : list Z :=
  let d := declared_unop o a in
  let dcl := match d with Some _ => wf a | None => false end in
  clauses (negb dcl || agree impl (py_unop o (unwrap a))) (negb dcl || class_ok d impl)
          (negb (good a) || (res_good impl && good a'))
          (is_mut a || val_eqb a a') (negb dcl || strict_ok d impl).
Definition is_natlike_mut (v : val) : bool := match v with VM (MNat | MBool) _ => true | _ => false end.
Definition judge_method (m : meth) (recv : val) (args : list val) (impl : res val) (recv' : val) : list Z :=
  let d := declared_method m recv in
  let dcl := match d with Some _ => wf recv && forallb wf args && negb (is_plain recv) | None => false end in
  let rf := ref_method m (is_natlike_mut recv) (unwrap recv) (map unwrap args) in
  let c1 := match rf, impl with
            | Unmodelled, _ | _, Unmodelled => true
            | Ok (v, r'), Ok iv => (match m with MUpdate | MInc | MDec | MInc0 | MDec0 => true | _ => val_eqv (unwrap iv) v end)
                                   && (negb (is_mut recv) || val_eqv (unwrap recv') r')
            | Raise e, Raise f => exc_eqb e f
            | _, _ => false end in
  clauses (negb dcl || c1) (negb dcl || class_ok d impl)
          (negb (good recv && forallb good args) || (res_good impl && good recv'))
          (is_mut recv || val_eqb recv recv') (negb dcl || strict_ok d impl).
(* constructor call D(x) (the re-wrap): keeps the value when it succeeds; never yields a negative Nat *)
Definition judge_construct (c : cast) (x : val) (impl : res val) : list Z :=
  let same := match impl with
              | Ok v => match c, unwrap x with
                        | ToBool, Sc (SI _ z) => negb ((z =? 0) || (z =? 1)) || val_eqv (unwrap v) (pint z)
                        | (ToInt | ToNat | ToNatOrInt), Sc (SI _ z) => val_eqv (unwrap v) (pint z)
                        | ToFloat, Sc (SI _ z) => match orc OC_TOFLOAT (OInt z) ONo with
                                                  | RF b => val_eqb (unwrap v) (Sc (SF false b)) | _ => true end
                        | (ToFloat | ToStr | ToList), _ => val_eqb (unwrap v) (unwrap x)
                        | _, _ => true end
              | _ => true end in
  clauses same true (res_good impl) true true.

(* ---- known findings: the classes of inputs on which the runtime (variant [cur]) is known to violate clauses 1/2.
   K_mut (1): an operand is a Mut object.  The Mut classes implement the operator protocol only in part: no reflected
              methods (Int + Int! raises TypeError), StrMut has neither + nor ordering, abs() is missing, arithmetic
              results are forced into the receiver's class (IntMut / truncates, NatMut with a negative result raises).
   K_pow (2): integer ** integer with a negative exponent (Int.__pow__ casts the float to Int: 2 ** -1 = 0) or with a
              negative result (the compiler declares Int ** Int : Nat, so the re-wrap raises), or a negative base with
              a fractional exponent (Python answers with a complex number, Float(complex) raises TypeError). *)
Definition known_binop (o : bop) (a b : val) : Z :=
  if is_mut a || is_mut b then 1
  else match o, unwrap a, unwrap b with
       | Pow, Sc (SI _ x), Sc (SI _ y) => if (y <? 0) || ((x <? 0) && Z.odd y) then 2 else 0
       | Pow, ua, ub => match py_binop Pow ua ub with Ok (Sc SComplex) => 2 | _ => 0 end
       | _, _, _ => 0
       end.
Definition known_unop (o : uop) (a : val) : Z := if is_mut a then 1 else 0.
Definition known_method (m : meth) (recv : val) (args : list val) : Z :=
  if existsb is_mut args then 1
  else match m, recv with (MSatSub | MBitCount | MGet | MFrom | MGetItem | MInvert), VM _ _ => 1 | _, _ => 0 end.

End WithOracle.

(* ---- operation sequences over a store of objects (for the invariant "no Nat instance is ever negative"):
   a command reads its operands from the store, appends the result object, and a method call also replaces the
   receiver by its state after the call; a command that raises leaves the store as it is *)
Inductive cmd :=
| CBin (o : bop) (i j : nat)
| CUn (o : uop) (i : nat)
| CMeth (m : meth) (i : nat) (js : list nat)
| CNew (c : cast) (i : nat).
Definition getv (st : list val) (i : nat) : val := nth i st vnone.
Fixpoint setv (st : list val) (i : nat) (v : val) : list val :=
  match st, i with
  | [], _ => []
  | _ :: t, O => v :: t
  | x :: t, S k => x :: setv t k v
  end.
Definition exec (orc : Z -> oarg -> oarg -> ores) (fx : fixes) (st : list val) (c : cmd) : list val :=
  match c with
  | CBin o i j => match binop orc fx o (getv st i) (getv st j) with Ok r => st ++ [r] | _ => st end
  | CUn o i => match unop orc fx o (getv st i) with Ok r => st ++ [r] | _ => st end
  | CMeth m i js => match method orc fx m (getv st i) (map (getv st) js) with
                    | Ok (r, recv') => setv st i recv' ++ [r] | _ => st end
  | CNew c i => match rewrap orc c (getv st i) with Ok r => st ++ [r] | _ => st end
  end.
Definition run_cmds (orc : Z -> oarg -> oarg -> ores) (fx : fixes) (st : list val) (cs : list cmd) : list val :=
  fold_left (exec orc fx) cs st.
