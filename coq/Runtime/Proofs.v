(** C26 — lemmas and proofs for Props_C26.v *)
From Coq Require Import ZArith List Bool Lia.
From ErgV Require Import Runtime.Model Runtime.Spec.
Import ListNotations.
Open Scope Z_scope.

(* ====================================================================== no negative Nat: structural proof *)
Section Good.
Variable orc : Z -> oarg -> oarg -> ores.

Lemma good_pint : forall z, good (pint z) = true.  Proof. reflexivity. Qed.
Lemma good_pbool : forall b, good (pbool b) = true.  Proof. reflexivity. Qed.
Lemma of_ores_good : forall r v, of_ores r = Ok v -> good v = true.
Proof. intros [b|z|b|e| |] v H; cbn in H; inversion H; reflexivity. Qed.

Lemma int_arith_good : forall o x y v, int_arith orc o x y = Ok v -> good v = true.
Proof.
  intros o x y v H. destruct o; cbn [int_arith] in H;
    try (inversion H; reflexivity); try (eapply of_ores_good; eassumption).
  - destruct (y =? 0); inversion H; reflexivity.
  - destruct (y =? 0); inversion H; reflexivity.
  - destruct (0 <=? y); [inversion H; reflexivity | eapply of_ores_good; eassumption].
Qed.
Lemma int_method_good : forall o rf s x v, int_method orc o rf s x = Ok v -> good v = true.
Proof.
  intros o rf s x v H. unfold int_method in H. destruct (as_int s); [|discriminate].
  destruct (as_int x); [|inversion H; reflexivity].
  destruct rf; eapply int_arith_good; eassumption.
Qed.
Lemma float_method_good : forall o rf s x v, float_method orc o rf s x = Ok v -> good v = true.
Proof.
  intros o rf s x v H. unfold float_method in H. destruct (as_flt s); [|discriminate].
  destruct (oarg_of x); try (destruct rf; eapply of_ores_good; eassumption). inversion H; reflexivity.
Qed.
Lemma str_method_good : forall o s x v, str_method o s x = Ok v -> good v = true.
Proof.
  intros o s x v H. unfold str_method in H. destruct (as_str s); [|discriminate].
  destruct o; try discriminate;
    try (destruct (as_str x); inversion H; reflexivity); try (destruct (as_int x); inversion H; reflexivity).
Qed.
Lemma forallb_repeat_list : forall (f : sval -> bool) l n, forallb f l = true -> forallb f (repeat_list l n) = true.
Proof. intros f l n H. induction n; cbn; auto. rewrite forallb_app, H, IHn. reflexivity. Qed.
Lemma as_list_good : forall v l, as_list v = Some l -> good v = true -> forallb good_s l = true.
Proof. intros [s|w l0|m p] l H G; cbn in H; inversion H; subst. exact G. Qed.
Lemma list_method_good : forall o s x v, good s = true -> good x = true -> list_method o s x = Ok v -> good v = true.
Proof.
  intros o s x v Gs Gx H. unfold list_method in H. destruct (as_list s) as [l|] eqn:El; [|discriminate].
  pose proof (as_list_good _ _ El Gs) as Gl.
  destruct o; try discriminate.
  - destruct (as_list x) as [m|] eqn:Em; [|discriminate]. inversion H; subst. cbn.
    rewrite forallb_app, Gl, (as_list_good _ _ Em Gx). reflexivity.
  - destruct (as_int x); [|discriminate]. inversion H; subst. cbn. apply forallb_repeat_list; exact Gl.
  - destruct (as_list x) as [m|]; [|inversion H; reflexivity].
    destruct (negb (length l =? length m)%nat); [inversion H; reflexivity|].
    destruct (list_eq l m); inversion H; reflexivity.
  - destruct (as_list x) as [m|]; [|inversion H; reflexivity].
    destruct (negb (length l =? length m)%nat); [inversion H; reflexivity|].
    destruct (list_eq l m); inversion H; reflexivity.
  - destruct (as_list x); [discriminate|inversion H; reflexivity].
  - destruct (as_list x); [discriminate|inversion H; reflexivity].
  - destruct (as_list x); [discriminate|inversion H; reflexivity].
  - destruct (as_list x); [discriminate|inversion H; reflexivity].
Qed.

(* every constructor call yields a good object *)
Lemma cast_good : forall c v r, good v = true -> cast_to orc c v = Ok r -> good r = true.
Proof.
  intros c v r G H. destruct c; cbn [cast_to] in H.
  - destruct (to_z orc v); cbn in H; inversion H; reflexivity.
  - destruct (to_z orc v) as [z| |]; cbn in H; try discriminate.
    destruct (z <? 0) eqn:E; inversion H; subst. cbn. apply Z.leb_le. apply Z.ltb_ge in E. exact E.
  - destruct (to_z orc v) as [z| |]; cbn in H; try discriminate.
    destruct (z <? 0) eqn:E; inversion H; subst. cbn. apply Z.leb_le. apply Z.ltb_ge in E. exact E.
  - destruct (to_f orc v); cbn in H; inversion H; reflexivity.
  - destruct v as [[k z|w b|w t| | | | |]|w l|[| | | |] [k z|w b|w t| | | | |]]; cbn in H; inversion H; reflexivity.
  - destruct v as [[k z|w b|w t| | | | |]|w l|m p]; cbn in H; inversion H; subst. exact G.
  - destruct (to_z orc v) as [z| |]; cbn in H; try discriminate.
    destruct (nonneg_v v); [|inversion H; reflexivity].
    destruct (z <? 0) eqn:E; inversion H; subst. cbn. apply Z.leb_le. apply Z.ltb_ge in E. exact E.
Qed.
Lemma then_good : forall r c v, (forall u, r = Ok u -> good u = true) -> then_ orc r c = Ok v -> good v = true.
Proof.
  intros r c v Hr H. unfold then_ in H. destruct r as [u| |]; cbn in H; try discriminate.
  destruct (is_none u || is_notimpl u).
  - inversion H; subst. apply Hr; reflexivity.
  - eapply cast_good; [apply Hr; reflexivity | exact H].
Qed.

Section Fx.
Variable fx : fixes.

Definition impl_good (impl : pycls -> dunder -> option (val -> val -> res val)) : Prop :=
  forall ow d f s x r, impl ow d = Some f -> good s = true -> good x = true -> f s x = Ok r -> good r = true.

Lemma float_rpow_good : forall s x r,
  bind (to_f orc x) (fun b => then_ orc (float_method orc Pow false (Sc (SF false b)) s) ToFloat) = Ok r -> good r = true.
Proof.
  intros s x r Hf. destruct (to_f orc x); cbn [bind] in Hf; try discriminate.
  eapply then_good; [|exact Hf]. intros u Hu. eapply float_method_good; eassumption.
Qed.
Lemma impl1_good : impl_good (impl1 orc fx).
Proof.
  intros ow d f s x r Hi Gs Gx Hf.
  destruct ow; destruct d as [o|o]; destruct o;
    cbv beta iota delta [impl1 is_arith is_cmp negb] in Hi; inversion Hi; subst; clear Hi; cbv beta in Hf;
    try discriminate;
    try (eapply int_method_good; eassumption);
    try (eapply float_method_good; eassumption);
    try (eapply str_method_good; eassumption);
    try (eapply (list_method_good _ _ _ _ Gs Gx); eassumption);
    try (eapply float_rpow_good; eassumption);
    try (eapply then_good; [|exact Hf]; intros u Hu; first
         [ eapply int_method_good; eassumption | eapply float_method_good; eassumption
         | eapply str_method_good; eassumption | eapply (list_method_good _ _ _ _ Gs Gx); eassumption
         | eapply then_good; [|exact Hu]; intros u2 Hu2; eapply int_method_good; eassumption ]).
Qed.

Lemma call_good : forall impl c d x y v, impl_good impl -> good x = true -> good y = true ->
  match find_owner impl c d with
  | Some ow => match impl ow d with Some f => f x y | None => Ok vnotimpl end
  | None => Ok vnotimpl end = Ok v -> good v = true.
Proof.
  intros impl c d x y v HI Gx Gy Hc. destruct (find_owner impl c d); [|inversion Hc; reflexivity].
  destruct (impl p d) eqn:Ei; [|inversion Hc; reflexivity]. exact (HI _ _ _ _ _ _ Ei Gx Gy Hc).
Qed.
Lemma dispatch_good : forall impl cls_of o a b r, impl_good impl ->
  good a = true -> good b = true -> dispatch impl cls_of o a b = Ok r -> good r = true.
Proof.
  intros impl cls_of o a b r HI Ga Gb H. unfold dispatch in H.
  assert (Hfb : forall v, match o with
                          | Eq => Ok (pbool (is_none a && is_none b))
                          | Ne => Ok (pbool (negb (is_none a && is_none b)))
                          | _ => Raise TypeError end = Ok v -> good v = true).
  { intros v Hv. destruct o; inversion Hv; reflexivity. }
  match type of H with (if ?c then _ else _) = _ => destruct c end.
  - match type of H with bind ?m _ = _ => destruct m as [u| |] eqn:E1 end; cbn [bind] in H; try discriminate.
    destruct (negb (is_notimpl u)); [inversion H; subst; exact (call_good _ _ _ _ _ _ HI Gb Ga E1)|].
    match type of H with bind ?m _ = _ => destruct m as [u2| |] eqn:E2 end; cbn [bind] in H; try discriminate.
    destruct (negb (is_notimpl u2)); [inversion H; subst; exact (call_good _ _ _ _ _ _ HI Ga Gb E2)|].
    apply Hfb; exact H.
  - match type of H with bind ?m _ = _ => destruct m as [u| |] eqn:E1 end; cbn [bind] in H; try discriminate.
    destruct (negb (is_notimpl u)); [inversion H; subst; exact (call_good _ _ _ _ _ _ HI Ga Gb E1)|].
    match type of H with (if ?c then _ else _) = _ => destruct c end; [apply Hfb; exact H|].
    match type of H with bind ?m _ = _ => destruct m as [u2| |] eqn:E2 end; cbn [bind] in H; try discriminate.
    destruct (negb (is_notimpl u2)); [inversion H; subst; exact (call_good _ _ _ _ _ _ HI Gb Ga E2)|].
    apply Hfb; exact H.
Qed.

Lemma bin1_good : forall o a b r, good a = true -> good b = true -> bin1 orc fx o a b = Ok r -> good r = true.
Proof.
  intros o a b r Ga Gb H. unfold bin1 in H. destruct (has_complex a || has_complex b); [discriminate|].
  eapply dispatch_good; [apply impl1_good|exact Ga|exact Gb|exact H].
Qed.

(* ---- Mut layer *)
Hypothesis Hfx : fx_natmut_incdec fx = true.

Lemma payload_good : forall v, good v = true -> good (payload v) = true.
Proof. intros [s|w l|[| | | |] p] G; cbn in *; auto; apply andb_true_iff in G; tauto. Qed.
Lemma mut_other_good : forall v, good v = true -> good (mut_other v) = true.
Proof. intros [s|w l|[| | | |] p] G; cbn in *; auto; apply andb_true_iff in G; tauto. Qed.
Lemma scalar_of_inv : forall v s, scalar_of v = Ok s -> v = Sc s.
Proof. intros [s0|w l|m p] s H; inversion H; reflexivity. Qed.

Lemma mk_mut_good : forall m v r, m <> MBool -> good v = true -> mk_mut orc fx m v = Ok r -> good r = true.
Proof.
  intros m v r Hm G H. destruct m; cbn [mk_mut] in H; try congruence.
  - destruct (to_z orc v) as [z| |]; cbn [bind] in H; try discriminate.
    rewrite Hfx in H. destruct ((z <? 0) || (true && negb (nonneg_v v))) eqn:E; [discriminate|].
    apply orb_false_iff in E. destruct E as [_ E]. cbn in E. apply negb_false_iff in E.
    destruct (scalar_of v) as [s| |] eqn:Es; cbn [bind] in H; try discriminate. inversion H; subst.
    apply scalar_of_inv in Es. subst v. cbn in *. rewrite G, E. reflexivity.
  - destruct (cast_to orc ToInt v) as [u| |] eqn:Ec; cbn [bind] in H; try discriminate.
    destruct (scalar_of u) as [s| |] eqn:Es; cbn [bind] in H; try discriminate. inversion H; subst.
    apply scalar_of_inv in Es. subst u. apply (cast_good _ _ _ G Ec).
  - destruct (cast_to orc ToFloat v) as [u| |] eqn:Ec; cbn [bind] in H; try discriminate.
    destruct (scalar_of u) as [s| |] eqn:Es; cbn [bind] in H; try discriminate. inversion H; subst.
    apply scalar_of_inv in Es. subst u. apply (cast_good _ _ _ G Ec).
  - destruct (scalar_of v) as [s| |] eqn:Es; cbn [bind] in H; try discriminate. inversion H; subst.
    apply scalar_of_inv in Es. subst v. exact G.
Qed.

Lemma mut_arith_good : forall m o s x r, m <> MBool -> good s = true -> good x = true ->
  mut_arith orc fx m o s x = Ok r -> good r = true.
Proof.
  intros m o s x r Hm Gs Gx H. unfold mut_arith in H.
  destruct (bin1 orc fx o (payload s) (mut_other x)) as [u| |] eqn:E; cbn [bind] in H; try discriminate.
  apply (mk_mut_good m u r Hm); [|exact H].
  eapply bin1_good; [apply payload_good; exact Gs|apply mut_other_good; exact Gx|exact E].
Qed.
Lemma mut_cmp_good : forall o s x r, good s = true -> good x = true -> mut_cmp orc fx o s x = Ok r -> good r = true.
Proof.
  intros o s x r Gs Gx H. unfold mut_cmp in H.
  eapply bin1_good; [apply payload_good; exact Gs|apply mut_other_good; exact Gx|exact H].
Qed.

Lemma impl2_good : impl_good (impl2 orc fx).
Proof.
  intros ow d f s x r Hi Gs Gx Hf.
  destruct ow; destruct d as [o|o]; destruct o;
  first
  [ match type of Hi with impl2 _ _ ?ow ?d = _ => change (impl1 orc fx ow d = Some f) in Hi end;
    exact (impl1_good _ _ _ _ _ _ Hi Gs Gx Hf)
  | cbv beta iota delta [impl2] in Hi; inversion Hi; subst; clear Hi; cbv beta in Hf;
    first
    [ exact (mut_cmp_good _ _ _ _ Gs Gx Hf)
    | refine (mut_arith_good _ _ _ _ _ _ Gs Gx Hf); discriminate
    | destruct (bin1 orc fx _ (mut_other x) (payload s)) as [u| |] eqn:E; cbn [bind] in Hf; try discriminate;
      refine (cast_good _ _ _ _ Hf);
      eapply bin1_good; [apply mut_other_good; exact Gx|apply payload_good; exact Gs|exact E] ] ].
Qed.

Lemma binop_good : forall o a b r, good a = true -> good b = true -> binop orc fx o a b = Ok r -> good r = true.
Proof.
  intros o a b r Ga Gb H. unfold binop in H.
  destruct (has_complex a || has_complex b || seq_vs_mut o a b); [discriminate|].
  eapply dispatch_good; [apply impl2_good|exact Ga|exact Gb|exact H].
Qed.

Lemma un1_good : forall o a r, good a = true -> un1 orc o a = Ok r -> good r = true.
Proof.
  intros o a r G H. destruct a as [[k z|w b|w t| | | | |]|w l|m p]; cbn [un1] in H; try discriminate.
  - destruct o; destruct k; inversion H; subst; try reflexivity; exact G.
  - destruct o.
    + destruct (of_ores (orc OC_NEG (OFlt b) ONo)) as [u| |] eqn:E; cbn [bind] in H; try discriminate.
      destruct w; [eapply cast_good; [eapply of_ores_good; exact E|exact H]|inversion H; subst; eapply of_ores_good; exact E].
    + destruct w; inversion H; subst; reflexivity.
    + destruct (of_ores (orc OC_ABS (OFlt b) ONo)) as [u| |] eqn:E; cbn [bind] in H; try discriminate.
      destruct w; [eapply cast_good; [eapply of_ores_good; exact E|exact H]|inversion H; subst; eapply of_ores_good; exact E].
Qed.
Lemma good_payload_s : forall m p, good (VM m p) = true -> good (Sc p) = true.
Proof. intros [| | | |] p G; cbn in *; auto; apply andb_true_iff in G; tauto. Qed.
Lemma unop_good : forall o a r, good a = true -> unop orc fx o a = Ok r -> good r = true.
Proof.
  intros o a r G H. destruct a as [s|w l|m p]; cbn [unop] in H; try (eapply un1_good; eassumption).
  pose proof (good_payload_s _ _ G) as Gp.
  destruct m; destruct o; try discriminate; try (inversion H; subst; exact G);
    (destruct (un1 orc Neg (Sc p)) as [u| |] eqn:E; cbn [bind] in H; try discriminate;
     eapply mk_mut_good; [|eapply un1_good; [exact Gp|exact E]|exact H]; discriminate).
Qed.

(* ---- named methods *)
Lemma fold_bin_good : forall o l start r, forallb good_s l = true -> good start = true ->
  fold_bin orc fx o l start = Ok r -> good r = true.
Proof.
  intros o l. unfold fold_bin.
  assert (G : forall l (acc : res val) r, forallb good_s l = true -> (forall u, acc = Ok u -> good u = true) ->
              fold_left (fun acc e => bind acc (fun a => bin1 orc fx o a (Sc e))) l acc = Ok r -> good r = true).
  { induction l0 as [|e l0 IH]; intros acc r Hl Hacc H; cbn in H.
    - apply Hacc; exact H.
    - cbn in Hl. apply andb_true_iff in Hl. destruct Hl as [He Hl].
      apply (IH _ r Hl) in H; [exact H|]. intros u Hu. destruct acc as [a| |]; cbn [bind] in Hu; try discriminate.
      eapply (bin1_good o a (Sc e)); [apply Hacc; reflexivity|exact He|exact Hu]. }
  intros start r Hl Hs H. eapply G; [exact Hl| |exact H]. intros u Hu; inversion Hu; subst; exact Hs.
Qed.

Ltac crush H :=
  repeat (match type of H with
          | bind ?m _ = _ => let E := fresh "E" in destruct m eqn:E; cbn [bind] in H
          | (if ?c then _ else _) = _ => let E := fresh "C" in destruct c eqn:E
          | match ?t with _ => _ end = _ => let E := fresh "M" in destruct t eqn:E
          end; try discriminate).

Lemma smeth_good : forall m s args r, good (Sc s) = true -> forallb good args = true ->
  smeth orc fx m s args = Ok r -> good r = true.
Proof.
  intros m s args r Gs Ga H. unfold smeth in H. crush H;
    try (inversion H; subst; reflexivity);
    try (eapply cast_good; [|exact H]; eapply bin1_good; [| |eassumption]; [assumption|reflexivity]).
  all: try (cbn in Ga; apply andb_true_iff in Ga; eapply binop_good; [| |exact H]; [assumption|tauto]).
  inversion H; subst. cbn. destruct (z =? 0); reflexivity.
Qed.

Lemma mk_mut_bool_good : forall p r, good_s p = true -> nonneg_s p = true -> mk_mut orc fx MBool (Sc p) = Ok r -> good r = true.
Proof. intros p r G N H. cbn in H. inversion H; subst. cbn. rewrite G, N. reflexivity. Qed.

(* Mut receivers: the stored value is replaced through a checking constructor *)
Lemma set_good : forall k c v r recv', good v = true ->
  (k = MNat \/ k = MBool -> c = ToNat \/ c = ToBool) ->
  bind (cast_to orc c v) (fun r => bind (scalar_of r) (fun s => Ok (vnone, VM k s))) = Ok (r, recv') ->
  good r = true /\ good recv' = true.
Proof.
  intros k c v r recv' G Hk H.
  destruct (cast_to orc c v) as [u| |] eqn:Ec; cbn [bind] in H; try discriminate.
  destruct (scalar_of u) as [s| |] eqn:Es; cbn [bind] in H; try discriminate. inversion H; subst.
  apply scalar_of_inv in Es. subst u. split; [reflexivity|].
  pose proof (cast_good _ _ _ G Ec) as Gu. cbn in Gu.
  destruct k; cbn; try exact Gu.
  - rewrite Gu. destruct (Hk (or_introl eq_refl)) as [Hc|Hc]; subst c; cbn in Ec;
      destruct (to_z orc v) as [z| |]; cbn in Ec; try discriminate; destruct (z <? 0) eqn:E; inversion Ec; subst; cbn;
      apply Z.ltb_ge in E; apply Z.leb_le in E; rewrite E; reflexivity.
  - rewrite Gu. destruct (Hk (or_intror eq_refl)) as [Hc|Hc]; subst c; cbn in Ec;
      destruct (to_z orc v) as [z| |]; cbn in Ec; try discriminate; destruct (z <? 0) eqn:E; inversion Ec; subst; cbn;
      apply Z.ltb_ge in E; apply Z.leb_le in E; rewrite E; reflexivity.
Qed.

Lemma nth_error_good : forall (l : list sval) n e, forallb good_s l = true -> nth_error l n = Some e -> good_s e = true.
Proof.
  induction l as [|x l IH]; intros [|n] e G H; cbn in *; try discriminate; apply andb_true_iff in G.
  - inversion H; subst; tauto.
  - eapply IH; [apply G|exact H].
Qed.
Lemma forallb_skipn : forall (f : sval -> bool) n l, forallb f l = true -> forallb f (skipn n l) = true.
Proof. induction n; intros [|x l] G; cbn in *; auto. apply andb_true_iff in G. apply IHn; tauto. Qed.
Lemma forallb_rev : forall (f : sval -> bool) l, forallb f l = true -> forallb f (rev l) = true.
Proof. induction l; cbn; intros G; auto. apply andb_true_iff in G. rewrite forallb_app, IHl by tauto. cbn. destruct G as [-> _]. reflexivity. Qed.
Lemma good_mut_parts : forall k p, good (VM k p) = true -> good_s p = true /\ (k = MNat \/ k = MBool -> nonneg_s p = true).
Proof. intros [| | | |] p G; cbn in G; try (apply andb_true_iff in G); intuition congruence. Qed.

Ltac leaf H :=
  try (inversion H; subst; clear H).

Ltac use_smeth G Ga :=
  match goal with
  | E : smeth _ _ ?m ?s ?a = Ok ?r |- good ?r = true => first [exact (smeth_good m s a r G Ga E) | exact (smeth_good m s a r G eq_refl E)]
  end.
Ltac inv_oks := repeat match goal with E : Ok _ = Ok _ |- _ => inversion E; subst; clear E end.
Lemma cast_nat_nonneg : forall c v s, c = ToNat \/ c = ToBool -> cast_to orc c v = Ok (Sc s) -> nonneg_s s = true.
Proof.
  intros c v s [Hc|Hc] H; subst c; cbn in H; destruct (to_z orc v) as [z| |]; cbn in H; try discriminate;
    destruct (z <? 0) eqn:E; inversion H; subst; cbn; apply Z.leb_le; apply Z.ltb_ge in E; exact E.
Qed.
Lemma smeth_invert_nonneg : forall p a0, smeth orc fx MInvert p [] = Ok (Sc a0) -> nonneg_s a0 = true.
Proof.
  intros p a0 H. destruct p as [[| | | |] z|w b|w t| | | | |]; cbn in H; try discriminate; inversion H; subst.
  cbn. destruct (z =? 0); reflexivity.
Qed.
Ltac fwd :=
  repeat match goal with
  | Ga : forallb good (?x :: _) = true |- _ =>
      lazymatch goal with _ : good x = true |- _ => fail
      | _ => assert (good x = true) by (cbn [forallb] in Ga; apply andb_true_iff in Ga; tauto) end
  | E : scalar_of ?u = Ok ?s |- _ => apply scalar_of_inv in E; subst u
  | E : binop _ _ ?o ?x ?y = Ok ?a |- _ =>
      lazymatch goal with _ : good a = true |- _ => fail
      | _ => assert (good a = true) by (eapply binop_good; [| |exact E]; assumption) end
  | E : bin1 _ _ ?o ?x ?y = Ok ?a |- _ =>
      lazymatch goal with _ : good a = true |- _ => fail
      | _ => assert (good a = true) by (eapply bin1_good; [| |exact E]; first [assumption|reflexivity]) end
  | E : cast_to _ ?c ?v = Ok ?u |- _ =>
      lazymatch goal with _ : good u = true |- _ => fail
      | _ => assert (good u = true) by (eapply cast_good; [|exact E]; assumption) end
  | E : smeth _ _ ?m ?s ?a = Ok ?r |- _ =>
      lazymatch goal with _ : good r = true |- _ => fail
      | _ => assert (good r = true) by (first [eapply smeth_good; [| |exact E]; [assumption|first [assumption|reflexivity]]]) end
  end.
Lemma method_good : forall m recv args r recv', good recv = true -> forallb good args = true ->
  method orc fx m recv args = Ok (r, recv') -> good r = true /\ good recv' = true.
Proof.
  intros m recv args r recv' G Ga H. unfold method in H. rewrite ?Hfx in H.
  destruct recv as [s|w l|k p].
  - (* immutable scalar receiver *)
    crush H; inv_oks; split; try assumption; try reflexivity;
      try use_smeth G Ga;
      try (eapply mk_mut_good; [|exact G|eassumption]; discriminate);
      try (eapply mk_mut_bool_good; [| |eassumption]; exact G).
  - (* list receiver *)
    cbn [good] in G.
    crush H; inv_oks; split; try assumption; try reflexivity; cbn [good];
      try (rewrite forallb_app, G; cbn in Ga |- *; apply andb_true_iff in Ga; destruct Ga as [-> _]; reflexivity);
      try (apply forallb_skipn; exact G); try (apply forallb_rev; exact G);
      try (eapply nth_error_good; [exact G|eassumption]);
      try (match goal with E : fold_bin _ _ _ _ _ = Ok _ |- _ => refine (fold_bin_good _ _ _ _ G _ E); reflexivity end).
  - (* Mut receiver *)
    pose proof (good_payload_s _ _ G) as Gp. destruct (good_mut_parts _ _ G) as [Gp' Gn].
    crush H; inv_oks; fwd; split; try assumption; try reflexivity;
      try (match goal with E : mk_mut _ _ ?m ?v = Ok ?r |- good ?r = true =>
             first [ eapply mk_mut_good; [|exact Gp|exact E]; discriminate
                   | eapply mk_mut_bool_good; [| |exact E]; first [exact Gp' | apply Gn; auto] ] end).
    all: try (match goal with
              | E : smeth _ _ MInvert _ [] = Ok (Sc ?s), Hs : good (Sc ?s) = true |- good (VM MBool ?s) = true =>
                  cbn [good] in Hs |- *; rewrite Hs, (smeth_invert_nonneg _ _ E); reflexivity
              | Ec : cast_to _ ?c ?v = Ok (Sc ?s), Hs : good (Sc ?s) = true |- good (VM ?k ?s) = true =>
                  cbn [good] in Hs |- *; first [ exact Hs | rewrite Hs; cbn [andb]; eapply cast_nat_nonneg; [|exact Ec]; auto ]
              end).
    destruct k; first [ eapply mk_mut_good; [|exact Gp|exact E]; discriminate
                      | eapply mk_mut_bool_good; [| |exact E]; [exact Gp'|apply Gn; auto] ].
Qed.
End Fx.
End Good.

(* ====================================================================== operation sequences *)
Lemma getv_good : forall st i, forallb good st = true -> good (getv st i) = true.
Proof.
  intros st i G. unfold getv. revert i. induction st as [|x st IH]; intros [|i]; cbn in *; auto;
    apply andb_true_iff in G; [tauto|apply IH; tauto].
Qed.
Lemma setv_good : forall st i v, forallb good st = true -> good v = true -> forallb good (setv st i v) = true.
Proof.
  induction st as [|x st IH]; intros [|i] v G Gv; cbn in *; auto; apply andb_true_iff in G.
  - rewrite Gv. tauto.
  - destruct G as [-> G]. cbn. apply IH; assumption.
Qed.
Lemma forallb_snoc : forall st (v : val), forallb good st = true -> good v = true -> forallb good (st ++ [v]) = true.
Proof. intros. rewrite forallb_app. cbn. rewrite H, H0. reflexivity. Qed.
Lemma map_getv_good : forall st js, forallb good st = true -> forallb good (map (getv st) js) = true.
Proof. intros st js G. induction js; cbn; auto. rewrite getv_good, IHjs; auto. Qed.

Lemma exec_good : forall orc fx st c, fx_natmut_incdec fx = true ->
  forallb good st = true -> forallb good (exec orc fx st c) = true.
Proof.
  intros orc fx st c Hfx G. destruct c as [o i j|o i|m i js|c i]; cbn [exec].
  - destruct (binop orc fx o (getv st i) (getv st j)) as [r| |] eqn:E; auto.
    apply forallb_snoc; auto. eapply binop_good; [exact Hfx| | |exact E]; apply getv_good; exact G.
  - destruct (unop orc fx o (getv st i)) as [r| |] eqn:E; auto.
    apply forallb_snoc; auto. eapply unop_good; [exact Hfx| |exact E]; apply getv_good; exact G.
  - destruct (method orc fx m (getv st i) (map (getv st) js)) as [[r recv']| |] eqn:E; auto.
    destruct (method_good orc fx Hfx _ _ _ _ _ (getv_good st i G) (map_getv_good st js G) E) as [Gr Gv].
    apply forallb_snoc; auto. apply setv_good; auto.
  - destruct (rewrap orc c (getv st i)) as [r| |] eqn:E; auto.
    apply forallb_snoc; auto. eapply cast_good; [|exact E]. apply getv_good; exact G.
Qed.
Lemma run_cmds_good : forall orc fx cs st, fx_natmut_incdec fx = true ->
  forallb good st = true -> forallb good (run_cmds orc fx st cs) = true.
Proof.
  intros orc fx cs. unfold run_cmds. induction cs as [|c cs IH]; intros st Hfx G; cbn; auto.
  apply IH; auto. apply exec_good; auto.
Qed.

