(** C26 — model of Erg's runtime classes (crates/erg_compiler/lib/core/_erg_{int,nat,bool,float,str,list,control,
    mutate_operator,type}.py) and of the part of Python they rest on: built-in int/bool/float/str/list operators,
    binary-operator dispatch (left __op__, NotImplemented, reflected __rop__, subclass-first), rich comparison.

    Definitions only.  Integers are exact on Z.  Floats are NOT interpreted: a float is its IEEE bit pattern and
    every float operation of the interpreter (float arithmetic, int/int true division, int**negative, int<->float
    conversion, comparisons involving a float) is a query to the section variable [orc].  Theorems therefore hold
    for every float semantics; the check feeds the answers the interpreter itself gives (pylib/c26_driver.py
    "battery") so that model and implementation can be compared on float cases too.

    [fx : fixes] selects the code variant: [nofix] is the runtime as found, [cur] the runtime after the fix: commits
    recorded in /verif/known/C26.json (the correspondence check runs [cur] against the working tree). *)
From Coq Require Import ZArith List Bool.
Import ListNotations.
Open Scope Z_scope.

(* ------------------------------------------------------------------ values *)
Inductive ik := KNat | KInt | KBool | Kint | Kbool.        (* classes whose instances are Python ints *)
Inductive sval :=                                         (* scalars: list elements, payload of the Mut classes *)
| SI (k : ik) (z : Z)
| SF (w : bool) (bits : Z)                                (* w = true: Float wrapper, false: plain float *)
| SS (w : bool) (s : list Z)                              (* Str / plain str, code points *)
| SNone | SNotImpl | SError | SComplex | SOther.
Inductive mk := MNat | MInt | MBool | MFloat | MStr.      (* NatMut IntMut BoolMut FloatMut StrMut *)
Inductive val :=
| Sc (s : sval)
| Ls (w : bool) (l : list sval)                           (* List / plain list *)
| VM (m : mk) (p : sval).                                 (* Mut object, p = its .value *)

Inductive exc := ValueError | TypeError | ZeroDivisionError | OverflowError | AttributeError | IndexError | OtherExc.
Inductive res (A : Type) := Ok (a : A) | Raise (e : exc) | Unmodelled.
Arguments Ok {A} a. Arguments Raise {A} e. Arguments Unmodelled {A}.
Definition bind {A B} (r : res A) (f : A -> res B) : res B :=
  match r with Ok a => f a | Raise e => Raise e | Unmodelled => Unmodelled end.

Inductive bop := Add | Sub | Mul | TrueDiv | FloorDiv | Mod | Pow | Eq | Ne | Lt | Le | Gt | Ge.
Inductive uop := Neg | Pos | Abs.
Definition opc (o : bop) : Z :=
  match o with Add => 0 | Sub => 1 | Mul => 2 | TrueDiv => 3 | FloorDiv => 4 | Mod => 5 | Pow => 6
             | Eq => 7 | Ne => 8 | Lt => 9 | Le => 10 | Gt => 11 | Ge => 12 end.
Definition is_cmp (o : bop) : bool := match o with Eq | Ne | Lt | Le | Gt | Ge => true | _ => false end.
Definition swap_cmp (o : bop) : bop := match o with Lt => Gt | Le => Ge | Gt => Lt | Ge => Le | x => x end.

(* code variants *)
Record fixes := { fx_nat_arith : bool;     (* Nat.__add__/__mul__, NatMut.__radd__/__rmul__: Nat if >= 0 else Int *)
                  fx_natmut_incdec : bool; (* NatMut.inc/dec cast to Nat; NatMut.__init__ rejects negative non-integers *)
                  fx_list_push : bool }.   (* List.push returns a new List *)
Definition nofix := {| fx_nat_arith := false; fx_natmut_incdec := false; fx_list_push := false |}.

(* Python classes (for method resolution) *)
Inductive pycls := PyNat | PyInt | PyBool | Pyint | Pybool | PyFloat | Pyfloat | PyStr | Pystr | PyList | Pylist
                 | PyNatMut | PyIntMut | PyBoolMut | PyFloatMut | PyStrMut | PyMutType | PyForeign.
Definition pycls_code (c : pycls) : nat :=
  match c with PyNat => 0 | PyInt => 1 | PyBool => 2 | Pyint => 3 | Pybool => 4 | PyFloat => 5 | Pyfloat => 6
             | PyStr => 7 | Pystr => 8 | PyList => 9 | Pylist => 10 | PyNatMut => 11 | PyIntMut => 12 | PyBoolMut => 13
             | PyFloatMut => 14 | PyStrMut => 15 | PyMutType => 16 | PyForeign => 20 end%nat.
Definition pycls_eqb (a b : pycls) : bool := Nat.eqb (pycls_code a) (pycls_code b).
(* method resolution order, as declared by the class statements: class Int(int), class Nat(Int), class Bool(Nat),
   class Float(float), class Str(str), class List(list), class IntMut(MutType), class NatMut(IntMut),
   class BoolMut(NatMut), class FloatMut(MutType), class StrMut(MutType); bool(int) *)
Definition mro (c : pycls) : list pycls :=
  match c with
  | PyBool => [PyBool; PyNat; PyInt; Pyint] | PyNat => [PyNat; PyInt; Pyint] | PyInt => [PyInt; Pyint]
  | Pybool => [Pybool; Pyint] | Pyint => [Pyint]
  | PyFloat => [PyFloat; Pyfloat] | Pyfloat => [Pyfloat]
  | PyStr => [PyStr; Pystr] | Pystr => [Pystr] | PyList => [PyList; Pylist] | Pylist => [Pylist]
  | PyBoolMut => [PyBoolMut; PyNatMut; PyIntMut; PyMutType] | PyNatMut => [PyNatMut; PyIntMut; PyMutType]
  | PyIntMut => [PyIntMut; PyMutType] | PyFloatMut => [PyFloatMut; PyMutType] | PyStrMut => [PyStrMut; PyMutType]
  | PyMutType => [PyMutType] | PyForeign => [PyForeign]
  end.
Definition proper_subclass (sub sup : pycls) : bool :=
  negb (pycls_eqb sub sup) && existsb (pycls_eqb sup) (mro sub).

Definition ik_cls (k : ik) : pycls :=
  match k with KNat => PyNat | KInt => PyInt | KBool => PyBool | Kint => Pyint | Kbool => Pybool end.
Definition mk_cls (m : mk) : pycls :=
  match m with MNat => PyNatMut | MInt => PyIntMut | MBool => PyBoolMut | MFloat => PyFloatMut | MStr => PyStrMut end.
Definition scls (s : sval) : pycls :=
  match s with
  | SI k _ => ik_cls k | SF w _ => if w then PyFloat else Pyfloat | SS w _ => if w then PyStr else Pystr
  | _ => PyForeign
  end.
(* class seen by the built-in layer: a Mut object is just some foreign object there *)
Definition cls1 (v : val) : pycls :=
  match v with Sc s => scls s | Ls w _ => if w then PyList else Pylist | VM _ _ => PyForeign end.
Definition cls2 (v : val) : pycls := match v with VM m _ => mk_cls m | _ => cls1 v end.

(* method names: left / reflected arithmetic, comparisons (their reflection is the swapped comparison) *)
Inductive dunder := DL (o : bop) | DR (o : bop).

Definition vnone := Sc SNone.
Definition vnotimpl := Sc SNotImpl.
Definition pint (z : Z) := Sc (SI Kint z).
Definition pbool (b : bool) := Sc (SI Kbool (if b then 1 else 0)).
Definition is_notimpl (v : val) : bool := match v with Sc SNotImpl => true | _ => false end.
Definition is_none (v : val) : bool := match v with Sc SNone => true | _ => false end.

Definition as_int (v : val) : option Z := match v with Sc (SI _ z) => Some z | _ => None end.
Definition as_flt (v : val) : option Z := match v with Sc (SF _ b) => Some b | _ => None end.
Definition as_str (v : val) : option (list Z) := match v with Sc (SS _ s) => Some s | _ => None end.
Definition as_list (v : val) : option (list sval) := match v with Ls _ l => Some l | _ => None end.
Definition has_complex (v : val) : bool := match v with Sc SComplex | VM _ SComplex => true | _ => false end.

(* ------------------------------------------------------------------ float oracle *)
Inductive oarg := OInt (z : Z) | OFlt (bits : Z) | ONo.
Inductive ores := RF (bits : Z) | RI (z : Z) | RB (b : bool) | RExc (e : exc) | RComplex | RMiss.
Definition OC_TOFLOAT := 20. Definition OC_TRUNC := 21. Definition OC_NEG := 22. Definition OC_ABS := 23.

Fixpoint repeat_list {A} (l : list A) (n : nat) : list A :=
  match n with O => [] | S k => l ++ repeat_list l k end.
Fixpoint lex_lt (a b : list Z) : bool :=       (* str < str: by code point *)
  match a, b with
  | _, [] => false | [], _ :: _ => true
  | x :: a', y :: b' => if x <? y then true else if y <? x then false else lex_lt a' b'
  end.
Fixpoint list_eqb (a b : list Z) : bool :=
  match a, b with [], [] => true | x :: a', y :: b' => (x =? y) && list_eqb a' b' | _, _ => false end.
Fixpoint pos_popcount (p : positive) : Z :=
  match p with xH => 1 | xO q => pos_popcount q | xI q => 1 + pos_popcount q end.
Definition popcount (z : Z) : Z := match z with Z0 => 0 | Zpos p => pos_popcount p | Zneg p => pos_popcount p end.

(* Python slice/index normalisation *)
Definition norm_index (len i : Z) : option Z :=            (* x[i] *)
  let j := if i <? 0 then i + len else i in if (0 <=? j) && (j <? len) then Some j else None.
Definition slice_from (len n : Z) : Z :=                   (* start of x[n:] *)
  if n <? 0 then Z.max 0 (n + len) else Z.min n len.
Definition zlen {A} (l : list A) : Z := Z.of_nat (length l).

(* `n >= 0` / not `n < 0`: sign of a number (float: sign bit clear, or -0.0; NaN never raises here) *)
Definition nonneg_s (s : sval) : bool :=
  match s with
  | SI _ z => 0 <=? z
  | SF _ b => (b <=? 9223372036854775808) || (18442240474082181120 <? b)
  | _ => true
  end.
Definition nonneg_v (v : val) : bool := match v with Sc s => nonneg_s s | _ => true end.

Section WithOracle.
Variable orc : Z -> oarg -> oarg -> ores.
Variable fx : fixes.

Definition of_ores (r : ores) : res val :=
  match r with
  | RF b => Ok (Sc (SF false b)) | RI z => Ok (pint z) | RB b => Ok (pbool b)
  | RExc e => Raise e | RComplex => Ok (Sc SComplex) | RMiss => Unmodelled
  end.

(* ---------------------------------------------------------------- built-in int: int.__op__(x, y), both ints *)
Definition int_arith (o : bop) (x y : Z) : res val :=
  match o with
  | Add => Ok (pint (x + y)) | Sub => Ok (pint (x - y)) | Mul => Ok (pint (x * y))
  | TrueDiv => of_ores (orc (opc TrueDiv) (OInt x) (OInt y))
  | FloorDiv => if y =? 0 then Raise ZeroDivisionError else Ok (pint (x / y))
  | Mod => if y =? 0 then Raise ZeroDivisionError else Ok (pint (x mod y))
  | Pow => if 0 <=? y then Ok (pint (x ^ y)) else of_ores (orc (opc Pow) (OInt x) (OInt y))
  | Eq => Ok (pbool (x =? y)) | Ne => Ok (pbool (negb (x =? y)))
  | Lt => Ok (pbool (x <? y)) | Le => Ok (pbool (x <=? y)) | Gt => Ok (pbool (y <? x)) | Ge => Ok (pbool (y <=? x))
  end.
(* int.__op__(self, other) / int.__rop__(self, other): NotImplemented unless other is an int; called on a
   non-int self (only possible through Int.__rpow__: int.__pow__(other, self)) the descriptor raises TypeError *)
Definition int_method (o : bop) (refl : bool) (self other : val) : res val :=
  match as_int self with
  | None => Raise TypeError
  | Some x => match as_int other with
              | Some y => if refl then int_arith o y x else int_arith o x y
              | None => Ok vnotimpl
              end
  end.
Definition oarg_of (v : val) : oarg :=
  match v with Sc (SI _ z) => OInt z | Sc (SF _ b) => OFlt b | _ => ONo end.
(* float.__op__: other may be a float or an int (converted inside the interpreter: the oracle sees the int) *)
Definition float_method (o : bop) (refl : bool) (self other : val) : res val :=
  match as_flt self with
  | None => Raise TypeError
  | Some _ => match oarg_of other with
              | ONo => Ok vnotimpl
              | y => if refl then of_ores (orc (opc o) y (oarg_of self)) else of_ores (orc (opc o) (oarg_of self) y)
              end
  end.
(* str: + is sq_concat (raises TypeError itself), * is sq_repeat, comparisons only with str; % (formatting) not modelled *)
Definition str_method (o : bop) (self other : val) : res val :=
  match as_str self with
  | None => Raise TypeError
  | Some s =>
    match o with
    | Add => match as_str other with Some t => Ok (Sc (SS false (s ++ t))) | None => Raise TypeError end
    | Mul => match as_int other with
             | Some n => Ok (Sc (SS false (repeat_list s (Z.to_nat n)))) | None => Raise TypeError end
    | Eq | Ne | Lt | Le | Gt | Ge =>
      match as_str other with
      | None => Ok vnotimpl
      | Some t => Ok (pbool (match o with
                             | Eq => list_eqb s t | Ne => negb (list_eqb s t) | Lt => lex_lt s t
                             | Le => negb (lex_lt t s) | Gt => lex_lt t s | _ => negb (lex_lt s t) end))
      end
    | _ => Unmodelled
    end
  end.
(* element equality used by list == list (PyObject_RichCompare(x, y, Py_EQ) on the items): only for int-like and
   str items; anything else is outside the modelled fragment *)
Definition elem_eq (x y : sval) : option bool :=
  match x, y with
  | SI _ a, SI _ b => Some (a =? b)
  | SS _ a, SS _ b => Some (list_eqb a b)
  | SI _ _, SS _ _ | SS _ _, SI _ _ => Some false
  | _, _ => None
  end.
Fixpoint list_eq (a b : list sval) : option bool :=
  match a, b with
  | [], [] => Some true
  | x :: a', y :: b' => match elem_eq x y with
                        | Some true => list_eq a' b' | Some false => Some false | None => None end
  | _, _ => Some false
  end.
Definition list_method (o : bop) (self other : val) : res val :=
  match as_list self with
  | None => Raise TypeError
  | Some l =>
    match o with
    | Add => match as_list other with Some m => Ok (Ls false (l ++ m)) | None => Raise TypeError end
    | Mul => match as_int other with
             | Some n => Ok (Ls false (repeat_list l (Z.to_nat n))) | None => Raise TypeError end
    | Eq | Ne =>
      match as_list other with
      | None => Ok vnotimpl
      | Some m => if negb (length l =? length m)%nat then Ok (pbool (match o with Eq => false | _ => true end))
                  else match list_eq l m with
                       | Some b => Ok (pbool (match o with Eq => b | _ => negb b end))
                       | None => Unmodelled end
      end
    | Lt | Le | Gt | Ge => match as_list other with None => Ok vnotimpl | Some _ => Unmodelled end
    | _ => Unmodelled
    end
  end.

(* ---------------------------------------------------------------- constructor calls  C(v) *)
Inductive cast := ToInt | ToNat | ToBool | ToFloat | ToStr | ToList | ToNatOrInt.
(* int(v): what int.__new__ computes from v *)
Definition to_z (v : val) : res Z :=
  match v with
  | Sc (SI _ z) => Ok z
  | Sc (SF _ b) => match orc OC_TRUNC (OFlt b) ONo with RI z => Ok z | RExc e => Raise e | _ => Unmodelled end
  | Sc (SS _ _) => Unmodelled                                   (* int("12"): parsing not modelled *)
  | VM (MNat | MInt | MBool) (SI _ z) => Ok z                   (* NatMut/IntMut.__int__ = self.value.__int__() *)
  | VM (MNat | MInt | MBool) (SF _ b) =>
      match orc OC_TRUNC (OFlt b) ONo with RI z => Ok z | RExc e => Raise e | _ => Unmodelled end
  | VM _ _ => Unmodelled
  | Sc SComplex | Sc SOther => Unmodelled
  | _ => Raise TypeError
  end.
Definition to_f (v : val) : res Z :=      (* float(v) *)
  match v with
  | Sc (SF _ b) => Ok b
  | Sc (SI _ z) => match orc OC_TOFLOAT (OInt z) ONo with RF b => Ok b | RExc e => Raise e | _ => Unmodelled end
  | VM (MNat | MInt | MBool | MFloat) (SF _ b) => Ok b
  | VM (MNat | MInt | MBool | MFloat) (SI _ z) =>
      match orc OC_TOFLOAT (OInt z) ONo with RF b => Ok b | RExc e => Raise e | _ => Unmodelled end
  | VM MStr _ => Raise TypeError
  | VM _ _ => Unmodelled
  | Sc (SS _ _) | Sc SComplex | Sc SOther => Unmodelled
  | _ => Raise TypeError
  end.
Definition cast_to (c : cast) (v : val) : res val :=
  match c with
  | ToInt => bind (to_z v) (fun z => Ok (Sc (SI KInt z)))
  (* class Nat(Int): def __init__(self, i): if int(i) < 0: raise ValueError *)
  | ToNat => bind (to_z v) (fun z => if z <? 0 then Raise ValueError else Ok (Sc (SI KNat z)))
  | ToBool => bind (to_z v) (fun z => if z <? 0 then Raise ValueError else Ok (Sc (SI KBool z)))
  (* def _nat_or_int(i): if i >= 0: return Nat(i) else: return Int(i) *)
  | ToNatOrInt => bind (to_z v) (fun z => if nonneg_v v then (if z <? 0 then Raise ValueError else Ok (Sc (SI KNat z)))
                                         else Ok (Sc (SI KInt z)))
  | ToFloat => bind (to_f v) (fun b => Ok (Sc (SF true b)))
  | ToStr => match v with Sc (SS _ s) | VM MStr (SS _ s) => Ok (Sc (SS true s)) | _ => Unmodelled end
  | ToList => match v with
              | Ls _ l => Ok (Ls true l)
              | Sc (SI _ _) | Sc (SF _ _) | Sc SNone | Sc SNotImpl => Raise TypeError
              | _ => Unmodelled end
  end.
(* _erg_control.then__: if x is None or x is NotImplemented: return x else: return f(x) *)
Definition then_ (r : res val) (c : cast) : res val :=
  bind r (fun v => if is_none v || is_notimpl v then Ok v else cast_to c v).

(* ---------------------------------------------------------------- methods of the built-in layer *)
Definition is_arith (o : bop) : bool := negb (is_cmp o).
Definition nat_cast : cast := if fx_nat_arith fx then ToNatOrInt else ToNat.
(* [impl1 owner d] = body of owner.d, if the class statement of [owner] defines d (built-ins: what the type provides) *)
Definition impl1 (owner : pycls) (d : dunder) : option (val -> val -> res val) :=
  match owner, d with
  | Pyint, DL o => Some (int_method o false)
  | Pyint, DR o => if is_arith o then Some (int_method o true) else None
  | Pyfloat, DL o => Some (float_method o false)
  | Pyfloat, DR o => if is_arith o then Some (float_method o true) else None
  | Pystr, DL ((Add | Mul | Mod | Eq | Ne | Lt | Le | Gt | Ge) as o) => Some (str_method o)
  | Pystr, DR ((Mul | Mod) as o) => Some (str_method o)
  | Pylist, DL ((Add | Mul | Eq | Ne | Lt | Le | Gt | Ge) as o) => Some (list_method o)
  | Pylist, DR Mul => Some (list_method Mul)
  (* _erg_int.py class Int *)
  | PyInt, DL ((Add | Sub | Mul | FloorDiv) as o) => Some (fun s x => then_ (int_method o false s x) ToInt)
  | PyInt, DL Pow => Some (fun s x => then_ (int_method Pow false s x) ToInt)
  | PyInt, DR Pow => Some (fun s x => then_ (int_method Pow false x s) ToInt)   (* then__(int.__pow__(other, self), Int) *)
  (* _erg_nat.py class Nat: then__(super().__add__(other), Nat) *)
  | PyNat, DL ((Add | Mul) as o) => Some (fun s x => then_ (then_ (int_method o false s x) ToInt) nat_cast)
  (* _erg_float.py class Float *)
  | PyFloat, DL ((Add | Sub | Mul | FloorDiv | TrueDiv | Pow) as o) => Some (fun s x => then_ (float_method o false s x) ToFloat)
  | PyFloat, DR Pow => Some (fun s x =>        (* then__(float.__pow__(float(other), self), Float) *)
      bind (to_f x) (fun b => then_ (float_method Pow false (Sc (SF false b)) s) ToFloat))
  (* _erg_str.py class Str; __mod__ calls str.__mod__(other, self): formatting is not modelled *)
  | PyStr, DL ((Add | Mul) as o) => Some (fun s x => then_ (str_method o s x) ToStr)
  | PyStr, DL Mod => Some (fun _ _ => Unmodelled)
  (* _erg_list.py class List *)
  | PyList, DL Mul => Some (fun s x => then_ (list_method Mul s x) ToList)
  | _, _ => None
  end.

Definition find_owner (impl : pycls -> dunder -> option (val -> val -> res val)) (c : pycls) (d : dunder) : option pycls :=
  find (fun k => match impl k d with Some _ => true | None => false end) (mro c).
Definition owner_eqb (a b : option pycls) : bool :=
  match a, b with Some x, Some y => pycls_eqb x y | None, None => true | _, _ => false end.

(* Python's binary operator / rich comparison protocol *)
Definition dispatch (impl : pycls -> dunder -> option (val -> val -> res val)) (cls_of : val -> pycls)
           (o : bop) (a b : val) : res val :=
  let ca := cls_of a in let cb := cls_of b in
  let ld := DL o in
  let rd := if is_cmp o then DL (swap_cmp o) else DR o in
  let call c d x y := match find_owner impl c d with
                      | Some ow => match impl ow d with Some f => f x y | None => Ok vnotimpl end
                      | None => Ok vnotimpl end in
  let fallback := match o with
                  | Eq => Ok (pbool (is_none a && is_none b))       (* identity; distinct operands are distinct objects *)
                  | Ne => Ok (pbool (negb (is_none a && is_none b)))
                  | _ => Raise TypeError end in
  let r_first := proper_subclass cb ca &&
                 (if is_cmp o then true else negb (owner_eqb (find_owner impl cb rd) (find_owner impl ca rd))) in
  if r_first then
    bind (call cb rd b a) (fun r => if negb (is_notimpl r) then Ok r else
    bind (call ca ld a b) (fun r2 => if negb (is_notimpl r2) then Ok r2 else fallback))
  else
    bind (call ca ld a b) (fun r => if negb (is_notimpl r) then Ok r else
    if negb (is_cmp o) && pycls_eqb ca cb then fallback else
    bind (call cb rd b a) (fun r2 => if negb (is_notimpl r2) then Ok r2 else fallback)).

(* operators among scalars and lists (a Mut operand is a foreign object here) *)
Definition bin1 (o : bop) (a b : val) : res val :=
  if has_complex a || has_complex b then Unmodelled else dispatch impl1 cls1 o a b.

(* unary operators, built-in layer *)
Definition un1 (o : uop) (a : val) : res val :=
  match a with
  | Sc (SI k z) =>
    match o with
    | Neg => match k with KNat | KInt | KBool => Ok (Sc (SI KInt (- z))) | _ => Ok (pint (- z)) end   (* Int.__neg__ *)
    | Pos => match k with KNat | KInt | KBool => Ok a | _ => Ok (pint z) end                        (* Int/Nat.__pos__: self *)
    | Abs => Ok (pint (Z.abs z))                                                                   (* int.__abs__ inherited *)
    end
  | Sc (SF w b) =>
    match o with
    | Pos => if w then Ok a else Ok (Sc (SF false b))
    | Neg => bind (of_ores (orc OC_NEG (OFlt b) ONo)) (fun r => if w then cast_to ToFloat r else Ok r)
    | Abs => bind (of_ores (orc OC_ABS (OFlt b) ONo)) (fun r => if w then cast_to ToFloat r else Ok r)
    end
  | Sc SComplex | Sc SOther => Unmodelled
  | _ => Raise TypeError
  end.

(* ---------------------------------------------------------------- Mut classes *)
(* `other.value if isinstance(other, MutType) else other` *)
Definition mut_other (v : val) : val := match v with VM _ p => Sc p | x => x end.
Definition scalar_of (v : val) : res sval := match v with Sc s => Ok s | _ => Unmodelled end.
(* constructors: IntMut(i): self.value = Int(i); NatMut(n): if int(n) < 0: raise; self.value = n;
   BoolMut(b): self.value = b; FloatMut(i): self.value = Float(i); StrMut(s): self.value = s *)
Definition mk_mut (m : mk) (v : val) : res val :=
  match m with
  | MInt => bind (cast_to ToInt v) (fun r => bind (scalar_of r) (fun s => Ok (VM MInt s)))
  | MNat => bind (to_z v) (fun z =>
      if (z <? 0) || (fx_natmut_incdec fx && negb (nonneg_v v)) then Raise ValueError
      else bind (scalar_of v) (fun s => Ok (VM MNat s)))
  | MBool => bind (scalar_of v) (fun s => Ok (VM MBool s))
  | MFloat => bind (cast_to ToFloat v) (fun r => bind (scalar_of r) (fun s => Ok (VM MFloat s)))
  | MStr => bind (scalar_of v) (fun s => Ok (VM MStr s))
  end.
Definition payload (v : val) : val := match v with VM _ p => Sc p | x => x end.

Definition mut_arith (m : mk) (o : bop) (self other : val) : res val :=
  bind (bin1 o (payload self) (mut_other other)) (mk_mut m).
Definition mut_cmp (o : bop) (self other : val) : res val := bin1 o (payload self) (mut_other other).
Definition impl2 (owner : pycls) (d : dunder) : option (val -> val -> res val) :=
  match owner, d with
  | (PyIntMut | PyNatMut | PyFloatMut), DL ((Eq | Ne | Lt | Le | Gt | Ge) as o) => Some (mut_cmp o)
  | (PyBoolMut | PyStrMut), DL ((Eq | Ne) as o) => Some (mut_cmp o)
  | PyIntMut, DL ((Add | Sub | Mul | FloorDiv | Pow) as o) => Some (mut_arith MInt o)
  | PyIntMut, DL TrueDiv => Some (mut_arith MInt TrueDiv)
  | PyNatMut, DL ((Add | Mul | Pow) as o) => Some (mut_arith MNat o)
  | PyNatMut, DL TrueDiv => Some (mut_arith MNat TrueDiv)
  (* def __radd__(self, other): return Nat(other.value + self.value) / Nat(other + self.value) *)
  | PyNatMut, DR ((Add | Mul) as o) => Some (fun self other =>
      bind (bin1 o (mut_other other) (payload self)) (cast_to nat_cast))
  | PyFloatMut, DL ((Add | Sub | Mul | FloorDiv | TrueDiv | Pow) as o) => Some (mut_arith MFloat o)
  | (PyIntMut | PyNatMut | PyFloatMut | PyBoolMut | PyStrMut | PyMutType), _ => None
  | _, _ => impl1 owner d
  end.

(* plain str/list on the left of + or * with a Mut object on the right: CPython consults the number slots of the
   right operand (NatMut.__radd__/__rmul__) before the sequence slots of the left one; not modelled *)
Definition seq_vs_mut (o : bop) (a b : val) : bool :=
  match o, a, b with
  | (Add | Mul), (Sc (SS false _) | Ls false _), VM _ _ => true
  | _, _, _ => false
  end.
Definition binop (o : bop) (a b : val) : res val :=
  if has_complex a || has_complex b || seq_vs_mut o a b then Unmodelled else dispatch impl2 cls2 o a b.

Definition unop (o : uop) (a : val) : res val :=
  match a with
  | VM m p =>
    match m, o with
    | (MInt | MNat | MBool | MFloat), Pos => Ok a                                    (* def __pos__(self): return self *)
    | (MInt | MNat | MBool), Neg => bind (un1 Neg (Sc p)) (mk_mut MInt)              (* IntMut(-self.value) *)
    | MFloat, Neg => bind (un1 Neg (Sc p)) (mk_mut MFloat)
    | _, _ => Raise TypeError
    end
  | _ => un1 o a
  end.

(* ---------------------------------------------------------------- named methods *)
Inductive meth := MSucc | MPred | MBitCount | MMutate | MSatSub | MInvert | MGet | MFrom | MPush | MReversed
                | MSum | MProd | MGetItem | MUpdate | MInc | MDec | MInc0 | MDec0 | MCopy.
Definition is_wrapper_int (s : sval) : bool := match s with SI (KNat | KInt | KBool) _ => true | _ => false end.
Definition truthy (v : val) : res bool :=
  match v with
  | Sc (SI _ z) => Ok (negb (z =? 0)) | Sc SNone => Ok false
  | Sc (SS _ s) => Ok (negb (Nat.eqb (length s) 0)) | Ls _ l => Ok (negb (Nat.eqb (length l) 0))
  | _ => Unmodelled
  end.
Definition nth_z {A} (l : list A) (i : Z) : option A := nth_error l (Z.to_nat i).
Definition one_f : Z := 4607182418800017408.    (* 1.0 *)

(* scalar methods of the immutable classes; result only (they have no state) *)
Definition smeth (m : meth) (s : sval) (args : list val) : res val :=
  match m, s, args with
  (* Int.succ: return Int(self + 1); Int.pred: return Int(self - 1) *)
  | MSucc, SI (KNat | KInt | KBool) _, [] => bind (bin1 Add (Sc s) (pint 1)) (cast_to ToInt)
  | MPred, SI (KNat | KInt | KBool) _, [] => bind (bin1 Sub (Sc s) (pint 1)) (cast_to ToInt)
  | MBitCount, SI (KNat | KInt | KBool) z, [] => Ok (pint (popcount z))
  | MBitCount, SI _ _, [] => Unmodelled            (* plain int: int.bit_count exists from Python 3.10 on only *)
  (* Nat.saturating_sub: if self > other: return self - other else: return 0 *)
  | MSatSub, SI (KNat | KBool) _, [o] =>
      bind (binop Gt (Sc s) o) (fun c => bind (truthy c) (fun t => if t then binop Sub (Sc s) o else Ok (pint 0)))
  (* Bool.invert: return Bool(not self) *)
  | MInvert, SI KBool z, [] => Ok (Sc (SI KBool (if z =? 0 then 1 else 0)))
  (* Str.get: if len(self) > i: return Str(self[i]) else: return None *)
  | MGet, SS true cs, [i] =>
      match as_int i with
      | None => Unmodelled
      | Some n => if n <? zlen cs then
                    match norm_index (zlen cs) n with
                    | Some j => match nth_z cs j with Some c => Ok (Sc (SS true [c])) | None => Raise IndexError end
                    | None => Raise IndexError end
                  else Ok vnone
      end
  (* Str.from_: return self[nth:]  (Str.__getitem__ on a slice: Str(str.__getitem__(..))) *)
  | MFrom, SS true cs, [i] =>
      match as_int i with
      | Some n => Ok (Sc (SS true (skipn (Z.to_nat (slice_from (zlen cs) n)) cs)))
      | None => Unmodelled end
  (* Str.__getitem__(int): str.__getitem__ -> plain str *)
  | MGetItem, SS w cs, [i] =>
      match as_int i with
      | Some n => match norm_index (zlen cs) n with
                  | Some j => match nth_z cs j with Some c => Ok (Sc (SS false [c])) | None => Raise IndexError end
                  | None => Raise IndexError end
      | None => Unmodelled end
  | (MSucc | MPred | MBitCount | MSatSub | MInvert | MGet | MFrom | MUpdate | MInc | MDec | MInc0 | MDec0 | MCopy),
    (SI _ _ | SF _ _ | SS _ _ | SNone), _ => Raise AttributeError
  | _, _, _ => Unmodelled
  end.

Definition fold_bin (o : bop) (l : list sval) (start : val) : res val :=
  fold_left (fun acc e => bind acc (fun a => bin1 o a (Sc e))) l (Ok start).

(* [method m recv args] = (result, receiver afterwards) *)
Definition method (m : meth) (recv : val) (args : list val) : res (val * val) :=
  let pure r := bind r (fun v => Ok (v, recv)) in
  match recv with
  | Sc s =>
    match m, s with
    (* _erg_mutate_operator: x.mutate() if hasattr(x, "mutate") else x *)
    | MMutate, SI KNat _ => pure (mk_mut MNat recv)
    | MMutate, SI KInt _ => pure (mk_mut MInt recv)
    | MMutate, SI KBool _ => pure (mk_mut MBool recv)
    | MMutate, SF true _ => pure (mk_mut MFloat recv)
    | MMutate, SS true _ => pure (mk_mut MStr recv)
    | MMutate, (SI _ _ | SF _ _ | SS _ _ | SNone) => pure (Ok recv)
    | _, _ => pure (smeth m s args)
    end
  | Ls w l =>
    match m, args with
    | MMutate, [] => pure (Ok recv)
    (* List.push: self.append(value); return self *)
    | MPush, [Sc e] => if w then
                         if fx_list_push fx then Ok (Ls true (l ++ [e]), recv)
                         else Ok (Ls true (l ++ [e]), Ls true (l ++ [e]))
                       else Raise AttributeError
    (* List.get: try: return self[index] except IndexError: return default(None) *)
    | MGet, [i] => if w then match as_int i with
                             | Some n => match norm_index (zlen l) n with
                                         | Some j => match nth_z l j with Some e => pure (Ok (Sc e)) | None => pure (Ok vnone) end
                                         | None => pure (Ok vnone) end
                             | None => Unmodelled end
                   else Raise AttributeError
    | MGetItem, [i] => match (match i with VM (MNat | MInt | MBool) _ => if w then to_z i else Raise TypeError
                                         | _ => match as_int i with Some n => Ok n | None => Unmodelled end end) with
                       | Ok n => match norm_index (zlen l) n with
                                 | Some j => match nth_z l j with Some e => pure (Ok (Sc e)) | None => Raise IndexError end
                                 | None => Raise IndexError end
                       | Raise e => Raise e | Unmodelled => Unmodelled end
    | MFrom, [i] => if w then match as_int i with
                              | Some n => pure (Ok (Ls true (skipn (Z.to_nat (slice_from (zlen l) n)) l)))
                              | None => Unmodelled end
                    else Raise AttributeError
    | MReversed, [] => if w then pure (Ok (Ls true (rev l))) else Raise AttributeError
    (* List.sum: sum(self, 0);  List.prod: reduce(lambda x, y: x * y, self, 1) *)
    | MSum, [] => if w then pure (fold_bin Add l (pint 0)) else Raise AttributeError
    | MProd, [] => if w then pure (fold_bin Mul l (pint 1)) else Raise AttributeError
    | (MSucc | MPred | MBitCount | MSatSub | MInvert | MInc | MDec | MInc0 | MDec0), _ => Raise AttributeError
    | _, _ => Unmodelled            (* list.copy is the built-in; List.update(f) is `self = List(f(self))`: no effect; not modelled *)
    end
  | VM k p =>
    let set c v := bind (cast_to c v) (fun r => bind (scalar_of r) (fun s => Ok (vnone, VM k s))) in
    match m, k, args with
    (* update(f): self.value = C(f(self.value)); the argument is the value f returns *)
    | MUpdate, MInt, [r] => set ToInt r
    | MUpdate, MNat, [r] => set ToNat r
    | MUpdate, MBool, [r] => set ToBool r
    | MUpdate, MFloat, [r] => set ToFloat r
    | MUpdate, MStr, [r] => set ToStr r
    (* IntMut.inc: self.value = Int(self.value + i); NatMut and BoolMut inherit it *)
    | MInc, (MInt | MNat | MBool), [i] =>
        bind (binop Add (Sc p) i) (set (if fx_natmut_incdec fx then match k with MNat | MBool => ToNat | _ => ToInt end else ToInt))
    | MDec, (MInt | MNat | MBool), [i] =>
        bind (binop Sub (Sc p) i) (set (if fx_natmut_incdec fx then match k with MNat | MBool => ToNat | _ => ToInt end else ToInt))
    | MInc0, (MInt | MNat | MBool), [] =>
        bind (bin1 Add (Sc p) (pint 1)) (set (if fx_natmut_incdec fx then match k with MNat | MBool => ToNat | _ => ToInt end else ToInt))
    | MDec0, (MInt | MNat | MBool), [] =>
        bind (bin1 Sub (Sc p) (pint 1)) (set (if fx_natmut_incdec fx then match k with MNat | MBool => ToNat | _ => ToInt end else ToInt))
    | MInc, MFloat, [i] => bind (binop Add (Sc p) i) (set ToFloat)
    | MDec, MFloat, [i] => bind (binop Sub (Sc p) i) (set ToFloat)
    | MInc0, MFloat, [] => bind (bin1 Add (Sc p) (Sc (SF false one_f))) (set ToFloat)
    | MDec0, MFloat, [] => bind (bin1 Sub (Sc p) (Sc (SF false one_f))) (set ToFloat)
    (* IntMut.succ/pred: return self.value.succ() *)
    | (MSucc | MPred), (MInt | MNat | MBool), [] => pure (smeth m p [])
    (* copy: return XMut(self.value) *)
    | MCopy, _, [] => pure (mk_mut k (Sc p))
    (* BoolMut.invert: self.value = self.value.invert() *)
    | MInvert, MBool, [] => bind (smeth MInvert p []) (fun r => bind (scalar_of r) (fun s => Ok (vnone, VM k s)))
    (* everything else goes through MutType.__getattr__ to the value *)
    | (MBitCount | MSatSub | MGet | MFrom | MSucc | MPred | MInvert), _, _ => pure (smeth m p args)
    | MMutate, _, [] => match p with
                        | SI KNat _ => pure (mk_mut MNat (Sc p)) | SI KInt _ => pure (mk_mut MInt (Sc p))
                        | SI KBool _ => pure (mk_mut MBool (Sc p)) | SF true _ => pure (mk_mut MFloat (Sc p))
                        | SS true _ => pure (mk_mut MStr (Sc p))
                        | (SI _ _ | SF _ _ | SS _ _) => pure (Ok recv)
                        | _ => Unmodelled end
    | (MInc | MDec | MInc0 | MDec0), MStr, _ => Raise AttributeError
    | _, _, _ => Unmodelled
    end
  end.

(* the constructor call codegen.rs (emit_expr / should_wrap) puts around every expression whose static type is one
   of Bool Nat Int Float Str List: the declared class applied to the raw result *)
Definition rewrap (c : cast) (v : val) : res val := cast_to c v.

End WithOracle.

(* the runtime as it is in the working tree (after the fix: commits) *)
Definition cur := {| fx_nat_arith := true; fx_natmut_incdec := true; fx_list_push := true |}.
