//! C15: drive the real marshal writer (ValueObj::into_bytes, CodeObj::into_bytes, into_bytecode) and the real
//! .pyc reader (Deserializer::deserialize_const, CodeObj::from_bytes, CodeObj::from_pyc).
//!
//! value  = (0 i) Int | (1 n) Nat | (2 bits) Float by IEEE bit pattern | (3 (cp ...)) Str | (4 b) Bool | (5) None
//!        | (6 (value ...)) Tuple | (7 (value ...)) List | (8 code) Code | (9) Ellipsis (not serialisable)
//! code   = (argcount posonly kwonly nlocals stacksize flags (code bytes) (consts) (names) (varnames) (freevars)
//!           (cellvars) filename name qualname firstlineno (lnotab) (exceptiontable))
//! cases:
//!   (0 minor value)        -> (0 (bytes))                      ValueObj::into_bytes
//!   (1 minor (bytes))      -> (0 value rest_len) | (1 errclass) Deserializer::deserialize_const
//!   (2 (bytes))            -> (0 minor code) | (1 errclass)     CodeObj::from_pyc on a file holding the bytes
//!   (3 minor (bytes))      -> (0 code rest_len) | (1 errclass)  CodeObj::from_bytes
//!   (4 magic code)         -> (0 (bytes))                      CodeObj::into_bytecode (timestamp bytes zeroed)
//! a panic is reported by sx::serve as (-999 msg)
#[allow(dead_code)]
#[path = "../../common/sx.rs"]
mod sx;
use erg_common::python_util::PythonVersion;
use erg_common::{ArcArray, Str};
use erg_compiler::ty::codeobj::CodeObj;
use erg_compiler::ty::deserialize::{DeserializeError, Deserializer};
use erg_compiler::ty::value::ValueObj;
use sx::Sx;

fn ver(minor: i128) -> PythonVersion {
    PythonVersion::new(3, Some(minor as u8), Some(0))
}

fn strs(x: &Sx) -> Vec<Str> {
    x.l().iter().map(|s| Str::from(s.string())).collect()
}

fn dec_code(x: &Sx) -> CodeObj {
    CodeObj {
        argcount: x.nth(0).z() as u32,
        posonlyargcount: x.nth(1).z() as u32,
        kwonlyargcount: x.nth(2).z() as u32,
        nlocals: x.nth(3).z() as u32,
        stacksize: x.nth(4).z() as u32,
        flags: x.nth(5).z() as u32,
        code: x.nth(6).bytes(),
        consts: x.nth(7).l().iter().map(dec_value).collect(),
        names: strs(x.nth(8)),
        varnames: strs(x.nth(9)),
        freevars: strs(x.nth(10)),
        cellvars: strs(x.nth(11)),
        filename: Str::from(x.nth(12).string()),
        name: Str::from(x.nth(13).string()),
        qualname: Str::from(x.nth(14).string()),
        firstlineno: x.nth(15).z() as u32,
        lnotab: x.nth(16).bytes(),
        exceptiontable: x.nth(17).bytes(),
    }
}

fn dec_value(x: &Sx) -> ValueObj {
    match x.nth(0).z() {
        0 => ValueObj::Int(x.nth(1).z() as i32),
        1 => ValueObj::Nat(x.nth(1).z() as u64),
        2 => ValueObj::from(f64::from_bits(x.nth(1).z() as u64)),
        3 => ValueObj::Str(Str::from(x.nth(1).string())),
        4 => ValueObj::Bool(x.nth(1).z() != 0),
        5 => ValueObj::None,
        6 => ValueObj::Tuple(ArcArray::from(
            x.nth(1).l().iter().map(dec_value).collect::<Vec<_>>(),
        )),
        7 => ValueObj::List(ArcArray::from(
            x.nth(1).l().iter().map(dec_value).collect::<Vec<_>>(),
        )),
        8 => ValueObj::Code(Box::new(dec_code(x.nth(1)))),
        _ => ValueObj::Ellipsis,
    }
}

fn enc_strs(v: &[Str]) -> Sx {
    Sx::L(v.iter().map(|s| Sx::from_str_cp(s)).collect())
}

fn enc_code(c: &CodeObj) -> Sx {
    Sx::L(vec![
        Sx::Z(c.argcount as i128),
        Sx::Z(c.posonlyargcount as i128),
        Sx::Z(c.kwonlyargcount as i128),
        Sx::Z(c.nlocals as i128),
        Sx::Z(c.stacksize as i128),
        Sx::Z(c.flags as i128),
        Sx::from_bytes(&c.code),
        Sx::L(c.consts.iter().map(enc_value).collect()),
        enc_strs(&c.names),
        enc_strs(&c.varnames),
        enc_strs(&c.freevars),
        enc_strs(&c.cellvars),
        Sx::from_str_cp(&c.filename),
        Sx::from_str_cp(&c.name),
        Sx::from_str_cp(&c.qualname),
        Sx::Z(c.firstlineno as i128),
        Sx::from_bytes(&c.lnotab),
        Sx::from_bytes(&c.exceptiontable),
    ])
}

fn enc_value(v: &ValueObj) -> Sx {
    match v {
        ValueObj::Int(i) => Sx::L(vec![Sx::Z(0), Sx::Z(*i as i128)]),
        ValueObj::Nat(n) => Sx::L(vec![Sx::Z(1), Sx::Z(*n as i128)]),
        ValueObj::Float(f) => Sx::L(vec![Sx::Z(2), Sx::Z(f.to_bits() as i128)]),
        ValueObj::Str(s) => Sx::L(vec![Sx::Z(3), Sx::from_str_cp(s)]),
        ValueObj::Bool(b) => Sx::L(vec![Sx::Z(4), Sx::b(*b)]),
        ValueObj::None => Sx::L(vec![Sx::Z(5)]),
        ValueObj::Tuple(t) => Sx::L(vec![Sx::Z(6), Sx::L(t.iter().map(enc_value).collect())]),
        ValueObj::List(t) => Sx::L(vec![Sx::Z(7), Sx::L(t.iter().map(enc_value).collect())]),
        ValueObj::Code(c) => Sx::L(vec![Sx::Z(8), enc_code(c)]),
        _ => Sx::L(vec![Sx::Z(9)]),
    }
}

/// error classes: 1 broken file | 2 object cannot be deserialised (unsupported prefix) | 3 type error (field)
/// | 4 invalid UTF-8 | 5 failed to load bytes | 6 io | 9 other
fn enc_err(e: &DeserializeError) -> Sx {
    let d = &e.desc;
    let c = &e.caused_by;
    let k = if c.contains("file_broken_error") {
        1
    } else if d.contains("cannot deserialize this object") {
        2
    } else if c.contains("type_error") {
        3
    } else if c.contains("Str::try_from") {
        4
    } else if d.contains("failed to load bytes") {
        5
    } else if c.contains("io::Error") {
        6
    } else {
        9
    };
    Sx::L(vec![Sx::Z(1), Sx::Z(k)])
}

fn run(case: &Sx) -> Sx {
    match case.nth(0).z() {
        0 => {
            let v = dec_value(case.nth(2));
            let b = v.into_bytes(ver(case.nth(1).z()));
            Sx::L(vec![Sx::Z(0), Sx::from_bytes(&b)])
        }
        1 => {
            let mut b = case.nth(2).bytes();
            let mut des = Deserializer::new();
            match des.deserialize_const(&mut b, ver(case.nth(1).z())) {
                Ok(v) => Sx::L(vec![Sx::Z(0), enc_value(&v), Sx::Z(b.len() as i128)]),
                Err(e) => enc_err(&e),
            }
        }
        2 => {
            let b = case.nth(1).bytes();
            let path = std::env::temp_dir().join(format!("ergv-marshal-{}.pyc", std::process::id()));
            std::fs::write(&path, &b).unwrap();
            let r = std::panic::catch_unwind(|| CodeObj::from_pyc(&path));
            let _ = std::fs::remove_file(&path);
            match r {
                Ok(Ok((c, v))) => Sx::L(vec![
                    Sx::Z(0),
                    Sx::Z(v.minor.map(|m| m as i128).unwrap_or(-1)),
                    enc_code(&c),
                ]),
                Ok(Err(e)) => enc_err(&e),
                Err(e) => std::panic::resume_unwind(e),
            }
        }
        3 => {
            let mut b = case.nth(2).bytes();
            match CodeObj::from_bytes(&mut b, ver(case.nth(1).z())) {
                Ok(c) => Sx::L(vec![Sx::Z(0), enc_code(&c), Sx::Z(b.len() as i128)]),
                Err(e) => enc_err(&e),
            }
        }
        _ => {
            let c = dec_code(case.nth(2));
            let mut b = c.into_bytecode(Some(case.nth(1).z() as u32));
            for x in b.iter_mut().take(12).skip(8) {
                *x = 0;
            }
            Sx::L(vec![Sx::Z(0), Sx::from_bytes(&b)])
        }
    }
}

fn main() {
    sx::serve(run);
}
