//! C09: drive the real lexer + parser + desugarer (erg_parser) on arbitrary text and report what the parser did.
//! cases:
//!   (0 text)            -> parse on the calling (main) thread
//!   (1 text stack_kib)  -> parse on a fresh thread with that stack size (KiB)
//! `ergv-parsedepth N` serves all cases on one thread with N KiB of stack (default: the main thread).
//! result:
//!   (2 nerrs)                                                      lexing failed (nerrs >= 1 lex errors)
//!   (st nerrs nwarns maxlevel maxframes maxdepth span toodeep nchunks toks)  st = 0: Ok(tree, no errors) | 1: Err(errors)
//!      maxlevel / maxframes / maxdepth / span: erg_parser::parse::verif::stats() (cfg erg_verif hook): deepest `level`
//!      counter, deepest nesting of parser frames, deepest `depth` (the counter checked against MAX_NEST) and bytes of
//!      stack between the shallowest and deepest frame
//!      toodeep: some error says "nesting is too deep";  nchunks: top-level chunks of the tree (-1: no tree)
//!      toks: the token stream the parser was given, as (code glued) pairs, code per `code()` below (-1: other kind),
//!      glued = 1 when the token starts where the previous token ended (same line, same column)
//!   (3 site msg)   the lexer panicked (site = file:line)        (4 site msg)   the parser / desugarer panicked
//! a stack overflow kills the process.
#[allow(dead_code)]
#[path = "../../common/sx.rs"]
mod sx;
use erg_common::traits::{DequeStream, Stream};
use erg_parser::desugar::Desugarer;
use erg_parser::lex::Lexer;
use erg_parser::token::TokenKind;
use erg_parser::Parser;
use sx::Sx;

fn code(k: TokenKind) -> i128 {
    use TokenKind::*;
    match k {
        LParen => 0,
        RParen => 1,
        LSqBr => 2,
        RSqBr => 3,
        LBrace => 4,
        RBrace => 5,
        PreBitNot | PrePlus | PreMinus => 6,
        Symbol => 7,
        NatLit => 8,
        Newline => 9,
        Indent => 10,
        Dedent => 11,
        FuncArrow | ProcArrow => 12,
        Comma => 13,
        EOF => 14,
        _ => -1,
    }
}

fn z(n: usize) -> Sx {
    Sx::Z(n as i128)
}

static SITE: std::sync::Mutex<String> = std::sync::Mutex::new(String::new());

/// run `f`; a panic becomes `(code site message)` with site = file:line of the panic
fn guarded<T>(code: i128, f: impl FnOnce() -> T + std::panic::UnwindSafe) -> Result<T, Sx> {
    std::panic::set_hook(Box::new(|info| {
        let loc = info.location().map(|l| format!("{}:{}", l.file(), l.line())).unwrap_or_default();
        *SITE.lock().unwrap() = loc;
    }));
    std::panic::catch_unwind(f).map_err(|e| {
        let msg = if let Some(s) = e.downcast_ref::<String>() {
            s.clone()
        } else if let Some(s) = e.downcast_ref::<&str>() {
            s.to_string()
        } else {
            "panic".to_string()
        };
        let site = SITE.lock().unwrap().clone();
        Sx::L(vec![Sx::Z(code), Sx::from_str_cp(&site), Sx::from_str_cp(&msg)])
    })
}

fn parse(text: String) -> Sx {
    let lexed = match guarded(3, move || Lexer::from_str(text).lex()) {
        Ok(r) => r,
        Err(sx) => return sx,
    };
    let ts = match lexed {
        Ok(ts) => ts,
        Err((_, es)) => return Sx::L(vec![Sx::Z(2), z(es.len())]),
    };
    match guarded(4, move || parse_tokens(ts)) {
        Ok(sx) => sx,
        Err(sx) => sx,
    }
}

fn parse_tokens(ts: erg_parser::token::TokenStream) -> Sx {
    let mut toks = vec![];
    let mut prev: Option<(u32, u32)> = None;
    for t in ts.iter() {
        let c = if t.kind == TokenKind::Symbol && (&t.content[..] == "do" || &t.content[..] == "do!" || &t.content[..] == "self") {
            -1
        } else {
            code(t.kind)
        };
        // Parser::adjacent: `obj.ln_end() == t.ln_begin() && obj.col_end() == t.col_begin()`
        let glued = prev == Some((t.lineno, t.col_begin));
        toks.push(Sx::L(vec![Sx::Z(c), Sx::b(glued)]));
        prev = Some((t.lineno, t.col_end));
    }
    erg_parser::parse::verif::reset();
    let res = Parser::new(ts).parse();
    let (lv, fr, dp, span) = erg_parser::parse::verif::stats();
    let mut desugarer = Desugarer::new();
    let (st, nerrs, nwarns, toodeep, nchunks) = match res {
        Ok(art) => {
            let module = desugarer.desugar(art.ast);
            (0, 0, art.warns.len(), false, module.len() as i128)
        }
        Err(iart) => {
            let toodeep = iart
                .errors
                .iter()
                .any(|e| format!("{e:?}").contains("nesting is too deep"));
            let n = match iart.ast {
                Some(m) => desugarer.desugar(m).len() as i128,
                None => -1,
            };
            (1, iart.errors.len(), iart.warns.len(), toodeep, n)
        }
    };
    Sx::L(vec![
        Sx::Z(st),
        z(nerrs),
        z(nwarns),
        z(lv),
        z(fr),
        z(dp),
        z(span),
        Sx::b(toodeep),
        Sx::Z(nchunks),
        Sx::L(toks),
    ])
}

fn on_thread(text: String, kib: usize) -> Sx {
    let h = std::thread::Builder::new()
        .stack_size(kib * 1024)
        .spawn(move || parse(text))
        .unwrap();
    match h.join() {
        Ok(r) => r,
        Err(e) => std::panic::resume_unwind(e),
    }
}

fn serve() {
    sx::serve(|x: &Sx| match x.nth(0).z() {
        0 => parse(x.nth(1).string()),
        _ => on_thread(x.nth(1).string(), x.nth(2).z() as usize),
    });
}

/// `ergv-parsedepth [stack_kib]`: with an argument, all cases run on one thread with that much stack
/// (the way `erg` runs everything on an `exec_new_thread` thread); without, on the main thread
fn main() {
    match std::env::args().nth(1).and_then(|a| a.parse::<usize>().ok()) {
        Some(kib) => std::thread::Builder::new()
            .stack_size(kib * 1024)
            .spawn(serve)
            .unwrap()
            .join()
            .unwrap(),
        None => serve(),
    }
}
