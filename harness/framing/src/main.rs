//! C25: drive the REPL message framing of src/dummy.rs (through the `erg::verif` hook, which calls the real
//! `MessageStream::send_msg` / `recv_msg`) and the whole REPL (`DummyVM::eval`, real Python server over TCP).
//!
//! cases:
//!   (0 inst has_data data wchunks)      -> bytes written by send_msg(Message::new(inst, data))
//!   (1 bytes rchunks)                   -> (msgs err)   msgs = ((inst data) ...), err = 0 none | 1 UnexpectedEof | 2 other
//!   (2 ((inst has_data data) ...) rchunks) -> (stream msgs err)  frames of all messages concatenated, then as mode 1
//!   (3 py_command (src ...))            -> ((ok text) ...) results of DummyVM::eval for each input in one session;
//!                                          ok = 1 result | 0 compile errors (text = number of errors)
#[allow(dead_code)]
#[path = "../../common/sx.rs"]
mod sx;
use sx::Sx;

use erg::verif::{frame, recv_all};
use erg::DummyVM;
use erg_common::config::ErgConfig;
use erg_common::io::Input;
use erg_common::python_util::{detect_magic_number, get_python_version};

fn chunks(x: &Sx) -> Vec<usize> {
    x.zs().iter().map(|z| *z as usize).collect()
}

fn data_of(has: &Sx, data: &Sx) -> Option<Vec<u8>> {
    if has.z() != 0 {
        Some(data.bytes())
    } else {
        None
    }
}

fn recv(bytes: &[u8], rchunks: &[usize]) -> (Sx, Sx) {
    let (msgs, err) = recv_all(bytes, rchunks);
    let msgs = Sx::L(
        msgs.iter()
            .map(|(i, d)| Sx::L(vec![Sx::Z(*i as i128), Sx::from_bytes(d)]))
            .collect(),
    );
    let err = match err.as_deref() {
        None => 0,
        Some("UnexpectedEof") => 1,
        Some(_) => 2,
    };
    (msgs, Sx::Z(err))
}

fn repl(py_command: &str, inputs: &[Sx]) -> Sx {
    let mut cfg = ErgConfig {
        input: Input::repl(),
        quiet_repl: true,
        // the default read timeout (10 s) fires on a loaded machine; a timeout is not what is under test
        py_server_timeout: 300,
        ..ErgConfig::default()
    };
    if !py_command.is_empty() {
        cfg.py_magic_num = Some(detect_magic_number(py_command));
        cfg.target_version = get_python_version(py_command);
        cfg.py_command = Some(Box::leak(py_command.to_string().into_boxed_str()));
    }
    let mut vm = DummyVM::new(cfg);
    let mut out = vec![];
    for src in inputs {
        match vm.eval(src.string()) {
            Ok(res) => out.push(Sx::L(vec![Sx::Z(1), Sx::from_str_cp(&res)])),
            Err(errs) => out.push(Sx::L(vec![Sx::Z(0), Sx::Z(errs.len() as i128)])),
        }
    }
    Sx::L(out)
}

fn main() {
    sx::serve(|x: &Sx| match x.nth(0).z() {
        0 => Sx::from_bytes(&frame(
            x.nth(1).z() as u8,
            data_of(x.nth(2), x.nth(3)),
            &chunks(x.nth(4)),
        )),
        1 => {
            let (msgs, err) = recv(&x.nth(1).bytes(), &chunks(x.nth(2)));
            Sx::L(vec![msgs, err])
        }
        2 => {
            let mut stream = vec![];
            for m in x.nth(1).l() {
                stream.extend(frame(m.nth(0).z() as u8, data_of(m.nth(1), m.nth(2)), &[]));
            }
            let (msgs, err) = recv(&stream, &chunks(x.nth(2)));
            Sx::L(vec![Sx::from_bytes(&stream), msgs, err])
        }
        3 => repl(&x.nth(1).string(), x.nth(2).l()),
        _ => Sx::L(vec![Sx::Z(-1)]),
    });
}
