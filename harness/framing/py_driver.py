# C25: drive the MessageStream class of src/scripts/repl_server.py over a fake socket that imposes a chunking.
# Runs under every installed interpreter (3.7+).  usage: py_driver.py <path to repl_server.py>
# stdin: one JSON case per line, stdout: one JSON result per line.
#   {"mode":"send","inst":i,"data":hex,"wchunks":[..]}        -> {"wire":hex,"err":code}
#   {"mode":"recv","bytes":hex,"rchunks":[..]}                -> {"msgs":[[inst,hex],..],"err":code}
#   {"mode":"round","msgs":[[inst,hex],..],"rchunks":[..]}    -> {"stream":hex,"msgs":[..],"err":code}
# err: 0 none | 1 connection closed (EOF) | 3 OverflowError | 5 UnicodeDecodeError | 9 other
import ast
import collections
import json
import sys


def load_class(path):
    src = open(path, encoding='utf-8').read()
    tree = ast.parse(src)
    keep = [n for n in tree.body if isinstance(n, (ast.ClassDef, ast.FunctionDef, ast.Import, ast.ImportFrom))]
    names = [n.name for n in keep if isinstance(n, ast.ClassDef)]
    if 'MessageStream' not in names:
        raise SystemExit('TIE-BROKEN: no class MessageStream in ' + path)
    mod = ast.Module(body=keep, type_ignores=[]) if sys.version_info >= (3, 8) else ast.Module(body=keep)
    env = {}
    exec(compile(mod, path, 'exec'), env)
    return env


class FakeSocket:
    """recv(n) returns min(n, available, max(1, next scheduled chunk)) bytes (everything asked for once the schedule
    is used up), b'' at end of input; recv(0) and recv at end of input do not consume a schedule entry.
    send(b) accepts min(len(b), max(1, next scheduled chunk)) bytes; sendall is CPython's loop around send."""

    def __init__(self, data=b'', rchunks=(), wchunks=()):
        self.data = bytes(data)
        self.pos = 0
        self.rchunks = collections.deque(rchunks)
        self.wchunks = collections.deque(wchunks)
        self.wire = bytearray()

    def remaining(self):
        return len(self.data) - self.pos

    def recv(self, n, flags=0):
        if n <= 0 or self.pos >= len(self.data):
            return b''
        k = min(n, len(self.data) - self.pos)
        if self.rchunks:
            k = min(k, max(1, self.rchunks.popleft()))
        out = self.data[self.pos:self.pos + k]
        self.pos += k
        return out

    def send(self, b, flags=0):
        b = bytes(b)
        if not b:
            return 0
        k = len(b)
        if self.wchunks:
            k = min(k, max(1, self.wchunks.popleft()))
        self.wire += b[:k]
        return k

    def sendall(self, b, flags=0):
        b = bytes(b)
        while b:
            k = self.send(b)
            b = b[k:]

    def close(self):
        pass


def errcode(e):
    if isinstance(e, (ConnectionResetError, ConnectionError, EOFError)):
        return 1
    if isinstance(e, OverflowError):
        return 3
    if isinstance(e, UnicodeDecodeError):
        return 5
    return 9


def recv_all(MS, data, rchunks):
    sock = FakeSocket(data, rchunks)
    st = MS(sock)
    msgs = []
    err = 0
    while sock.remaining() > 0:
        try:
            inst, text = st.recv_msg()
        except Exception as e:
            err = errcode(e)
            break
        msgs.append([inst, text.encode('utf-8').hex()])
    return msgs, err


def send(MS, inst, data, wchunks):
    sock = FakeSocket(b'', (), wchunks)
    st = MS(sock)
    err = 0
    try:
        st.send_msg(inst, data.decode('utf-8'))
    except Exception as e:
        err = errcode(e)
    return bytes(sock.wire), err


def main():
    env = load_class(sys.argv[1])
    MS = env['MessageStream']
    for line in sys.stdin:
        line = line.strip()
        if not line:
            continue
        c = json.loads(line)
        try:
            if c['mode'] == 'send':
                wire, err = send(MS, c['inst'], bytes.fromhex(c['data']), c['wchunks'])
                out = {'wire': wire.hex(), 'err': err}
            elif c['mode'] == 'recv':
                msgs, err = recv_all(MS, bytes.fromhex(c['bytes']), c['rchunks'])
                out = {'msgs': msgs, 'err': err}
            elif c['mode'] == 'round':
                stream = bytearray()
                err = 0
                for inst, hx in c['msgs']:
                    w, e = send(MS, inst, bytes.fromhex(hx), ())
                    stream += w
                    if e:
                        err = e
                        break
                if err:
                    out = {'stream': '', 'msgs': [], 'err': err}
                else:
                    msgs, err = recv_all(MS, bytes(stream), c['rchunks'])
                    out = {'stream': bytes(stream).hex(), 'msgs': msgs, 'err': err}
            else:
                out = {'err': 9}
        except Exception as e:  # driver trouble, not the code under test
            out = {'err': 9, 'exc': repr(e)}
        sys.stdout.write(json.dumps(out) + '\n')
    sys.stdout.flush()


main()
