//! C28: drive the real language server (els::Server behind molc's FakeClient) with didOpen/didChange
//! notifications and read back its copy of the documents (file cache through the cfg(erg_verif) hook, and VFS).
//!
//! case (0 text ((line char) ...))     -> per position: byte index of els::pos_to_byte_index, or -999 on panic
//! case (1 hid (notif ...))            -> per notification (rc (present cache_text cache_ver vfs_present vfs_text) ...) with
//!                                        one entry per document 0..ndocs-1 of the history;
//!                                        rc: 0 ok | 1 dispatch returned Err | -999 panic (history stops there)
//!     notif  = (0 doc ver text)            textDocument/didOpen
//!            | (1 doc ver (change ...))    textDocument/didChange
//!     change = (0 text)                    full text (no range)
//!            | (1 sl sc el ec text)        range (UTF-16 positions) + replacement
//! One server is started per process and reused for all histories (each history uses its own URIs). A panic in a
//! handler ends that history; the server is kept (its locks are released by unwinding, and the real message loop
//! also carries on with the same file cache) and replaced only after every 20th panic.
#[allow(dead_code)]
#[path = "../../common/sx.rs"]
mod sx;
use std::cell::RefCell;
use std::panic::{catch_unwind, AssertUnwindSafe};

use els::{NormalizedUrl, Server};
use erg_common::vfs::VFS;
use molc::FakeClient;
use serde_json::{json, Value};
use sx::Sx;

const WS: &str = "/tmp/ergv-textsync-ws";

thread_local! {
    static CLIENT: RefCell<Option<FakeClient<Server>>> = RefCell::new(None);
    static PANICS: RefCell<u32> = RefCell::new(0);
}

fn new_client() -> FakeClient<Server> {
    let mut client = Server::bind_fake_client();
    client.request_initialize().expect("initialize");
    client.notify_initialized().expect("initialized");
    client
}

fn path_of(hid: i128, doc: i128) -> String {
    format!("{WS}/h{hid}_d{doc}.er")
}

fn url_of(hid: i128, doc: i128) -> String {
    format!("file://{}", path_of(hid, doc))
}

fn pos(l: i128, c: i128) -> Value {
    json!({"line": l as u64, "character": c as u64})
}

fn notif_json(hid: i128, n: &Sx) -> Value {
    let doc = n.nth(1).z();
    let ver = n.nth(2).z() as i64;
    if n.nth(0).z() == 0 {
        json!({"jsonrpc": "2.0", "method": "textDocument/didOpen", "params": {
            "textDocument": {"uri": url_of(hid, doc), "languageId": "erg", "version": ver, "text": n.nth(3).string()}}})
    } else {
        let changes: Vec<Value> = n
            .nth(3)
            .l()
            .iter()
            .map(|c| {
                if c.nth(0).z() == 0 {
                    json!({"text": c.nth(1).string()})
                } else {
                    json!({"range": {"start": pos(c.nth(1).z(), c.nth(2).z()), "end": pos(c.nth(3).z(), c.nth(4).z())},
                           "text": c.nth(5).string()})
                }
            })
            .collect();
        json!({"jsonrpc": "2.0", "method": "textDocument/didChange", "params": {
            "textDocument": {"uri": url_of(hid, doc), "version": ver}, "contentChanges": changes}})
    }
}

fn observe(client: &FakeClient<Server>, hid: i128, ndocs: i128) -> Vec<Sx> {
    let mut out = vec![];
    for d in 0..ndocs {
        let uri = NormalizedUrl::parse(&url_of(hid, d)).expect("url");
        let (present, text, ver) = match client.server.verif_cached_document(&uri) {
            Some((t, v)) => (1, t, v as i128),
            None => (0, String::new(), 0),
        };
        // VFS.read falls back to the real file system: the paths used here do not exist on disk
        let (vp, vt) = match VFS.read(path_of(hid, d)) {
            Ok(t) => (1, t),
            Err(_) => (0, String::new()),
        };
        out.push(Sx::L(vec![Sx::Z(present), Sx::from_str_cp(&text), Sx::Z(ver), Sx::Z(vp), Sx::from_str_cp(&vt)]));
    }
    out
}

fn history(case: &Sx) -> Sx {
    let hid = case.nth(1).z();
    let notifs = case.nth(2).l();
    let ndocs = notifs.iter().map(|n| n.nth(1).z() + 1).max().unwrap_or(0);
    let mut out = vec![];
    CLIENT.with(|cell| {
        let mut slot = cell.borrow_mut();
        for n in notifs {
            if slot.is_none() {
                *slot = Some(new_client());
            }
            let client = slot.as_mut().unwrap();
            let msg = notif_json(hid, n);
            let r = catch_unwind(AssertUnwindSafe(|| client.server.dispatch(msg).is_ok()));
            match r {
                Ok(ok) => {
                    let mut v = vec![Sx::Z(if ok { 0 } else { 1 })];
                    v.extend(observe(client, hid, ndocs));
                    out.push(Sx::L(v));
                }
                Err(e) => {
                    let msg = if let Some(s) = e.downcast_ref::<String>() {
                        s.clone()
                    } else if let Some(s) = e.downcast_ref::<&str>() {
                        s.to_string()
                    } else {
                        "panic".to_string()
                    };
                    out.push(Sx::L(vec![Sx::Z(-999), Sx::from_str_cp(&msg)]));
                    let n = PANICS.with(|p| {
                        *p.borrow_mut() += 1;
                        *p.borrow()
                    });
                    if n % 20 == 0 {
                        *slot = None;
                    }
                    break;
                }
            }
        }
    });
    Sx::L(out)
}

fn positions(case: &Sx) -> Sx {
    let text = case.nth(1).string();
    Sx::L(
        case.nth(2)
            .l()
            .iter()
            .map(|p| {
                let (l, c) = (p.nth(0).z() as u32, p.nth(1).z() as u32);
                match catch_unwind(AssertUnwindSafe(|| els::verif_pos_to_byte_index(&text, l, c))) {
                    Ok(i) => Sx::Z(i as i128),
                    Err(_) => Sx::Z(-999),
                }
            })
            .collect(),
    )
}

fn run(case: &Sx) -> Sx {
    match case.nth(0).z() {
        0 => positions(case),
        _ => history(case),
    }
}

fn main() {
    std::fs::create_dir_all(WS).expect("workspace dir");
    std::env::set_current_dir(WS).expect("chdir");
    sx::serve(run);
}
