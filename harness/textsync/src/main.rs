//! C28: drive the real language server (els::Server behind molc's FakeClient) with didOpen/didChange
//! notifications and read back its copy of the documents (file cache through the cfg(erg_verif) hook, and VFS).
//!
//! case (0 text ((line char) ...))     -> per position: byte index of els::pos_to_byte_index, or -999 on panic
//! case (1 hid (notif ...))            -> per notification (rc (doc present cache_text cache_ver vfs_text) ...) for every
//!                                        document of the history; rc: 0 ok | 1 dispatch returned Err | -999 panic
//!     notif  = (0 doc ver text)            textDocument/didOpen
//!            | (1 doc ver (change ...))    textDocument/didChange
//!     change = (0 text)                    full text (no range)
//!            | (1 sl sc el ec text)        range (UTF-16 positions) + replacement
//! One server is started per process and reused for all histories (each history uses its own URIs); it is
//! replaced after a panic.
#[allow(dead_code)]
#[path = "../../common/sx.rs"]
mod sx;
use std::cell::RefCell;
use std::panic::{catch_unwind, AssertUnwindSafe};
use std::path::PathBuf;

use els::{NormalizedUrl, Server};
use erg_common::vfs::VFS;
use serde_json::{json, Value};
use sx::Sx;

type Client = molc_client::Client;
mod molc_client {
    // FakeClient<Server> is the return type of Server::bind_fake_client(); named through a helper so that the
    // harness does not need its own dependency on molc
    pub type Client = <fn() -> Ret as Helper>::Out;
    pub struct Ret;
    pub trait Helper {
        type Out;
    }
    impl<T> Helper for fn() -> T {
        type Out = T;
    }
}
