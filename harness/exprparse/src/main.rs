//! C11: drive the real lexer and parser (erg_parser) on operator expressions.
//! cases:
//!   (0)                 -> for every operator token kind the model knows: (name prec|-1 category right_assoc)
//!   (1 text)            -> Lexer::from_str(text).lex(): (0 (tok ...)) | (1) lex error;  tok = (kind-name content col_begin col_end)
//!   (2 entry text)      -> Parser::new(tokens).parse() of `text` (entry 0: text is `x = <expr>`, the tree of <expr> is
//!                          returned; entry 1: text is a bare expression chunk): (0 tree) | (1 n) lex/parse error(s)
//!                          | (2) the module has another shape
//! tree = (0 name) | (1 kind text) | (2 op l r) | (3 op e) | (4 obj name) | (5 obj name|-1 (args)) | (99 what)
//! names / texts are lists of code points; operator codes are the model's (coq/ExprParse/Spec.v binop_code, preop_code).
#[allow(dead_code)]
#[path = "../../common/sx.rs"]
mod sx;
use erg_common::traits::{DequeStream, Stream};
use erg_parser::ast::{Accessor, Args, Expr, VisModifierSpec};
use erg_parser::lex::Lexer;
use erg_parser::token::{Token, TokenKind};
use erg_parser::Parser;
use sx::Sx;

const BINOPS: [(TokenKind, &str); 29] = [
    (TokenKind::Pow, "Pow"),
    (TokenKind::Star, "Star"),
    (TokenKind::Slash, "Slash"),
    (TokenKind::FloorDiv, "FloorDiv"),
    (TokenKind::Mod, "Mod"),
    (TokenKind::Plus, "Plus"),
    (TokenKind::Minus, "Minus"),
    (TokenKind::Shl, "Shl"),
    (TokenKind::Shr, "Shr"),
    (TokenKind::BitAnd, "BitAnd"),
    (TokenKind::BitXor, "BitXor"),
    (TokenKind::BitOr, "BitOr"),
    (TokenKind::Closed, "Closed"),
    (TokenKind::RightOpen, "RightOpen"),
    (TokenKind::LeftOpen, "LeftOpen"),
    (TokenKind::Open, "Open"),
    (TokenKind::Less, "Less"),
    (TokenKind::Gre, "Gre"),
    (TokenKind::LessEq, "LessEq"),
    (TokenKind::GreEq, "GreEq"),
    (TokenKind::DblEq, "DblEq"),
    (TokenKind::NotEq, "NotEq"),
    (TokenKind::InOp, "InOp"),
    (TokenKind::NotInOp, "NotInOp"),
    (TokenKind::ContainsOp, "ContainsOp"),
    (TokenKind::IsOp, "IsOp"),
    (TokenKind::IsNotOp, "IsNotOp"),
    (TokenKind::AndOp, "AndOp"),
    (TokenKind::OrOp, "OrOp"),
];
const PREOPS: [(TokenKind, &str); 3] = [
    (TokenKind::PrePlus, "PrePlus"),
    (TokenKind::PreMinus, "PreMinus"),
    (TokenKind::PreBitNot, "PreBitNot"),
];
const OTHERS: [(TokenKind, &str); 9] = [
    (TokenKind::Dot, "Dot"),
    (TokenKind::LParen, "LParen"),
    (TokenKind::RParen, "RParen"),
    (TokenKind::Comma, "Comma"),
    (TokenKind::Symbol, "Symbol"),
    (TokenKind::NatLit, "NatLit"),
    (TokenKind::IntLit, "IntLit"),
    (TokenKind::RatioLit, "RatioLit"),
    (TokenKind::Assign, "Assign"),
];

fn s(x: &str) -> Sx {
    Sx::from_str_cp(x)
}

fn table() -> Sx {
    let mut out = vec![];
    for (k, name) in BINOPS.iter().chain(PREOPS.iter()).chain(OTHERS.iter()) {
        let prec = match k.precedence() {
            Some(p) => p as i128,
            None => -1,
        };
        out.push(Sx::L(vec![
            s(name),
            Sx::Z(prec),
            s(&format!("{:?}", k.category())),
            Sx::b(k.is_right_associative()),
        ]));
    }
    Sx::L(out)
}

fn lex(text: &str) -> Sx {
    match Lexer::from_str(text.to_string()).lex() {
        Ok(ts) => {
            let mut out = vec![];
            for t in ts.iter() {
                if t.kind == TokenKind::EOF {
                    continue;
                }
                out.push(Sx::L(vec![
                    s(&format!("{:?}", t.kind)),
                    s(&t.content),
                    Sx::Z(t.col_begin as i128),
                    Sx::Z(t.col_end as i128),
                ]));
            }
            Sx::L(vec![Sx::Z(0), Sx::L(out)])
        }
        Err(_) => Sx::L(vec![Sx::Z(1)]),
    }
}

fn other(what: &str) -> Sx {
    Sx::L(vec![Sx::Z(99), s(what)])
}

fn binop_code(t: &Token) -> Option<i128> {
    BINOPS.iter().position(|(k, _)| *k == t.kind).map(|i| i as i128)
}
fn preop_code(t: &Token) -> Option<i128> {
    PREOPS.iter().position(|(k, _)| *k == t.kind).map(|i| i as i128)
}

fn args(a: &Args) -> Option<Sx> {
    if a.var_args.is_some() || !a.kw_args.is_empty() || a.kw_var_args.is_some() {
        return None;
    }
    Some(Sx::L(a.pos_args.iter().map(|p| tree(&p.expr)).collect()))
}

fn tree(e: &Expr) -> Sx {
    match e {
        Expr::Literal(l) => {
            let k = match l.token.kind {
                TokenKind::NatLit => 0,
                TokenKind::IntLit => 1,
                TokenKind::RatioLit => 2,
                _ => 9,
            };
            Sx::L(vec![Sx::Z(1), Sx::Z(k), s(&l.token.content)])
        }
        Expr::Accessor(Accessor::Ident(id)) => match id.vis {
            VisModifierSpec::Private => Sx::L(vec![Sx::Z(0), s(id.inspect())]),
            _ => other("ident with visibility"),
        },
        Expr::Accessor(Accessor::Attr(a)) => match a.ident.vis {
            VisModifierSpec::Public(_) => Sx::L(vec![Sx::Z(4), tree(&a.obj), s(a.ident.inspect())]),
            _ => other("non-public attribute"),
        },
        Expr::Accessor(_) => other("accessor"),
        Expr::BinOp(b) => match binop_code(&b.op) {
            Some(c) => Sx::L(vec![Sx::Z(2), Sx::Z(c), tree(&b.args[0]), tree(&b.args[1])]),
            None => other("binop"),
        },
        Expr::UnaryOp(u) => match preop_code(&u.op) {
            Some(c) => Sx::L(vec![Sx::Z(3), Sx::Z(c), tree(&u.args[0])]),
            None => other("unaryop"),
        },
        Expr::Call(c) => {
            let name = match &c.attr_name {
                Some(id) => s(id.inspect()),
                None => Sx::Z(-1),
            };
            match args(&c.args) {
                Some(a) => Sx::L(vec![Sx::Z(5), tree(&c.obj), name, a]),
                None => other("call with non-positional arguments"),
            }
        }
        Expr::Tuple(_) => other("tuple"),
        _ => other("expr"),
    }
}

fn parse(entry: i128, text: &str) -> Sx {
    let ts = match Lexer::from_str(text.to_string()).lex() {
        Ok(ts) => ts,
        Err((_, es)) => return Sx::L(vec![Sx::Z(1), Sx::Z(es.len() as i128)]),
    };
    let module = match Parser::new(ts).parse() {
        Ok(art) => art.ast,
        Err(iart) => return Sx::L(vec![Sx::Z(1), Sx::Z(iart.errors.len() as i128)]),
    };
    let chunks: Vec<&Expr> = module.block().iter().collect();
    if chunks.len() != 1 {
        return Sx::L(vec![Sx::Z(2)]);
    }
    if entry == 0 {
        match chunks[0] {
            Expr::Def(def) if def.body.block.len() == 1 => {
                Sx::L(vec![Sx::Z(0), tree(def.body.block.first().unwrap())])
            }
            _ => Sx::L(vec![Sx::Z(2)]),
        }
    } else {
        Sx::L(vec![Sx::Z(0), tree(chunks[0])])
    }
}

fn main() {
    sx::serve(|x: &Sx| match x.nth(0).z() {
        0 => table(),
        1 => lex(&x.nth(1).string()),
        _ => parse(x.nth(1).z(), &x.nth(2).string()),
    });
}
