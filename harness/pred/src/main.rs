//! C32 / C03: drive erg_compiler::ty::Predicate constructors and Context::subtype_of on refinement types.
//!
//! constructor-call tree  T ::= (0 b) Value | (1 c) eq | (2 c) ne | (3 c) ge | (4 c) le | (5 c) gt | (6 c) lt
//!                            | (7 T T) Predicate::and | (8 T T) Predicate::or | (9 T) invert | (10 n) opaque atom
//!                            | (11 P) raw enum value | (12 k t t) general_{eq,ne,ge,le}(term, term)
//!                            | (13 op a b) predicate of constructors::interval(op, Int, a, b); op = 0 a..b 1 a<..b 2 a..<b 3 a<..<b
//! raw predicate          P ::= (0 b) | (1 c) Equal | (2 c) NotEqual | (3 c) GreaterEqual | (4 c) LessEqual
//!                            | (5 P ...) Or | (6 P P) And | (7 P) Not | (8 n) Const("c<n>")
//!                            | (9 k t t) General{Equal,NotEqual,GreaterEqual,LessEqual} | (99 text) anything else
//! term                   t ::= (0) Const(subject) | (1 z) Value(z) | (2 n) Const("c<n>")
//! constants              c ::= z | (1 z) succ(z) | (-1 z) pred(z); z >= 0 is ValueObj::Nat, z < 0 is ValueObj::Int
//!                              (what literal evaluation produces)
//!
//! cases:
//!   (0 T)            -> (P (law P Q c R) ...)       the predicate the constructors built, and every constructor
//!                                                   application on the way: law = 0 and 1 or 2 invert 3 gt 4 lt
//!   (1 T T bl br)    -> (verdict P Q)               subtype_of({I: bl | P}, {I: br | Q}); b = 0 Int, 1 Nat
//!   (2 src)          -> (nerr (base P) ... )        lower the module `src`, report the signature of `g`
#[allow(dead_code)]
#[path = "../../common/sx.rs"]
mod sx;
use std::cell::RefCell;

use erg_common::config::ErgConfig;
use erg_common::io::Output;
use erg_common::set::Set;
use erg_common::traits::Runnable;
use erg_common::Str;
use erg_compiler::context::ModuleContext;
use erg_compiler::lower::ASTLowerer;
use erg_compiler::ty::constructors::{interval, refinement};
use erg_compiler::ty::typaram::IntervalOp;
use erg_compiler::ty::value::ValueObj;
use erg_compiler::ty::{ParamTy, Predicate, TyParam, Type};
use sx::Sx;

const SUBJ: &str = "I";

fn val(c: i128) -> ValueObj {
    if c >= 0 {
        ValueObj::Nat(c as u64)
    } else {
        ValueObj::Int(c as i32)
    }
}

fn cst(x: &Sx) -> TyParam {
    match x {
        Sx::L(l) => {
            let v = TyParam::value(val(l[1].z()));
            if l[0].z() == 1 {
                v.succ()
            } else {
                v.pred()
            }
        }
        _ => TyParam::value(val(x.z())),
    }
}

fn term(x: &Sx) -> Predicate {
    match x.nth(0).z() {
        0 => Predicate::Const(s()),
        1 => Predicate::Value(val(x.nth(1).z())),
        _ => atom(x.nth(1).z()),
    }
}

fn atom(n: i128) -> Predicate {
    Predicate::Const(Str::from(format!("c{n}")))
}

fn s() -> Str {
    Str::ever(SUBJ)
}

fn dec_raw(x: &Sx) -> Predicate {
    let k = x.nth(0).z();
    match k {
        0 => Predicate::Value(ValueObj::Bool(x.nth(1).z() != 0)),
        1 => Predicate::Equal { lhs: s(), rhs: cst(x.nth(1)) },
        2 => Predicate::NotEqual { lhs: s(), rhs: cst(x.nth(1)) },
        3 => Predicate::GreaterEqual { lhs: s(), rhs: cst(x.nth(1)) },
        4 => Predicate::LessEqual { lhs: s(), rhs: cst(x.nth(1)) },
        5 => {
            let mut set = Set::new();
            for p in &x.l()[1..] {
                set.insert(dec_raw(p));
            }
            Predicate::Or(set)
        }
        6 => Predicate::And(Box::new(dec_raw(x.nth(1))), Box::new(dec_raw(x.nth(2)))),
        7 => Predicate::Not(Box::new(dec_raw(x.nth(1)))),
        8 => atom(x.nth(1).z()),
        9 => general(x.nth(1).z(), term(x.nth(2)), term(x.nth(3))),
        _ => Predicate::Failure,
    }
}

fn general(k: i128, a: Predicate, b: Predicate) -> Predicate {
    match k {
        0 => Predicate::general_eq(a, b),
        1 => Predicate::general_ne(a, b),
        2 => Predicate::general_ge(a, b),
        _ => Predicate::general_le(a, b),
    }
}

fn dummy() -> Sx {
    Sx::L(vec![Sx::Z(0), Sx::Z(0)])
}

/// evaluate a constructor-call tree; every constructor application is logged as (law P Q c R)
fn build(x: &Sx, log: &mut Vec<Sx>) -> Predicate {
    let k = x.nth(0).z();
    match k {
        0 => Predicate::Value(ValueObj::Bool(x.nth(1).z() != 0)),
        1 => Predicate::eq(s(), cst(x.nth(1))),
        2 => Predicate::ne(s(), cst(x.nth(1))),
        3 => Predicate::ge(s(), cst(x.nth(1))),
        4 => Predicate::le(s(), cst(x.nth(1))),
        5 | 6 => {
            let r = if k == 5 { Predicate::gt(s(), cst(x.nth(1))) } else { Predicate::lt(s(), cst(x.nth(1))) };
            log.push(Sx::L(vec![Sx::Z(k - 2), dummy(), dummy(), x.nth(1).clone(), enc(&r)]));
            r
        }
        7 | 8 => {
            let p = build(x.nth(1), log);
            let q = build(x.nth(2), log);
            let (ep, eq) = (enc(&p), enc(&q));
            let r = if k == 7 { Predicate::and(p, q) } else { Predicate::or(p, q) };
            log.push(Sx::L(vec![Sx::Z(k - 7), ep, eq, Sx::Z(0), enc(&r)]));
            r
        }
        9 => {
            let p = build(x.nth(1), log);
            let ep = enc(&p);
            let r = p.invert();
            log.push(Sx::L(vec![Sx::Z(2), ep, dummy(), Sx::Z(0), enc(&r)]));
            r
        }
        10 => atom(x.nth(1).z()),
        11 => dec_raw(x.nth(1)),
        12 => general(x.nth(1).z(), term(x.nth(2)), term(x.nth(3))),
        13 => {
            let op = match x.nth(1).z() {
                0 => IntervalOp::Closed,
                1 => IntervalOp::LeftOpen,
                2 => IntervalOp::RightOpen,
                _ => IntervalOp::Open,
            };
            let t = interval(op, Type::Int, TyParam::value(val(x.nth(2).z())), TyParam::value(val(x.nth(3).z())));
            match t {
                Type::Refinement(r) => (*r.pred).clone().change_subject_name(s()),
                _ => Predicate::Failure,
            }
        }
        _ => Predicate::Failure,
    }
}

fn other(p: &dyn std::fmt::Display) -> Sx {
    Sx::L(vec![Sx::Z(99), Sx::from_str_cp(&p.to_string())])
}

fn enc_tp(tp: &TyParam) -> Option<Sx> {
    match tp {
        TyParam::Value(ValueObj::Int(i)) => Some(Sx::Z(*i as i128)),
        TyParam::Value(ValueObj::Nat(n)) => Some(Sx::Z(*n as i128)),
        TyParam::App { name, args } if args.len() == 1 && (&name[..] == "succ" || &name[..] == "pred") => {
            match enc_tp(&args[0]) {
                Some(Sx::Z(z)) => Some(Sx::L(vec![Sx::Z(if &name[..] == "succ" { 1 } else { -1 }), Sx::Z(z)])),
                _ => None,
            }
        }
        _ => None,
    }
}

fn enc_cst(k: i128, lhs: &Str, tp: &TyParam, whole: &Predicate) -> Sx {
    if &lhs[..] != SUBJ {
        return other(whole);
    }
    match enc_tp(tp) {
        Some(c) => Sx::L(vec![Sx::Z(k), c]),
        None => other(whole),
    }
}

fn atom_id(p: &Predicate) -> Option<i128> {
    if let Predicate::Const(name) = p {
        name.strip_prefix('c').and_then(|t| t.parse::<i128>().ok())
    } else {
        None
    }
}

fn enc_term(p: &Predicate) -> Option<Sx> {
    match p {
        Predicate::Const(name) if &name[..] == SUBJ => Some(Sx::L(vec![Sx::Z(0)])),
        Predicate::Value(ValueObj::Int(i)) => Some(Sx::L(vec![Sx::Z(1), Sx::Z(*i as i128)])),
        Predicate::Value(ValueObj::Nat(n)) => Some(Sx::L(vec![Sx::Z(1), Sx::Z(*n as i128)])),
        _ => atom_id(p).map(|n| Sx::L(vec![Sx::Z(2), Sx::Z(n)])),
    }
}

fn enc_general(k: i128, l: &Predicate, r: &Predicate, whole: &Predicate) -> Sx {
    match (enc_term(l), enc_term(r)) {
        (Some(a), Some(b)) => Sx::L(vec![Sx::Z(9), Sx::Z(k), a, b]),
        _ => other(whole),
    }
}

/// walk the public enum; Or members in the set's iteration order (the python side sorts)
fn enc(p: &Predicate) -> Sx {
    match p {
        Predicate::Value(ValueObj::Bool(b)) => Sx::L(vec![Sx::Z(0), Sx::b(*b)]),
        Predicate::Equal { lhs, rhs } => enc_cst(1, lhs, rhs, p),
        Predicate::NotEqual { lhs, rhs } => enc_cst(2, lhs, rhs, p),
        Predicate::GreaterEqual { lhs, rhs } => enc_cst(3, lhs, rhs, p),
        Predicate::LessEqual { lhs, rhs } => enc_cst(4, lhs, rhs, p),
        Predicate::Or(set) => {
            let mut v = vec![Sx::Z(5)];
            for q in set.iter() {
                v.push(enc(q));
            }
            Sx::L(v)
        }
        Predicate::And(l, r) => Sx::L(vec![Sx::Z(6), enc(l), enc(r)]),
        Predicate::Not(q) => Sx::L(vec![Sx::Z(7), enc(q)]),
        Predicate::Const(_) => match atom_id(p) {
            Some(n) => Sx::L(vec![Sx::Z(8), Sx::Z(n)]),
            None => other(p),
        },
        Predicate::GeneralEqual { lhs, rhs } => enc_general(0, lhs, rhs, p),
        Predicate::GeneralNotEqual { lhs, rhs } => enc_general(1, lhs, rhs, p),
        Predicate::GeneralGreaterEqual { lhs, rhs } => enc_general(2, lhs, rhs, p),
        Predicate::GeneralLessEqual { lhs, rhs } => enc_general(3, lhs, rhs, p),
        _ => other(p),
    }
}

fn base(k: i128) -> Type {
    if k == 1 {
        Type::Nat
    } else {
        Type::Int
    }
}

fn enc_base(t: &Type) -> Sx {
    match t {
        Type::Int => Sx::Z(0),
        Type::Nat => Sx::Z(1),
        _ => other(t),
    }
}

fn enc_ty(t: &Type) -> Sx {
    match t {
        Type::Refinement(r) => {
            // rename-insensitive: the subject must be the refinement variable
            let p = (*r.pred).clone().change_subject_name(s());
            Sx::L(vec![enc_base(&r.t), if r.pred.subject().map_or(true, |v| v == &r.var[..]) { enc(&p) } else { other(&r.pred) }])
        }
        Type::Int => Sx::L(vec![Sx::Z(0), Sx::L(vec![Sx::Z(0), Sx::Z(1)])]),
        Type::Nat => Sx::L(vec![Sx::Z(1), Sx::L(vec![Sx::Z(0), Sx::Z(1)])]),
        _ => other(t),
    }
}

thread_local! {
    static CTX: RefCell<Option<ModuleContext>> = RefCell::new(None);
}

fn lower(src: String) -> (usize, Option<ModuleContext>) {
    let mut cfg = ErgConfig::string(src);
    cfg.output = Output::Null;
    let mut lowerer = ASTLowerer::new(cfg);
    let nerr = match lowerer.exec() {
        Ok(_) => 0,
        Err(errs) => errs.len().max(1),
    };
    (nerr, lowerer.pop_mod_ctx())
}

fn with_ctx<R>(f: impl FnOnce(&ModuleContext) -> R) -> R {
    CTX.with(|c| {
        if c.borrow().is_none() {
            let (_, m) = lower("x = 1\n".to_string());
            *c.borrow_mut() = Some(m.expect("no module context"));
        }
        f(c.borrow().as_ref().unwrap())
    })
}

fn run(case: &Sx) -> Sx {
    match case.nth(0).z() {
        0 => {
            let mut log = vec![];
            let r = build(case.nth(1), &mut log);
            let mut out = vec![enc(&r)];
            out.extend(log);
            Sx::L(out)
        }
        1 | 3 => {
            let mut log = vec![];
            let p = build(case.nth(1), &mut log);
            let q = build(case.nth(2), &mut log);
            let (bl, br) = if case.l().len() > 4 { (case.nth(3).z(), case.nth(4).z()) } else { (0, 0) };
            let sub = refinement(s(), base(bl), p.clone());
            let sup = refinement(s(), base(br), q.clone());
            let v = with_ctx(|m| m.context.subtype_of(&sub, &sup));
            if case.nth(0).z() == 3 {
                Sx::L(vec![Sx::b(v)])
            } else {
                Sx::L(vec![Sx::b(v), enc(&p), enc(&q)])
            }
        }
        2 => {
            let src = case.nth(1).string();
            let (nerr, m) = lower(src);
            let mut out = vec![Sx::Z(nerr as i128)];
            if let Some(m) = m {
                if let Some((_, vi)) = m.context.get_var_info("g") {
                    if let Type::Subr(subr) = &vi.t {
                        for pt in subr.non_default_params.iter() {
                            match pt {
                                ParamTy::Pos(t) | ParamTy::Kw { ty: t, .. } => out.push(enc_ty(t)),
                                _ => {}
                            }
                        }
                        out.push(enc_ty(&subr.return_t));
                    } else {
                        out.push(other(&vi.t));
                    }
                }
            }
            Sx::L(out)
        }
        _ => Sx::L(vec![Sx::Z(-1)]),
    }
}

fn main() {
    // the compiler recurses deeply in debug builds: run on a big stack like the erg binary does
    let h = std::thread::Builder::new()
        .stack_size(512 * 1024 * 1024)
        .spawn(|| sx::serve(run))
        .unwrap();
    h.join().unwrap();
}
