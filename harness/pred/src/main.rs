//! C32 / C03: drive erg_compiler::ty::Predicate constructors and Context::subtype_of on refinement types.
//!
//! constructor-call tree  T ::= (0 b) Value | (1 c) eq | (2 c) ne | (3 c) ge | (4 c) le | (5 c) gt | (6 c) lt
//!                            | (7 T T) Predicate::and | (8 T T) Predicate::or | (9 T) invert | (10 n) opaque atom
//!                            | (11 P) raw enum value | (12 k n m) general_{eq,ne,ge,le}(atom n, atom m)
//! raw predicate          P ::= (0 b) | (1 c) Equal | (2 c) NotEqual | (3 c) GreaterEqual | (4 c) LessEqual
//!                            | (5 P ...) Or | (6 P P) And | (7 P) Not | (8 n) Const("c<n>")
//!                            | (9 k n m) General{Equal,NotEqual,GreaterEqual,LessEqual}(Const c<n>, Const c<m>) | (99 text) anything else
//! constants: integers; c >= 0 is ValueObj::Nat, c < 0 is ValueObj::Int (what literal evaluation produces)
//!
//! cases:
//!   (0 T)            -> P                           the predicate the constructors built
//!   (1 T T bl br)    -> (verdict P Q)               subtype_of({I: bl | P}, {I: br | Q}); b = 0 Int, 1 Nat
//!   (2 src)          -> (nerr (base P) (base Q))    lower the module `src`, report the signature of `g`
//!   (3 T T)          -> (verdict)                   #[cfg(erg_verif)]-free: same as 1 with Int bases, no dumps
#[allow(dead_code)]
#[path = "../../common/sx.rs"]
mod sx;
use std::cell::RefCell;

use erg_common::config::ErgConfig;
use erg_common::io::Output;
use erg_common::set::Set;
use erg_common::traits::Runnable;
use erg_common::Str;
use erg_compiler::context::ModuleContext;
use erg_compiler::lower::ASTLowerer;
use erg_compiler::ty::constructors::refinement;
use erg_compiler::ty::value::ValueObj;
use erg_compiler::ty::{ParamTy, Predicate, TyParam, Type};
use sx::Sx;

const SUBJ: &str = "I";

fn cst(c: i128) -> TyParam {
    if c >= 0 {
        TyParam::value(ValueObj::Nat(c as u64))
    } else {
        TyParam::value(ValueObj::Int(c as i32))
    }
}

fn atom(n: i128) -> Predicate {
    Predicate::Const(Str::from(format!("c{n}")))
}

fn s() -> Str {
    Str::ever(SUBJ)
}

fn dec_raw(x: &Sx) -> Predicate {
    let k = x.nth(0).z();
    match k {
        0 => Predicate::Value(ValueObj::Bool(x.nth(1).z() != 0)),
        1 => Predicate::Equal { lhs: s(), rhs: cst(x.nth(1).z()) },
        2 => Predicate::NotEqual { lhs: s(), rhs: cst(x.nth(1).z()) },
        3 => Predicate::GreaterEqual { lhs: s(), rhs: cst(x.nth(1).z()) },
        4 => Predicate::LessEqual { lhs: s(), rhs: cst(x.nth(1).z()) },
        5 => {
            let mut set = Set::new();
            for p in &x.l()[1..] {
                set.insert(dec_raw(p));
            }
            Predicate::Or(set)
        }
        6 => Predicate::And(Box::new(dec_raw(x.nth(1))), Box::new(dec_raw(x.nth(2)))),
        7 => Predicate::Not(Box::new(dec_raw(x.nth(1)))),
        8 => atom(x.nth(1).z()),
        9 => general(x.nth(1).z(), atom(x.nth(2).z()), atom(x.nth(3).z())),
        _ => Predicate::Failure,
    }
}

fn general(k: i128, a: Predicate, b: Predicate) -> Predicate {
    match k {
        0 => Predicate::general_eq(a, b),
        1 => Predicate::general_ne(a, b),
        2 => Predicate::general_ge(a, b),
        _ => Predicate::general_le(a, b),
    }
}

fn build(x: &Sx) -> Predicate {
    let k = x.nth(0).z();
    match k {
        0 => Predicate::Value(ValueObj::Bool(x.nth(1).z() != 0)),
        1 => Predicate::eq(s(), cst(x.nth(1).z())),
        2 => Predicate::ne(s(), cst(x.nth(1).z())),
        3 => Predicate::ge(s(), cst(x.nth(1).z())),
        4 => Predicate::le(s(), cst(x.nth(1).z())),
        5 => Predicate::gt(s(), cst(x.nth(1).z())),
        6 => Predicate::lt(s(), cst(x.nth(1).z())),
        7 => Predicate::and(build(x.nth(1)), build(x.nth(2))),
        8 => Predicate::or(build(x.nth(1)), build(x.nth(2))),
        9 => build(x.nth(1)).invert(),
        10 => atom(x.nth(1).z()),
        11 => dec_raw(x.nth(1)),
        12 => general(x.nth(1).z(), atom(x.nth(2).z()), atom(x.nth(3).z())),
        _ => Predicate::Failure,
    }
}

fn other(p: &dyn std::fmt::Display) -> Sx {
    Sx::L(vec![Sx::Z(99), Sx::from_str_cp(&p.to_string())])
}

fn enc_cst(k: i128, lhs: &Str, tp: &TyParam, whole: &Predicate) -> Sx {
    if &lhs[..] != SUBJ {
        return other(whole);
    }
    match tp {
        TyParam::Value(ValueObj::Int(i)) => Sx::L(vec![Sx::Z(k), Sx::Z(*i as i128)]),
        TyParam::Value(ValueObj::Nat(n)) => Sx::L(vec![Sx::Z(k), Sx::Z(*n as i128)]),
        _ => other(whole),
    }
}

fn atom_id(p: &Predicate) -> Option<i128> {
    if let Predicate::Const(name) = p {
        name.strip_prefix('c').and_then(|t| t.parse::<i128>().ok())
    } else {
        None
    }
}

fn enc_general(k: i128, l: &Predicate, r: &Predicate, whole: &Predicate) -> Sx {
    match (atom_id(l), atom_id(r)) {
        (Some(a), Some(b)) => Sx::L(vec![Sx::Z(9), Sx::Z(k), Sx::Z(a), Sx::Z(b)]),
        _ => other(whole),
    }
}

/// walk the public enum; Or members in the set's iteration order (the python side sorts)
fn enc(p: &Predicate) -> Sx {
    match p {
        Predicate::Value(ValueObj::Bool(b)) => Sx::L(vec![Sx::Z(0), Sx::b(*b)]),
        Predicate::Equal { lhs, rhs } => enc_cst(1, lhs, rhs, p),
        Predicate::NotEqual { lhs, rhs } => enc_cst(2, lhs, rhs, p),
        Predicate::GreaterEqual { lhs, rhs } => enc_cst(3, lhs, rhs, p),
        Predicate::LessEqual { lhs, rhs } => enc_cst(4, lhs, rhs, p),
        Predicate::Or(set) => {
            let mut v = vec![Sx::Z(5)];
            for q in set.iter() {
                v.push(enc(q));
            }
            Sx::L(v)
        }
        Predicate::And(l, r) => Sx::L(vec![Sx::Z(6), enc(l), enc(r)]),
        Predicate::Not(q) => Sx::L(vec![Sx::Z(7), enc(q)]),
        Predicate::Const(_) => match atom_id(p) {
            Some(n) => Sx::L(vec![Sx::Z(8), Sx::Z(n)]),
            None => other(p),
        },
        Predicate::GeneralEqual { lhs, rhs } => enc_general(0, lhs, rhs, p),
        Predicate::GeneralNotEqual { lhs, rhs } => enc_general(1, lhs, rhs, p),
        Predicate::GeneralGreaterEqual { lhs, rhs } => enc_general(2, lhs, rhs, p),
        Predicate::GeneralLessEqual { lhs, rhs } => enc_general(3, lhs, rhs, p),
        _ => other(p),
    }
}

fn base(k: i128) -> Type {
    if k == 1 {
        Type::Nat
    } else {
        Type::Int
    }
}

fn enc_base(t: &Type) -> Sx {
    match t {
        Type::Int => Sx::Z(0),
        Type::Nat => Sx::Z(1),
        _ => other(t),
    }
}

fn enc_ty(t: &Type) -> Sx {
    match t {
        Type::Refinement(r) => {
            // rename-insensitive: the subject must be the refinement variable
            let p = (*r.pred).clone().change_subject_name(s());
            Sx::L(vec![enc_base(&r.t), if r.pred.subject().map_or(true, |v| v == &r.var[..]) { enc(&p) } else { other(&r.pred) }])
        }
        Type::Int => Sx::L(vec![Sx::Z(0), Sx::L(vec![Sx::Z(0), Sx::Z(1)])]),
        Type::Nat => Sx::L(vec![Sx::Z(1), Sx::L(vec![Sx::Z(0), Sx::Z(1)])]),
        _ => other(t),
    }
}

thread_local! {
    static CTX: RefCell<Option<ModuleContext>> = RefCell::new(None);
}

fn lower(src: String) -> (usize, Option<ModuleContext>) {
    let mut cfg = ErgConfig::string(src);
    cfg.output = Output::Null;
    let mut lowerer = ASTLowerer::new(cfg);
    let nerr = match lowerer.exec() {
        Ok(_) => 0,
        Err(errs) => errs.len().max(1),
    };
    (nerr, lowerer.pop_mod_ctx())
}

fn with_ctx<R>(f: impl FnOnce(&ModuleContext) -> R) -> R {
    CTX.with(|c| {
        if c.borrow().is_none() {
            let (_, m) = lower("x = 1\n".to_string());
            *c.borrow_mut() = Some(m.expect("no module context"));
        }
        f(c.borrow().as_ref().unwrap())
    })
}

fn run(case: &Sx) -> Sx {
    match case.nth(0).z() {
        0 => enc(&build(case.nth(1))),
        1 | 3 => {
            let p = build(case.nth(1));
            let q = build(case.nth(2));
            let (bl, br) = if case.l().len() > 4 { (case.nth(3).z(), case.nth(4).z()) } else { (0, 0) };
            let sub = refinement(s(), base(bl), p.clone());
            let sup = refinement(s(), base(br), q.clone());
            let v = with_ctx(|m| m.context.subtype_of(&sub, &sup));
            if case.nth(0).z() == 3 {
                Sx::L(vec![Sx::b(v)])
            } else {
                Sx::L(vec![Sx::b(v), enc(&p), enc(&q)])
            }
        }
        2 => {
            let src = case.nth(1).string();
            let (nerr, m) = lower(src);
            let mut out = vec![Sx::Z(nerr as i128)];
            if let Some(m) = m {
                if let Some((_, vi)) = m.context.get_var_info("g") {
                    if let Type::Subr(subr) = &vi.t {
                        for pt in subr.non_default_params.iter() {
                            match pt {
                                ParamTy::Pos(t) | ParamTy::Kw { ty: t, .. } => out.push(enc_ty(t)),
                                _ => {}
                            }
                        }
                        out.push(enc_ty(&subr.return_t));
                    } else {
                        out.push(other(&vi.t));
                    }
                }
            }
            Sx::L(out)
        }
        _ => Sx::L(vec![Sx::Z(-1)]),
    }
}

fn main() {
    // the compiler recurses deeply in debug builds: run on a big stack like the erg binary does
    let h = std::thread::Builder::new()
        .stack_size(512 * 1024 * 1024)
        .spawn(|| sx::serve(run))
        .unwrap();
    h.join().unwrap();
}
