//! C22: drive the real lowering pipeline + SideEffectChecker on a source text and dump
//!   * the effect errors (kind, location, caused_by) in emission order
//!   * the lowered HIR abstracted to the mini-HIR of coq/Effects/MiniHir.v
//! case   = (src)            src = list of code points
//! output = (status errors hir)
//!   status 0: no error; 1: only HasEffect errors (the effect checker ran); 2: other errors (lowering failed or
//!             ownership errors; the effect checker did not report); 3: no HIR
//!   errors = ((class loc caused_by msg) ...)   class 0 has_effect | 1 constructor/destructor | 2 proc_assign | 3 touch_mut
//!            | 9 other HasEffect message | 10+ other error kinds
//!   hir    = (expr ...)     see `expr` below for the encoding
#[allow(dead_code)]
#[path = "../../common/sx.rs"]
mod sx;
use sx::Sx;

use erg_common::config::ErgConfig;
use erg_common::error::{ErrorKind, Location};
use erg_common::traits::{Locational, Stream};
use erg_compiler::error::CompileErrors;
use erg_compiler::hir::*;
use erg_compiler::ty::HasType;
use erg_compiler::HIRBuilder;
use erg_parser::token::TokenKind;

fn z(i: i128) -> Sx {
    Sx::Z(i)
}
fn b(x: bool) -> Sx {
    Sx::b(x)
}
fn l(v: Vec<Sx>) -> Sx {
    Sx::L(v)
}

/// one integer per location: Range -> lb*10^9 + cb*10^6 + le*10^3 + ce ; LineRange/Line negative ; Unknown 0
fn loc(lc: Location) -> Sx {
    match lc {
        Location::Range { ln_begin, col_begin, ln_end, col_end } => z((ln_begin as i128) * 1_000_000_000
            + (col_begin as i128 % 1000) * 1_000_000
            + (ln_end as i128 % 1000) * 1_000
            + (col_end as i128 % 1000)),
        Location::LineRange(a, b) => z(-((a as i128) * 1_000_000 + (b as i128) * 1000 + 1)),
        Location::Line(a) => z(-((a as i128) * 1_000_000 + 2)),
        Location::Unknown => z(0),
    }
}

fn block<'a, I: IntoIterator<Item = &'a Expr>>(bl: I) -> Sx {
    l(bl.into_iter().map(expr).collect())
}

fn opt(e: Option<&Expr>) -> Sx {
    l(e.into_iter().map(expr).collect())
}

fn pos(args: &Args) -> Sx {
    l(args.pos_args.iter().map(|a| expr(&a.expr)).collect())
}

fn param(p: &NonDefaultParamSignature) -> Sx {
    let name = p.inspect();
    l(vec![
        loc(p.raw.pat.loc()),
        b(p.vi.t.is_procedure()),
        b(name.is_some()),
        b(name.map(|n| n.ends_with('!')).unwrap_or(false)),
    ])
}

fn params(ps: &Params) -> Sx {
    l(vec![
        l(ps.non_defaults.iter().map(param).collect()),
        l(ps.var_params.iter().map(|p| param(p)).collect()),
        l(ps.defaults.iter().map(|d| l(vec![param(&d.sig), expr(&d.default_val)])).collect()),
        l(ps.kw_var_params.iter().map(|p| param(p)).collect()),
        l(ps.guards
            .iter()
            .map(|g| match g {
                GuardClause::Condition(e) => expr(e),
                GuardClause::Bind(d) => l(vec![z(16), def(d)]),
            })
            .collect()),
    ])
}

fn def(d: &Def) -> Sx {
    let (ps, decos) = match &d.sig {
        Signature::Subr(s) => (vec![params(&s.params)], s.decorators.iter().map(expr).collect()),
        _ => (vec![], vec![]),
    };
    l(vec![
        loc(d.sig.loc()),
        b(d.sig.is_procedural()),
        b(d.sig.is_subr()),
        b(d.sig.is_const()),
        b(d.sig.vis().is_public()),
        Sx::from_str_cp(&d.sig.inspect()[..]),
        l(ps),
        l(decos),
        block(d.body.block.iter()),
        b(d.body.block.last().map(|c| c.t().is_procedure()).unwrap_or(false)),
    ])
}

fn acc_flags(acc: &Accessor) -> Vec<Sx> {
    vec![
        loc(acc.loc()),
        b(acc.ref_t().is_mut_type()),
        b(acc.var_info().is_parameter()),
        b(acc.root_obj().is_some_and(|o| o.ref_t().is_ref())),
        Sx::from_str_cp(&acc.var_info().def_namespace()[..]),
    ]
}

fn accessor(acc: &Accessor) -> Sx {
    match acc {
        Accessor::Ident(id) => {
            let mut v = vec![z(1)];
            v.extend(acc_flags(acc));
            v.push(Sx::from_str_cp(&id.inspect()[..]));
            l(v)
        }
        Accessor::Attr(at) => {
            let mut v = vec![z(2)];
            v.extend(acc_flags(acc));
            v.push(expr(&at.obj));
            v.push(Sx::from_str_cp(&at.ident.inspect()[..]));
            l(v)
        }
    }
}

fn expr(e: &Expr) -> Sx {
    match e {
        Expr::Literal(_) => l(vec![z(0)]),
        Expr::Accessor(acc) => accessor(acc),
        Expr::Call(c) => l(vec![
            z(3),
            loc(e.loc()),
            expr(&c.obj),
            b(c.obj.t().is_procedure()),
            b(c.attr_name.is_some()),
            b(c.attr_name.as_ref().map(|n| n.is_procedural()).unwrap_or(false)),
            b(false), // constructor/destructor condition: needs pub(crate) context API, not observed
            pos(&c.args),
            l(c.args.var_args.iter().map(|a| expr(&a.expr)).collect()),
            l(c.args.kw_args.iter().map(|a| expr(&a.expr)).collect()),
            l(c.args.kw_var.iter().map(|a| expr(&a.expr)).collect()),
        ]),
        Expr::BinOp(bin) => l(vec![
            z(4),
            loc(e.loc()),
            b(bin.op.kind == TokenKind::IsOp || bin.op.kind == TokenKind::IsNotOp),
            expr(&bin.lhs),
            expr(&bin.rhs),
        ]),
        Expr::UnaryOp(u) => l(vec![z(5), expr(&u.expr)]),
        Expr::List(List::Normal(x)) => l(vec![z(6), pos(&x.elems)]),
        Expr::List(List::WithLength(x)) => l(vec![z(7), expr(&x.elem), opt(x.len.as_deref())]),
        Expr::List(List::Comprehension(x)) => l(vec![z(8), expr(&x.elem), expr(&x.guard)]),
        Expr::Tuple(Tuple::Normal(x)) => l(vec![z(9), pos(&x.elems)]),
        Expr::Set(Set::Normal(x)) => l(vec![z(10), pos(&x.elems)]),
        Expr::Set(Set::WithLength(x)) => l(vec![z(11), expr(&x.elem), expr(&x.len)]),
        Expr::Dict(Dict::Normal(x)) => l(vec![
            z(12),
            l(x.kvs.iter().map(|kv| l(vec![expr(&kv.key), expr(&kv.value)])).collect()),
        ]),
        Expr::Dict(_) => l(vec![z(13)]),
        Expr::Record(r) => l(vec![z(14), l(r.attrs.iter().map(def).collect())]),
        Expr::Lambda(lam) => l(vec![z(15), b(lam.is_procedural()), params(&lam.params), block(lam.body.iter())]),
        Expr::Def(d) => l(vec![z(16), def(d)]),
        Expr::ClassDef(c) => l(vec![
            z(17),
            b(c.sig.vis().is_public()),
            Sx::from_str_cp(&c.sig.inspect()[..]),
            opt(c.require_or_sup.as_deref()),
            l(c.all_methods().map(expr).collect()),
        ]),
        Expr::PatchDef(p) => l(vec![z(18), expr(&p.base), block(p.methods.iter())]),
        Expr::TypeAsc(t) => l(vec![z(19), expr(&t.expr)]),
        Expr::ReDef(r) => l(vec![z(20), accessor(&r.attr), block(r.block.iter())]),
        Expr::Code(bl) => l(vec![z(21), block(bl.iter())]),
        Expr::Compound(bl) => l(vec![z(22), block(bl.iter())]),
        Expr::Import(_) => l(vec![z(23)]),
        Expr::Dummy(d) => l(vec![z(24), l(d.iter().map(expr).collect())]),
    }
}

fn errors(errs: &CompileErrors) -> (bool, Sx) {
    let mut all_effect = true;
    let mut out = vec![];
    for e in errs.iter() {
        let m = &e.core.main_message;
        let class = if e.core.kind != ErrorKind::HasEffect {
            all_effect = false;
            10 + e.core.kind as i128
        } else if m.starts_with("this expression causes a side-effect") {
            0
        } else if m.starts_with("the constructor and destructor") {
            1
        } else if m.starts_with("cannot assign a procedure") {
            2
        } else if m.starts_with("cannot access a mutable object") {
            3
        } else {
            9
        };
        let msg = if class >= 9 { Sx::from_str_cp(m) } else { l(vec![]) };
        out.push(l(vec![z(class), loc(e.core.loc), Sx::from_str_cp(&e.caused_by), msg]));
    }
    (all_effect, l(out))
}

fn run(case: &Sx) -> Sx {
    let src = case.nth(0).string();
    let cfg = ErgConfig::string(src.clone());
    let mut builder = HIRBuilder::new(cfg);
    match builder.build(src, "exec") {
        Ok(art) => l(vec![z(0), l(vec![]), block(art.object.module.iter())]),
        Err(iart) => {
            let (all_effect, es) = errors(&iart.errors);
            match &iart.object {
                Some(hir) => l(vec![z(if all_effect { 1 } else { 2 }), es, block(hir.module.iter())]),
                None => l(vec![z(3), es, l(vec![])]),
            }
        }
    }
}

fn main() {
    sx::serve(run);
}
