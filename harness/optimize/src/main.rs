//! C12: drive the real pipeline of crates/erg_compiler/compile.rs `build_link_desugar_optimize`
//! (PackageBuilder::build -> HIRLinker::link -> HIRDesugarer::desugar -> HIROptimizer::optimize) in-process and dump
//!   * the HIR before optimisation, abstracted to the mini language of coq/Optimize/Model.v, every definition
//!     annotated with what `ModuleIndex::get_refs` answers for it (the reference-count oracle)
//!   * the HIR after `HIROptimizer::optimize` for each requested `opt_level`
//! case   = (src levels)     src = list of code points; levels = list of opt levels (u8)
//! output = (status hir0 ((level hir) ...))
//!   status 0: built; 2: compile errors (no dump); 3: no HIR
//! expr   = (0 kind val) Literal: kind 0 Int/Nat | 1 Str (code points) | 2 Bool | 3 None | 4 other
//!        | (1 key builtin) Accessor::Ident | (2 obj method) Accessor::Attr
//!        | (3 obj_proc has_attr attr_proc ret_proc method obj pos var kw kwvar) Call
//!        | (4 op l r) BinOp | (5 op e) UnaryOp | (6 es) List::Normal | (7 e len?) List::WithLength | (8) List::Comprehension
//!        | (9 es) Tuple | (10 es) Set::Normal | (11 e len) Set::WithLength | (12 (k v k v ..)) Dict::Normal | (13) other Dict
//!        | (14 ((16 def) ..)) Record | (15 bang simple params body) Lambda | (16 def) Def | (17) ClassDef | (18) PatchDef
//!        | (19 e) TypeAsc | (20) ReDef | (21 b) Code | (22 b) Compound | (23) Import | (24 es) Dummy
//! def    = (key proc subr glob discarded public refs simple params body);  refs = referrers.len(), -1 = get_refs is None
#[allow(dead_code)]
#[path = "../../common/sx.rs"]
mod sx;
use sx::Sx;

use erg_common::config::ErgConfig;
use erg_common::error::Location;
use erg_common::traits::{Locational, Stream};
use erg_compiler::build_package::PackageBuilder;
use erg_compiler::desugar_hir::HIRDesugarer;
use erg_compiler::hir::*;
use erg_compiler::link_hir::HIRLinker;
use erg_compiler::module::SharedCompilerResource;
use erg_compiler::optimize::HIROptimizer;
use erg_compiler::ty::{HasType, ValueObj};
use erg_compiler::varinfo::AbsLocation;
use erg_parser::token::TokenKind;

fn z(i: i128) -> Sx {
    Sx::Z(i)
}
fn b(x: bool) -> Sx {
    Sx::b(x)
}
fn l(v: Vec<Sx>) -> Sx {
    Sx::L(v)
}

struct Dumper<'a> {
    shared: &'a SharedCompilerResource,
}

/// key of a definition site: Range -> lb*10^6 + cb*10^3 + (ce % 1000) (+1 so that it is never 0); anything else 0 (external)
fn loc_key(lc: Location) -> i128 {
    match lc {
        Location::Range { ln_begin, col_begin, col_end, .. } => {
            (ln_begin as i128) * 1_000_000 + (col_begin as i128 % 1000) * 1_000 + (col_end as i128 % 1000) + 1
        }
        _ => 0,
    }
}

/// definitions of the program under test live in the module being compiled; everything else (builtins, other
/// modules) is external: key 0
fn def_key(loc: &AbsLocation) -> i128 {
    match &loc.module {
        Some(p) => {
            let s = p.to_string_lossy();
            if s.contains("<string>") || s.ends_with(".er") && !s.ends_with(".d.er") {
                loc_key(loc.loc)
            } else {
                0
            }
        }
        None => 0,
    }
}

/// builtins the mini semantics of coq/Optimize/Model.v interprets (0 = not interpreted)
fn builtin_code(name: &str) -> i128 {
    match name {
        "print!" => 1,
        "len" => 2,
        "abs" => 3,
        "str" => 4,
        "int" => 5,
        "assert" => 6,
        "if!" => 7,
        "for!" => 8,
        "if" => 9,
        "discard" => 10,
        "list" => 11,
        _ => 0,
    }
}

fn method_code(name: &str) -> i128 {
    match name {
        "push!" => 1,
        "__getitem__" => 2,
        "inc!" => 3,
        "dec!" => 4,
        "abs" => 5,
        _ => 0,
    }
}

fn binop_code(k: TokenKind) -> i128 {
    match k {
        TokenKind::Plus => 1,
        TokenKind::Minus => 2,
        TokenKind::Star => 3,
        TokenKind::FloorDiv => 4,
        TokenKind::Mod => 5,
        TokenKind::Slash => 6,
        TokenKind::Pow => 7,
        TokenKind::DblEq => 8,
        TokenKind::NotEq => 9,
        TokenKind::Less => 10,
        TokenKind::LessEq => 11,
        TokenKind::Gre => 12,
        TokenKind::GreEq => 13,
        TokenKind::RightOpen => 14,
        _ => 0,
    }
}

fn unop_code(k: TokenKind) -> i128 {
    match k {
        TokenKind::Mutate => 1,
        TokenKind::PreMinus => 2,
        TokenKind::PrePlus => 3,
        _ => 0,
    }
}

impl<'a> Dumper<'a> {
    fn block<'b, I: IntoIterator<Item = &'b Expr>>(&self, bl: I) -> Sx {
        l(bl.into_iter().map(|e| self.expr(e)).collect())
    }

    fn opt(&self, e: Option<&Expr>) -> Sx {
        l(e.into_iter().map(|e| self.expr(e)).collect())
    }

    fn pos(&self, args: &Args) -> Sx {
        l(args.pos_args.iter().map(|a| self.expr(&a.expr)).collect())
    }

    /// (simple ids n_pattern_guards): simple = only named non-default parameters (what the mini semantics can bind)
    fn params(&self, ps: &Params) -> (bool, Sx, i128) {
        let simple = ps.var_params.is_none()
            && ps.defaults.is_empty()
            && ps.kw_var_params.is_none()
            && ps.non_defaults.iter().all(|p| p.inspect().is_some());
        (
            simple,
            l(ps.non_defaults.iter().map(|p| z(def_key(&p.vi.def_loc))).collect()),
            // a type annotation `a: T` is kept as the guard `contains(T, a)`: not a pattern, nothing to evaluate
            ps.guards
                .iter()
                .filter(|g| !matches!(g, GuardClause::Condition(Expr::BinOp(b)) if b.op.kind == TokenKind::ContainsOp))
                .count() as i128,
        )
    }

    /// (id proc subr glob discarded public refs simple params body)
    fn def(&self, d: &Def) -> Sx {
        let glob = d.sig.is_glob();
        let (id, refs, discarded, public) = if glob {
            (0, -1, false, false)
        } else {
            let ident = d.sig.ident();
            let refs = match self.shared.index.get_refs(&ident.vi.def_loc) {
                Some(v) => v.referrers.len() as i128,
                None => -1,
            };
            (def_key(&ident.vi.def_loc), refs, ident.is_discarded(), d.sig.vis().is_public())
        };
        let (simple, ps, guards) = match &d.sig {
            Signature::Subr(s) => self.params(&s.params),
            _ => (true, l(vec![]), 0),
        };
        l(vec![
            z(id),
            b(d.sig.is_procedural()),
            b(d.sig.is_subr()),
            b(glob),
            b(discarded),
            b(public),
            z(refs),
            b(simple && guards == 0),
            ps,
            self.block(d.body.block.iter()),
        ])
    }

    fn lit(&self, v: &ValueObj) -> Sx {
        match v {
            ValueObj::Int(i) => l(vec![z(0), z(0), z(*i as i128)]),
            ValueObj::Nat(n) => l(vec![z(0), z(0), z(*n as i128)]),
            ValueObj::Str(s) => l(vec![z(0), z(1), Sx::from_str_cp(&s[..])]),
            ValueObj::Bool(x) => l(vec![z(0), z(2), b(*x)]),
            ValueObj::None => l(vec![z(0), z(3), z(0)]),
            _ => l(vec![z(0), z(4), z(0)]),
        }
    }

    fn accessor(&self, acc: &Accessor) -> Sx {
        match acc {
            Accessor::Ident(id) => {
                let key = def_key(&id.vi.def_loc);
                let code = if key == 0 { builtin_code(&id.inspect()[..]) } else { 0 };
                l(vec![z(1), z(key), z(code)])
            }
            Accessor::Attr(at) => l(vec![z(2), self.expr(&at.obj), z(method_code(&at.ident.inspect()[..]))]),
        }
    }

    fn expr(&self, e: &Expr) -> Sx {
        match e {
            Expr::Literal(lit) => self.lit(&lit.value),
            Expr::Accessor(acc) => self.accessor(acc),
            Expr::Call(c) => l(vec![
                z(3),
                b(c.obj.ref_t().is_procedure()),
                b(c.attr_name.is_some()),
                b(c.attr_name.as_ref().map(|n| n.is_procedural()).unwrap_or(false)),
                b(c.ref_t().is_procedure()),
                z(c.attr_name.as_ref().map(|n| method_code(&n.inspect()[..])).unwrap_or(0)),
                self.expr(&c.obj),
                self.pos(&c.args),
                l(c.args.var_args.iter().map(|a| self.expr(&a.expr)).collect()),
                l(c.args.kw_args.iter().map(|a| self.expr(&a.expr)).collect()),
                l(c.args.kw_var.iter().map(|a| self.expr(&a.expr)).collect()),
            ]),
            Expr::BinOp(bin) => l(vec![z(4), z(binop_code(bin.op.kind)), self.expr(&bin.lhs), self.expr(&bin.rhs)]),
            Expr::UnaryOp(u) => l(vec![z(5), z(unop_code(u.op.kind)), self.expr(&u.expr)]),
            Expr::List(List::Normal(x)) => l(vec![z(6), self.pos(&x.elems)]),
            Expr::List(List::WithLength(x)) => l(vec![z(7), self.expr(&x.elem), self.opt(x.len.as_deref())]),
            Expr::List(List::Comprehension(_)) => l(vec![z(8)]),
            Expr::Tuple(Tuple::Normal(x)) => l(vec![z(9), self.pos(&x.elems)]),
            Expr::Set(Set::Normal(x)) => l(vec![z(10), self.pos(&x.elems)]),
            Expr::Set(Set::WithLength(x)) => l(vec![z(11), self.expr(&x.elem), self.expr(&x.len)]),
            Expr::Dict(Dict::Normal(x)) => l(vec![
                z(12),
                l(x.kvs.iter().flat_map(|kv| vec![self.expr(&kv.key), self.expr(&kv.value)]).collect()),
            ]),
            Expr::Dict(_) => l(vec![z(13)]),
            Expr::Record(r) => l(vec![z(14), l(r.attrs.iter().map(|d| l(vec![z(16), self.def(d)])).collect())]),
            Expr::Lambda(lam) => {
                let (simple, ps, guards) = self.params(&lam.params);
                l(vec![z(15), b(lam.op.is_procedural()), b(simple && guards == 0), ps, self.block(lam.body.iter())])
            }
            Expr::Def(d) => l(vec![z(16), self.def(d)]),
            Expr::ClassDef(_) => l(vec![z(17)]),
            Expr::PatchDef(_) => l(vec![z(18)]),
            Expr::TypeAsc(t) => l(vec![z(19), self.expr(&t.expr)]),
            Expr::ReDef(_) => l(vec![z(20)]),
            Expr::Code(bl) => l(vec![z(21), self.block(bl.iter())]),
            Expr::Compound(bl) => l(vec![z(22), self.block(bl.iter())]),
            Expr::Import(_) => l(vec![z(23)]),
            Expr::Dummy(d) => l(vec![z(24), l(d.iter().map(|e| self.expr(e)).collect())]),
        }
    }
}

fn run(case: &Sx) -> Sx {
    let src = case.nth(0).string();
    let levels: Vec<u8> = case.nth(1).zs().iter().map(|x| *x as u8).collect();
    let cfg = ErgConfig::string(src.clone());
    // as crates/erg_compiler/compile.rs: Compiler::new + build_link_desugar_optimize
    let shared = SharedCompilerResource::new(cfg.copy());
    let mut builder = PackageBuilder::new(cfg.copy(), shared.clone());
    let hir = match builder.build(src, "exec") {
        Ok(art) => art.object,
        Err(iart) => {
            let n = iart.errors.len() as i128;
            return l(vec![z(if iart.object.is_some() { 2 } else { 3 }), z(n), l(vec![])]);
        }
    };
    let linker = HIRLinker::new(&cfg, &shared.mod_cache);
    let hir = linker.link(hir);
    let hir = HIRDesugarer::desugar(hir);
    let d = Dumper { shared: &shared };
    let before = d.block(hir.module.iter());
    let mut outs = vec![];
    for lv in levels {
        let mut c = cfg.copy();
        c.opt_level = lv;
        let after = HIROptimizer::optimize(c, shared.clone(), hir.clone());
        outs.push(l(vec![z(lv as i128), d.block(after.module.iter())]));
    }
    l(vec![z(0), before, l(outs)])
}

fn main() {
    sx::serve(run);
}
