//! C21: drive erg_compiler::module::graph::ModuleGraph with an operation history.
//! case  = (op ...) where op = (0 p) add | (1 r d) inc_ref | (2 p) remove | (3 old new) rename | (4) sort
//! universe = second element; output: per step (res state queries)
#[allow(dead_code)]
#[path = "../../common/sx.rs"]
mod sx;
use sx::Sx;
use erg_common::pathutil::NormalizedPathBuf;
use erg_common::tsort::TopoSortErrorKind;
use erg_compiler::module::ModuleGraph;

fn p(i: i128) -> NormalizedPathBuf {
    NormalizedPathBuf::new(std::path::PathBuf::from(format!("/vrf/m{i}.er")))
}
fn id(pb: &NormalizedPathBuf) -> i128 {
    let s = pb.to_string_lossy().to_string();
    let s = s.trim_start_matches("/vrf/m").trim_end_matches(".er");
    s.parse::<i128>().unwrap_or(-1)
}

fn dump(g: &ModuleGraph, universe: &[i128]) -> Sx {
    // nodes in vector order, deps in the set's iteration order
    let nodes: Vec<Sx> = g
        .iter()
        .map(|n| {
            Sx::L(vec![
                Sx::Z(id(&n.id)),
                Sx::L(n.depends_on.iter().map(|d| Sx::Z(id(d))).collect()),
            ])
        })
        .collect();
    // observable index: position of the node get_node returns
    let mut index = vec![];
    for &u in universe {
        let pb = p(u);
        let r = std::panic::catch_unwind(std::panic::AssertUnwindSafe(|| {
            g.get_node(&pb).map(|n| g.iter().position(|m| std::ptr::eq(m, n)).unwrap())
        }));
        match r {
            Ok(Some(i)) => index.push(Sx::L(vec![Sx::Z(u), Sx::Z(i as i128)])),
            Ok(None) => {}
            Err(_) => index.push(Sx::L(vec![Sx::Z(u), Sx::Z(-999)])),
        }
    }
    Sx::L(vec![Sx::L(nodes), Sx::L(index)])
}

fn sorted(mut v: Vec<i128>) -> Sx {
    v.sort();
    Sx::L(v.into_iter().map(Sx::Z).collect())
}

fn queries(g: &ModuleGraph, universe: &[i128]) -> Sx {
    let mut dep = vec![];
    let mut deep = vec![];
    let mut ch = vec![];
    let mut par = vec![];
    let mut anc = vec![];
    for &a in universe {
        let pa = p(a);
        for &b in universe {
            let pb = p(b);
            dep.push(Sx::b(g.depends_on(&pa, &pb)));
            deep.push(Sx::b(g.deep_depends_on(&pa, &pb)));
        }
        ch.push(sorted(g.children(&pa).map(|x| id(&x)).collect()));
        par.push(match g.parents(&pa) {
            None => Sx::Z(-1),
            Some(s) => sorted(s.iter().map(id).collect()),
        });
        anc.push(sorted(g.ancestors(&pa).iter().map(|x| id(x)).collect()));
    }
    Sx::L(vec![Sx::L(dep), Sx::L(deep), Sx::L(ch), Sx::L(par), Sx::L(anc)])
}

fn run(case: &Sx) -> Sx {
    let universe = case.nth(0).zs();
    let ops = case.nth(1).l();
    let mut g = ModuleGraph::new();
    let mut out = vec![];
    for op in ops {
        let k = op.nth(0).z();
        let r = std::panic::catch_unwind(std::panic::AssertUnwindSafe(|| match k {
            0 => {
                g.add_node_if_none(&p(op.nth(1).z()));
                0
            }
            1 => match g.inc_ref(&p(op.nth(1).z()), p(op.nth(2).z())) {
                Ok(()) => 0,
                Err(_) => 1,
            },
            2 => {
                g.remove(&p(op.nth(1).z()));
                0
            }
            3 => {
                g.rename_path(&p(op.nth(1).z()), p(op.nth(2).z()));
                0
            }
            4 => match g.sort() {
                Ok(()) => 0,
                Err(e) => match e.kind {
                    TopoSortErrorKind::CyclicReference => 2,
                    TopoSortErrorKind::KeyNotFound => 3,
                },
            },
            _ => -1,
        }));
        match r {
            Ok(res) => {
                let q = std::panic::catch_unwind(std::panic::AssertUnwindSafe(|| queries(&g, &universe)));
                out.push(Sx::L(vec![
                    Sx::Z(res),
                    dump(&g, &universe),
                    q.unwrap_or(Sx::Z(-999)),
                ]));
            }
            Err(_) => {
                out.push(Sx::L(vec![Sx::Z(-999)]));
                break;
            }
        }
    }
    Sx::L(out)
}

fn main() {
    sx::serve(run);
}
