//! C08: drive erg_parser::lex::Lexer on a source text (list of code points).
//! modes (first element of the case):
//!   (0 text)  -> (items lexflag) where items is the stream produced by iterating the Lexer:
//!                  (0 kind content lineno col_begin col_end)            a token
//!                  (1 errkind main_message hint loctag ln_b col_b ln_e col_e)   an error (hint = () or (cps))
//!                lexflag = 1 if `Lexer::from_str(text).lex()` returns exactly the same tokens / same number of
//!                errors (Ok iff no error), else 0
//!   (1)       -> table of token kinds: ((code name category_code category_name) ...) for every TokenKind
//!   (2 cps)   -> ((cp is_valid_start_symbol_ch is_valid_continue_symbol_ch is_bidi) ...)
#[allow(dead_code)]
#[path = "../../common/sx.rs"]
mod sx;
use erg_common::error::{ErrorCore, Location};
use erg_common::traits::{DequeStream, Stream};
use erg_parser::lex::Lexer;
use erg_parser::token::{Token, TokenKind};
use sx::Sx;

fn tok(t: &Token) -> Sx {
    Sx::L(vec![
        Sx::Z(0),
        Sx::Z(t.kind as u8 as i128),
        Sx::from_str_cp(&t.content),
        Sx::Z(t.lineno as i128),
        Sx::Z(t.col_begin as i128),
        Sx::Z(t.col_end as i128),
    ])
}

fn loc(l: Location) -> Vec<Sx> {
    match l {
        Location::Range {
            ln_begin,
            col_begin,
            ln_end,
            col_end,
        } => vec![
            Sx::Z(0),
            Sx::Z(ln_begin as i128),
            Sx::Z(col_begin as i128),
            Sx::Z(ln_end as i128),
            Sx::Z(col_end as i128),
        ],
        Location::LineRange(a, b) => vec![Sx::Z(1), Sx::Z(a as i128), Sx::Z(0), Sx::Z(b as i128), Sx::Z(0)],
        Location::Line(a) => vec![Sx::Z(2), Sx::Z(a as i128), Sx::Z(0), Sx::Z(a as i128), Sx::Z(0)],
        Location::Unknown => vec![Sx::Z(3), Sx::Z(0), Sx::Z(0), Sx::Z(0), Sx::Z(0)],
    }
}

fn err(core: ErrorCore) -> Sx {
    let hint = core
        .sub_messages
        .first()
        .and_then(|s| s.hint.clone())
        .map(|h| Sx::L(vec![Sx::from_str_cp(&h)]))
        .unwrap_or(Sx::L(vec![]));
    let mut v = vec![
        Sx::Z(1),
        Sx::Z(core.kind as u8 as i128),
        Sx::from_str_cp(&core.main_message),
        hint,
    ];
    v.extend(loc(core.loc));
    Sx::L(v)
}

fn run(case: &Sx) -> Sx {
    match case.nth(0).z() {
        0 => {
            let text = case.nth(1).string();
            let mut items = vec![];
            let mut toks: Vec<Token> = vec![];
            let mut nerr = 0usize;
            for it in Lexer::from_str(text.clone()) {
                match it {
                    Ok(t) => {
                        items.push(tok(&t));
                        toks.push(t);
                    }
                    Err(e) => {
                        nerr += 1;
                        items.push(err(ErrorCore::from(e)));
                    }
                }
            }
            let same = |ts: &erg_parser::token::TokenStream| {
                ts.len() == toks.len()
                    && ts.iter().zip(toks.iter()).all(|(a, b)| {
                        a.deep_eq(b) && a.col_end == b.col_end
                    })
            };
            let flag = match Lexer::from_str(text).lex() {
                Ok(ts) => nerr == 0 && same(&ts),
                Err((ts, es)) => nerr > 0 && es.len() == nerr && same(&ts),
            };
            Sx::L(vec![Sx::L(items), Sx::b(flag)])
        }
        1 => {
            let mut v = vec![];
            for i in 0..=(TokenKind::EOF as u8) {
                // TokenKind is #[repr(u8)] with contiguous discriminants 0..=EOF
                let k: TokenKind = unsafe { std::mem::transmute::<u8, TokenKind>(i) };
                let c = k.category();
                v.push(Sx::L(vec![
                    Sx::Z(i as i128),
                    Sx::from_str_cp(&format!("{k:?}")),
                    Sx::Z(c as u8 as i128),
                    Sx::from_str_cp(&format!("{c:?}")),
                ]));
            }
            Sx::L(v)
        }
        2 => Sx::L(
            case.nth(1)
                .l()
                .iter()
                .map(|x| {
                    let cp = x.z();
                    let c = char::from_u32(cp as u32).unwrap_or('\u{fffd}');
                    Sx::L(vec![
                        Sx::Z(cp),
                        Sx::b(Lexer::is_valid_start_symbol_ch(c)),
                        Sx::b(Lexer::is_valid_continue_symbol_ch(c)),
                        Sx::b(Lexer::is_bidi(c)),
                    ])
                })
                .collect(),
        ),
        _ => Sx::Z(-1),
    }
}

fn main() {
    sx::serve(run);
}
