//! C04: drive the constant evaluator of erg_compiler on plain values.
//! case   = (0 api op a b)  binary; api 0 = ValueObj::try_<op> directly, 1 = Context::eval_bin (hook verif_eval_bin),
//!                          2 = ValueObj::try_binary
//!          (1 op a)        unary through Context::eval_unary_val (hook verif_eval_unary)
//!          (2)             which build is this: (debug_assertions overflow_checks), each 0/1
//! value  = (0 i) Int(i32) | (1 n) Nat(u64) | (2 bits) Float(f64::from_bits) | (3 b) Bool
//! output = (0) not evaluated (None / Err) | (1 value) evaluated | (2) evaluated to some other kind of object
//!          | (-999 msg) panic (reported by sx::serve)
//! binary op codes: 0 Add 1 Sub 2 Mul 3 Div 4 FloorDiv 5 Pow 6 Mod 7 Gt 8 Ge 9 Lt 10 Le 11 Eq 12 Ne 13 And 14 Or
//!                  15 BitAnd 16 BitOr 17 BitXor 18 Shl 19 Shr;   unary: 0 Pos 1 Neg 2 Invert 3 Not
#[allow(dead_code)]
#[path = "../../common/sx.rs"]
mod sx;
use erg_compiler::context::Context;
use erg_compiler::ty::typaram::OpKind;
use erg_compiler::ty::value::ValueObj;
use sx::Sx;

const NAN_BITS: u64 = 0x7ff8_0000_0000_0000;

fn dec(x: &Sx) -> ValueObj {
    let v = x.nth(1).z();
    match x.nth(0).z() {
        0 => ValueObj::Int(v as i32),
        1 => ValueObj::Nat(v as u64),
        2 => ValueObj::from(f64::from_bits(v as u64)),
        _ => ValueObj::Bool(v != 0),
    }
}

fn enc(v: Option<ValueObj>) -> Sx {
    let val = |k: i128, z: i128| Sx::L(vec![Sx::Z(1), Sx::L(vec![Sx::Z(k), Sx::Z(z)])]);
    match v {
        None => Sx::L(vec![Sx::Z(0)]),
        Some(ValueObj::Int(i)) => val(0, i as i128),
        Some(ValueObj::Nat(n)) => val(1, n as i128),
        Some(ValueObj::Float(f)) => {
            let f: f64 = *f;
            val(2, if f.is_nan() { NAN_BITS } else { f.to_bits() } as i128)
        }
        Some(ValueObj::Bool(b)) => val(3, b as i128),
        Some(_) => Sx::L(vec![Sx::Z(2)]),
    }
}

fn binop(k: i128) -> OpKind {
    use OpKind::*;
    match k {
        0 => Add, 1 => Sub, 2 => Mul, 3 => Div, 4 => FloorDiv, 5 => Pow, 6 => Mod, 7 => Gt, 8 => Ge, 9 => Lt,
        10 => Le, 11 => Eq, 12 => Ne, 13 => And, 14 => Or, 15 => BitAnd, 16 => BitOr, 17 => BitXor, 18 => Shl,
        _ => Shr,
    }
}

fn direct(op: i128, a: ValueObj, b: ValueObj) -> Option<ValueObj> {
    match op {
        0 => a.try_add(b), 1 => a.try_sub(b), 2 => a.try_mul(b), 3 => a.try_div(b), 4 => a.try_floordiv(b),
        5 => a.try_pow(b), 6 => a.try_mod(b), 7 => a.try_gt(b), 8 => a.try_ge(b), 9 => a.try_lt(b),
        10 => a.try_le(b), 11 => a.try_eq(b), 12 => a.try_ne(b), 14 => a.try_or(b),
        _ => None,
    }
}

fn main() {
    let ctx = std::panic::AssertUnwindSafe(Context::default_with_name("<verif>"));
    sx::serve(move |x: &Sx| {
        let ctx: &Context = &ctx;
        if x.nth(0).z() == 2 {
            let max = std::hint::black_box(i32::MAX);
            #[allow(arithmetic_overflow)]
            let checked = std::panic::catch_unwind(move || max + std::hint::black_box(1)).is_err();
            return Sx::L(vec![Sx::b(cfg!(debug_assertions)), Sx::b(checked)]);
        }
        if x.nth(0).z() == 0 {
            let (api, op) = (x.nth(1).z(), x.nth(2).z());
            let (a, b) = (dec(x.nth(3)), dec(x.nth(4)));
            enc(match api {
                0 => direct(op, a, b),
                1 => ctx.verif_eval_bin(binop(op), a, b),
                _ => a.try_binary(b, binop(op)),
            })
        } else {
            let op = match x.nth(1).z() {
                0 => OpKind::Pos,
                1 => OpKind::Neg,
                2 => OpKind::Invert,
                _ => OpKind::Not,
            };
            enc(ctx.verif_eval_unary(op, dec(x.nth(2))))
        }
    });
}
