//! C26: declared result types of builtin operators/methods, as the *live* compiler types them.
//! case (0 src (name ...)) : lower the module text `src` (code points) with ASTLowerer (builtin Context of the working
//!   tree), then for every variable `name` print the Display form of its inferred type (code points);
//!   a variable that is missing prints (). Output: (nerr type ...).
//! For a function definition `f(a: A, b: B) = a + b` the printed type is `(a: A, b: B) -> R`: R is the class the
//! compiler promises for `A + B` (trait resolution Add(R).Output included), and it is the class whose constructor
//! codegen.rs/emit_expr inserts around the operation.
#[allow(dead_code)]
#[path = "../../common/sx.rs"]
mod sx;
use sx::Sx;

use erg_common::config::ErgConfig;
use erg_common::io::Output;
use erg_common::traits::Runnable;
use erg_compiler::context::ModuleContext;
use erg_compiler::lower::ASTLowerer;

fn lower(src: String) -> (usize, Option<ModuleContext>) {
    let mut cfg = ErgConfig::string(src);
    cfg.output = Output::Null;
    let mut lowerer = ASTLowerer::new(cfg);
    let nerr = match lowerer.exec() {
        Ok(_) => 0,
        Err(errs) => errs.len().max(1),
    };
    (nerr, lowerer.pop_mod_ctx())
}

fn run(case: &Sx) -> Sx {
    match case.nth(0).z() {
        0 => {
            let src = case.nth(1).string();
            let (nerr, m) = lower(src);
            let mut out = vec![Sx::Z(nerr as i128)];
            for name in case.nth(2).l() {
                let name = name.string();
                let t = m
                    .as_ref()
                    .and_then(|m| m.context.get_var_info(&name))
                    .map(|(_, vi)| format!("{}", vi.t));
                out.push(match t {
                    Some(t) => Sx::from_str_cp(&t),
                    None => Sx::L(vec![]),
                });
            }
            Sx::L(out)
        }
        _ => Sx::L(vec![Sx::Z(-1)]),
    }
}

fn main() {
    // the compiler recurses deeply in debug builds: run on a big stack like the erg binary does
    let h = std::thread::Builder::new()
        .stack_size(512 * 1024 * 1024)
        .spawn(|| sx::serve(run))
        .unwrap();
    h.join().unwrap();
}
