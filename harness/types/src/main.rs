//! C06 / C33: drive Context::subtype_of of the builtin context on generated types, dump the builtin class table.
//!
//! type      T ::= (0) Never | (1) Obj | (2 name) builtin / mono type by name (constructors::from_str)
//!               | (3 lit ...) enum of literals (constructors::v_enum)
//!               | (4 op lo hi) constructors::int_interval(op, lo, hi); op = 0 lo..hi 1 lo<..hi 2 lo..<hi 3 lo<..<hi
//!               | (5 T ...) fold with constructors::or | (6 T ...) fold with constructors::and | (7 T) constructors::not
//!               | (8 T) List(T, _) (unknown_len_list_t) | (9 T n) List(T, n) (list_t)
//!               | (10 base op lo hi) constructors::interval(op, base, lo, hi)
//! literal   l ::= (0 z) Nat z (z >= 0) / Int z (z < 0) | (1 text) Str | (2 b) Bool | (3) None | (4 z) Float z/10
//!
//! cases:
//!   (0)               -> ((name is_poly is_class is_trait (super_class ...) (super_trait ...)) ...)   verif_class_table
//!   (1 (T ...))       -> ((b ...) ...)    row i, column j: subtype_of(T_i, T_j); 1 true 0 false 2 the call panicked
//!   (2 T)             -> text             Display of the constructed type
//!   (3 (T ...) (U ...)) -> ((b ...) ...)  row i, column j: subtype_of(T_i, U_j)
#[allow(dead_code)]
#[path = "../../common/sx.rs"]
mod sx;
use std::cell::RefCell;
use std::panic::{catch_unwind, AssertUnwindSafe};

use erg_common::config::ErgConfig;
use erg_common::io::Output;
use erg_common::set::Set;
use erg_common::traits::Runnable;
use erg_common::Str;
use erg_compiler::context::ModuleContext;
use erg_compiler::lower::ASTLowerer;
use erg_compiler::ty::constructors::{
    and, from_str, int_interval, interval, list_t, not, or, unknown_len_list_t, v_enum,
};
use erg_compiler::ty::typaram::IntervalOp;
use erg_compiler::ty::value::ValueObj;
use erg_compiler::ty::{TyParam, Type};
use sx::Sx;

fn int(z: i128) -> ValueObj {
    if z >= 0 {
        ValueObj::Nat(z as u64)
    } else {
        ValueObj::Int(z as i32)
    }
}

fn lit(x: &Sx) -> ValueObj {
    match x.nth(0).z() {
        0 => int(x.nth(1).z()),
        1 => ValueObj::Str(Str::from(x.nth(1).string())),
        2 => ValueObj::Bool(x.nth(1).z() != 0),
        3 => ValueObj::None,
        _ => ValueObj::from(x.nth(1).z() as f64 / 10.0),
    }
}

fn iop(k: i128) -> IntervalOp {
    match k {
        0 => IntervalOp::Closed,
        1 => IntervalOp::LeftOpen,
        2 => IntervalOp::RightOpen,
        _ => IntervalOp::Open,
    }
}

fn ty(x: &Sx) -> Type {
    match x.nth(0).z() {
        0 => Type::Never,
        1 => Type::Obj,
        2 => from_str(x.nth(1).string()),
        3 => {
            let mut s = Set::new();
            for l in &x.l()[1..] {
                s.insert(lit(l));
            }
            v_enum(s)
        }
        4 => int_interval(iop(x.nth(1).z()), TyParam::value(int(x.nth(2).z())), TyParam::value(int(x.nth(3).z()))),
        5 => x.l()[1..].iter().map(ty).reduce(or).unwrap_or(Type::Never),
        6 => x.l()[1..].iter().map(ty).reduce(and).unwrap_or(Type::Obj),
        7 => not(ty(x.nth(1))),
        8 => unknown_len_list_t(ty(x.nth(1))),
        9 => list_t(ty(x.nth(1)), TyParam::value(int(x.nth(2).z()))),
        10 => interval(
            iop(x.nth(2).z()),
            ty(x.nth(1)),
            TyParam::value(int(x.nth(3).z())),
            TyParam::value(int(x.nth(4).z())),
        ),
        _ => Type::Failure,
    }
}

thread_local! {
    static CTX: RefCell<Option<ModuleContext>> = RefCell::new(None);
}

fn with_ctx<R>(f: impl FnOnce(&ModuleContext) -> R) -> R {
    CTX.with(|c| {
        if c.borrow().is_none() {
            let mut cfg = ErgConfig::string("x = 1\n".to_string());
            cfg.output = Output::Null;
            let mut lowerer = ASTLowerer::new(cfg);
            let _ = lowerer.exec();
            *c.borrow_mut() = Some(lowerer.pop_mod_ctx().expect("no module context"));
        }
        f(c.borrow().as_ref().unwrap())
    })
}

fn sub(m: &ModuleContext, l: &Type, r: &Type) -> Sx {
    match catch_unwind(AssertUnwindSafe(|| m.context.subtype_of(l, r))) {
        Ok(b) => Sx::b(b),
        Err(_) => Sx::Z(2),
    }
}

fn matrix(ls: &[Type], rs: &[Type]) -> Sx {
    with_ctx(|m| Sx::L(ls.iter().map(|l| Sx::L(rs.iter().map(|r| sub(m, l, r)).collect())).collect()))
}

fn strs(v: &[String]) -> Sx {
    Sx::L(v.iter().map(|s| Sx::from_str_cp(s)).collect())
}

fn run(case: &Sx) -> Sx {
    match case.nth(0).z() {
        0 => with_ctx(|m| {
            Sx::L(
                m.context
                    .verif_class_table()
                    .iter()
                    .map(|(name, poly, class, tr, sc, st)| {
                        Sx::L(vec![Sx::from_str_cp(name), Sx::b(*poly), Sx::b(*class), Sx::b(*tr), strs(sc), strs(st)])
                    })
                    .collect(),
            )
        }),
        1 => {
            let ts: Vec<Type> = case.nth(1).l().iter().map(ty).collect();
            matrix(&ts, &ts)
        }
        2 => Sx::from_str_cp(&ty(case.nth(1)).to_string()),
        3 => {
            let ls: Vec<Type> = case.nth(1).l().iter().map(ty).collect();
            let rs: Vec<Type> = case.nth(2).l().iter().map(ty).collect();
            matrix(&ls, &rs)
        }
        _ => Sx::L(vec![Sx::Z(-1)]),
    }
}

fn main() {
    // the compiler recurses deeply in debug builds: run on a big stack like the erg binary does
    let h = std::thread::Builder::new()
        .stack_size(512 * 1024 * 1024)
        .spawn(|| sx::serve(run))
        .unwrap();
    h.join().unwrap();
}
