//! s-expression wire format shared with the extracted Coq models: integers and nested lists.
#[derive(Debug, Clone, PartialEq)]
pub enum Sx {
    Z(i128),
    B(String), // big integer kept as decimal text
    L(Vec<Sx>),
}

impl Sx {
    pub fn z(&self) -> i128 {
        match self {
            Sx::Z(z) => *z,
            Sx::B(s) => s.parse::<i128>().unwrap_or(0),
            _ => 0,
        }
    }
    pub fn l(&self) -> &[Sx] {
        match self {
            Sx::L(l) => l,
            _ => &[],
        }
    }
    pub fn nth(&self, i: usize) -> &Sx {
        &self.l()[i]
    }
    pub fn zs(&self) -> Vec<i128> {
        self.l().iter().map(|x| x.z()).collect()
    }
    pub fn string(&self) -> String {
        self.l()
            .iter()
            .map(|x| char::from_u32(x.z() as u32).unwrap_or('\u{fffd}'))
            .collect()
    }
    pub fn bytes(&self) -> Vec<u8> {
        self.l().iter().map(|x| x.z() as u8).collect()
    }
    pub fn from_str_cp(s: &str) -> Sx {
        Sx::L(s.chars().map(|c| Sx::Z(c as i128)).collect())
    }
    pub fn from_bytes(b: &[u8]) -> Sx {
        Sx::L(b.iter().map(|c| Sx::Z(*c as i128)).collect())
    }
    pub fn b(b: bool) -> Sx {
        Sx::Z(if b { 1 } else { 0 })
    }
    pub fn dump(&self, out: &mut String) {
        match self {
            Sx::Z(z) => out.push_str(&z.to_string()),
            Sx::B(s) => out.push_str(s),
            Sx::L(l) => {
                out.push('(');
                for (i, x) in l.iter().enumerate() {
                    if i > 0 {
                        out.push(' ');
                    }
                    x.dump(out);
                }
                out.push(')');
            }
        }
    }
    pub fn to_text(&self) -> String {
        let mut s = String::new();
        self.dump(&mut s);
        s
    }
}

pub fn parse(s: &str) -> Sx {
    let b = s.as_bytes();
    let mut pos = 0usize;
    fn rd(b: &[u8], pos: &mut usize) -> Sx {
        while *pos < b.len() && (b[*pos] == b' ' || b[*pos] == b'\t' || b[*pos] == b'\r') {
            *pos += 1;
        }
        if b[*pos] == b'(' {
            *pos += 1;
            let mut v = vec![];
            loop {
                while *pos < b.len() && (b[*pos] == b' ' || b[*pos] == b'\t') {
                    *pos += 1;
                }
                if b[*pos] == b')' {
                    *pos += 1;
                    break;
                }
                v.push(rd(b, pos));
            }
            Sx::L(v)
        } else {
            let st = *pos;
            if b[*pos] == b'-' {
                *pos += 1;
            }
            while *pos < b.len() && b[*pos].is_ascii_digit() {
                *pos += 1;
            }
            let t = std::str::from_utf8(&b[st..*pos]).unwrap();
            match t.parse::<i128>() {
                Ok(z) => Sx::Z(z),
                Err(_) => Sx::B(t.to_string()),
            }
        }
    }
    rd(b, &mut pos)
}

/// run `f` on every input line, print one output line each; a panic inside `f` is reported as (-999 <site>)
pub fn serve<F: Fn(&Sx) -> Sx + std::panic::RefUnwindSafe>(f: F) {
    use std::io::{BufRead, Write};
    std::panic::set_hook(Box::new(|_| {}));
    let stdin = std::io::stdin();
    let stdout = std::io::stdout();
    let mut out = stdout.lock();
    for line in stdin.lock().lines() {
        let line = line.unwrap();
        if line.trim().is_empty() {
            continue;
        }
        let x = parse(&line);
        let r = std::panic::catch_unwind(|| f(&x));
        let y = match r {
            Ok(y) => y,
            Err(e) => {
                let msg = if let Some(s) = e.downcast_ref::<String>() {
                    s.clone()
                } else if let Some(s) = e.downcast_ref::<&str>() {
                    s.to_string()
                } else {
                    "panic".to_string()
                };
                Sx::L(vec![Sx::Z(-999), Sx::from_str_cp(&msg)])
            }
        };
        writeln!(out, "{}", y.to_text()).unwrap();
    }
}
