//! C23: drive the real pipeline (lowering + SideEffectChecker, then OwnershipChecker) on a source text and dump
//!   * the lowered HIR abstracted to the mini-HIR of coq/Owner/Model.v (the tree the ownership checker walks)
//!   * the ownership checker's verdict: errors (kind, location, name, moved line, caused_by) in emission order, or its panic
//! case   = (src)            src = list of code points
//! output = (status errors hir panic module_name)
//!   status 0: no error; 1: ownership checker reported errors; 2: lowering / effect check failed (ownership checker did not
//!             run, as in the real pipeline); 3: no HIR (syntax error); 4: ownership checker panicked (message in `panic`)
//!   errors = ((kind loc name moved_line caused_by) ...)   kind = ErrorKind as integer (MoveError = 17)
//!   hir    = (expr ...)     see `expr` below for the encoding
#[allow(dead_code)]
#[path = "../../common/sx.rs"]
mod sx;
use sx::Sx;

use erg_common::config::ErgConfig;
use erg_common::error::Location;
use erg_common::traits::Locational;
use erg_compiler::error::CompileErrors;
use erg_compiler::hir::*;
use erg_compiler::ownercheck::OwnershipChecker;
use erg_compiler::ty::{HasType, ParamTy, SubrType, Type};
use erg_compiler::HIRBuilder;
use erg_parser::ast::ParamPattern;

fn z(i: i128) -> Sx {
    Sx::Z(i)
}
fn b(x: bool) -> Sx {
    Sx::b(x)
}
fn l(v: Vec<Sx>) -> Sx {
    Sx::L(v)
}
fn s(x: &str) -> Sx {
    Sx::from_str_cp(x)
}

/// one integer per location: Range -> lb*10^9 + cb*10^6 + le*10^3 + ce ; LineRange/Line negative ; Unknown 0
fn loc(lc: Location) -> Sx {
    match lc {
        Location::Range { ln_begin, col_begin, ln_end, col_end } => z((ln_begin as i128) * 1_000_000_000
            + (col_begin as i128 % 1000) * 1_000_000
            + (ln_end as i128 % 1000) * 1_000
            + (col_end as i128 % 1000)),
        Location::LineRange(a, b) => z(-((a as i128) * 1_000_000 + (b as i128) * 1000 + 1)),
        Location::Line(a) => z(-((a as i128) * 1_000_000 + 2)),
        Location::Unknown => z(0),
    }
}

fn block<'a, I: IntoIterator<Item = &'a Expr>>(bl: I) -> Sx {
    l(bl.into_iter().map(expr).collect())
}

fn opt(e: Option<&Expr>) -> Sx {
    l(e.into_iter().map(expr).collect())
}

fn pos(args: &Args) -> Sx {
    l(args.pos_args.iter().map(|a| expr(&a.expr)).collect())
}

/// the shape of a parameter type as `SubrType::args_ownership` / `Type::ownership` look at it (shallow match):
/// 0 `Ref(_)`, 1 `RefMut{..}`, 2 any other type with is_mut_type(), 3 any other type
fn pkind(t: &Type) -> i128 {
    match t {
        Type::Ref(_) => 0,
        Type::RefMut { .. } => 1,
        other => {
            if other.is_mut_type() {
                2
            } else {
                3
            }
        }
    }
}

fn pname(p: &ParamTy) -> Sx {
    match p.name() {
        Some(n) => l(vec![s(&n[..])]),
        None => l(vec![]),
    }
}

/// the type `Type::args_ownership` dispatches on; None = its `todo!()` arm
fn subr_of(t: &Type) -> Option<SubrType> {
    match t {
        Type::FreeVar(fv) if fv.is_linked() => subr_of(&fv.crack()),
        Type::Refinement(r) => subr_of(&r.t),
        Type::Subr(sb) => Some(sb.clone()),
        Type::Quantified(q) => subr_of(q),
        _ => None,
    }
}

/// () : signature_t is None or not a subroutine type (the checker returns without looking at the arguments)
/// (0): `args_ownership` would hit `todo!()`
/// (1 (is_method_call obj_is_class) non_defaults var_params defaults kw_var_params): param = ((name)? kind)
fn sig(c: &Call) -> Sx {
    let Some(t) = c.signature_t() else {
        return l(vec![]);
    };
    if !t.is_subr() {
        return l(vec![]);
    }
    let Some(sb) = subr_of(t) else {
        return l(vec![z(0)]);
    };
    let p = |p: &ParamTy| l(vec![pname(p), z(pkind(p.typ()))]);
    l(vec![
        z(1),
        // self is passed implicitly: a method signature, and the callee object is not a class (singleton refinement type)
        l(vec![b(c.is_method_call()), b(c.obj.ref_t().is_singleton_refinement_type())]),
        l(sb.non_default_params.iter().map(p).collect()),
        l(sb.var_params.iter().map(|x| p(x)).collect()),
        l(sb.default_params.iter().map(p).collect()),
        l(sb.kw_var_params.iter().map(|x| p(x)).collect()),
    ])
}

/// names the checker registers with `define_param` (only `ParamPattern::VarName`), in its order, then the default values
fn params(ps: &Params) -> Sx {
    let mut names = vec![];
    let mut push = |p: &NonDefaultParamSignature| {
        if let ParamPattern::VarName(n) = &p.raw.pat {
            names.push(s(&n.inspect()[..]));
        }
    };
    for p in ps.non_defaults.iter() {
        push(p);
    }
    if let Some(p) = ps.var_params.as_ref() {
        push(p);
    }
    for p in ps.defaults.iter() {
        push(&p.sig);
    }
    if let Some(p) = ps.kw_var_params.as_ref() {
        push(p);
    }
    // every name bound by the parameter list, whatever its pattern (for the Spec: what the subroutine binds)
    let mut bound = vec![];
    let mut all = |p: &NonDefaultParamSignature| {
        if let Some(n) = p.inspect() {
            bound.push(s(&n[..]));
        }
    };
    for p in ps.non_defaults.iter() {
        all(p);
    }
    if let Some(p) = ps.var_params.as_ref() {
        all(p);
    }
    for p in ps.defaults.iter() {
        all(&p.sig);
    }
    if let Some(p) = ps.kw_var_params.as_ref() {
        all(p);
    }
    l(vec![l(names), l(bound), l(ps.defaults.iter().map(|d| expr(&d.default_val)).collect())])
}

fn def(d: &Def) -> Sx {
    let (kind, ps) = match &d.sig {
        Signature::Var(_) => (0, l(vec![l(vec![]), l(vec![]), l(vec![])])),
        Signature::Subr(sb) => (1, params(&sb.params)),
        Signature::Glob(_) => (2, l(vec![l(vec![]), l(vec![]), l(vec![])])),
    };
    let name = match &d.sig {
        Signature::Var(v) => v.inspect().to_string(),
        Signature::Subr(sb) => sb.ident.inspect().to_string(),
        Signature::Glob(_) => "*".to_string(),
    };
    l(vec![loc(d.sig.loc()), z(kind), b(d.sig.vis().is_public()), s(&name), ps, block(d.body.block.iter())])
}

fn accessor(acc: &Accessor) -> Sx {
    match acc {
        Accessor::Ident(id) => l(vec![z(1), loc(id.loc()), s(&id.inspect()[..]), b(acc.ref_t().is_mut_type())]),
        Accessor::Attr(at) => l(vec![z(2), loc(acc.loc()), expr(&at.obj), s(&at.ident.inspect()[..])]),
    }
}

fn expr(e: &Expr) -> Sx {
    match e {
        Expr::Literal(_) => l(vec![z(0)]),
        Expr::Accessor(acc) => accessor(acc),
        Expr::Call(c) => l(vec![
            z(3),
            loc(e.loc()),
            expr(&c.obj),
            match c.attr_name.as_ref() {
                Some(n) => l(vec![s(&n.inspect()[..])]),
                None => l(vec![]),
            },
            sig(c),
            pos(&c.args),
            l(c.args.var_args.iter().map(|a| expr(&a.expr)).collect()),
            l(c.args.kw_args.iter().map(|a| l(vec![s(&a.keyword.inspect()[..]), expr(&a.expr)])).collect()),
            l(c.args.kw_var.iter().map(|a| expr(&a.expr)).collect()),
        ]),
        Expr::BinOp(bin) => l(vec![z(4), expr(&bin.lhs), expr(&bin.rhs)]),
        Expr::UnaryOp(u) => l(vec![z(5), expr(&u.expr)]),
        Expr::List(List::Normal(x)) => l(vec![z(6), pos(&x.elems)]),
        Expr::List(List::WithLength(x)) => l(vec![z(7), expr(&x.elem), opt(x.len.as_deref())]),
        Expr::List(List::Comprehension(x)) => l(vec![z(8), expr(&x.elem), expr(&x.guard)]),
        Expr::Tuple(Tuple::Normal(x)) => l(vec![z(9), pos(&x.elems)]),
        Expr::Set(Set::Normal(x)) => l(vec![z(10), pos(&x.elems)]),
        Expr::Set(Set::WithLength(x)) => l(vec![z(11), expr(&x.elem), expr(&x.len)]),
        Expr::Dict(Dict::Normal(x)) => l(vec![
            z(12),
            l(x.kvs.iter().map(|kv| l(vec![expr(&kv.key), expr(&kv.value)])).collect()),
        ]),
        Expr::Dict(_) => l(vec![z(13)]),
        Expr::Record(r) => l(vec![z(14), l(r.attrs.iter().map(|d| block(d.body.block.iter())).collect())]),
        // the name of the scope the checker opens for a lambda
        Expr::Lambda(lam) => l(vec![z(15), s(&format!("<lambda_{}>", lam.id)), params(&lam.params), block(lam.body.iter())]),
        Expr::Def(d) => l(vec![z(16), def(d)]),
        Expr::ClassDef(c) => l(vec![z(17), opt(c.require_or_sup.as_deref()), l(c.all_methods().map(expr).collect())]),
        Expr::PatchDef(p) => l(vec![z(18), expr(&p.base), block(p.methods.iter())]),
        Expr::TypeAsc(t) => l(vec![z(19), expr(&t.expr)]),
        Expr::ReDef(r) => l(vec![z(20), z(0), l(vec![accessor(&r.attr)]), block(r.block.iter())]),
        Expr::Code(bl) => l(vec![z(20), z(1), l(vec![]), block(bl.iter())]),
        Expr::Compound(bl) => l(vec![z(20), z(2), l(vec![]), block(bl.iter())]),
        Expr::Import(_) => l(vec![z(20), z(3), l(vec![]), l(vec![])]),
        Expr::Dummy(d) => l(vec![z(20), z(4), l(vec![]), l(d.iter().map(expr).collect())]),
    }
}

fn strip_ansi(m: &str) -> String {
    let mut out = String::new();
    let mut it = m.chars();
    while let Some(c) = it.next() {
        if c == '\u{1b}' {
            for d in it.by_ref() {
                if d == 'm' {
                    break;
                }
            }
        } else {
            out.push(c);
        }
    }
    out
}

fn errors(errs: &CompileErrors) -> Sx {
    let mut out = vec![];
    for e in errs.iter() {
        let m = strip_ansi(&e.core.main_message);
        // "<name> was moved in line <n>"
        let (name, line) = match m.split_once(" was moved in line ") {
            Some((n, ln)) => (n.to_string(), ln.trim().parse::<i128>().unwrap_or(-1)),
            None => (m.clone(), -1),
        };
        out.push(l(vec![z(e.core.kind as i128), loc(e.core.loc), s(&name), z(line), s(&e.caused_by)]));
    }
    l(out)
}

fn run(case: &Sx) -> Sx {
    let src = case.nth(0).string();
    let mut cfg = ErgConfig::string(src.clone());
    // the pipeline of `HIRBuilder::check` with its last stage taken out, so that the tree can be dumped before that stage runs
    cfg.ownership_check = false;
    let mut builder = HIRBuilder::new(cfg.clone());
    match builder.build(src, "exec") {
        Ok(art) => {
            let hir = art.object;
            let dump = block(hir.module.iter());
            let name = s(&hir.name[..]);
            cfg.ownership_check = true;
            let r = std::panic::catch_unwind(std::panic::AssertUnwindSafe(|| {
                let mut oc = OwnershipChecker::new(cfg);
                match oc.check(hir) {
                    Ok(_) => l(vec![]),
                    Err((_, errs)) => errors(&errs),
                }
            }));
            match r {
                Ok(es) => l(vec![z(if es.l().is_empty() { 0 } else { 1 }), es, dump, l(vec![]), name]),
                Err(e) => {
                    let msg = if let Some(s) = e.downcast_ref::<String>() {
                        s.clone()
                    } else if let Some(s) = e.downcast_ref::<&str>() {
                        s.to_string()
                    } else {
                        "panic".to_string()
                    };
                    l(vec![z(4), l(vec![]), dump, s(&msg), name])
                }
            }
        }
        Err(iart) => {
            let es = errors(&iart.errors);
            match &iart.object {
                Some(hir) => l(vec![z(2), es, block(hir.module.iter()), l(vec![]), s(&hir.name[..])]),
                None => l(vec![z(3), es, l(vec![]), l(vec![]), l(vec![])]),
            }
        }
    }
}

fn main() {
    sx::serve(run);
}
