//! C29 / C30: drive the real language server (els::Server, constructed exactly as els::Server::bind_fake_client does:
//! `Server::new(cfg{mode: LanguageServer}, Some(sender))`; the harness keeps the receiving end of the channel that
//! molc's FakeClient would hold, so that it can read every message the server sent without sleeping).
//!
//! case (1 hid autosave (notif ...))   C29 history on a long-lived server (one per `autosave` mode and process)
//!        -> ((rc (pub ...) deps ast hir_len) ...)   one entry per notification; rc 0 ok | 1 dispatch returned Err | -999 panic;
//!                                      pub = (doc (diag ...)) every textDocument/publishDiagnostics received since the
//!                                      previous notification, in order; doc = index in this history, -1 other file;
//!                                      deps = number of files Server::dependencies_of answers for the notification's
//!                                      document BEFORE the notification is handled; ast = the chunks of the cached
//!                                      AST of that document (Server::get_ast) afterwards, each printed, or -1;
//!                                      hir_len = number of chunks of the cached HIR (Server::get_hir) or -1
//!     notif = (0 doc ver text)          textDocument/didOpen
//!           | (1 doc ver (change ...))  textDocument/didChange; change = (0 text) | (1 sl sc el ec text)
//!           | (2 doc)                   textDocument/didSave
//!           | (3 quiet_ms max_ms)       no message: wait until the server has been silent for quiet_ms (at most max_ms)
//!     diag  = (sl sc el ec severity code message)
//!     autosave = 1: the client answers the server's workspace/configuration question about files.autoSave with
//!                   "afterDelay" (then the server does not poll the documents every 500 ms: only didOpen / didSave check)
//!              = 0: the question is left unanswered (what molc's FakeClient does): the polling thread runs
//! case (2 hid autosave (text ...) [nowait])   C29 reference: a NEW server (driven only after its start-up work is over,
//!                                      Flags::builtin_modules_loaded, unless nowait = 1); each text is opened as its own document
//!        -> ((rc (pub ...)) ...)       as above, one entry per text (doc = index of the text)
//! case (4 (text ...))               -> per text ((chunk_printed ln_begin col_begin) ...) of SimpleParser::parse, or -1
//! case (3 hid text new_name ((line col) ...))   C30: the text is written to disk and opened; one textDocument/rename
//!        request per position (the document is never changed: the server re-checks the same text after each rename)
//!        -> (open_rc (status (edit ...)) ...)  status 1 WorkspaceEdit | 0 null result | 2 error response | -999 panic
//!     edit = (same_file sl sc el ec new_text)
#[allow(dead_code)]
#[path = "../../common/sx.rs"]
mod sx;
use std::cell::RefCell;
use std::panic::{catch_unwind, AssertUnwindSafe};
use std::sync::mpsc::{channel, Receiver};
use std::time::{Duration, Instant};

use els::{NormalizedUrl, Server};
use erg_common::config::{ErgConfig, ErgMode};
use erg_common::traits::{Locational, Stream};
use erg_compiler::erg_parser::parse::{Parsable, SimpleParser};
use serde_json::{json, Value};
use sx::Sx;

static WS_DIR: std::sync::OnceLock<String> = std::sync::OnceLock::new();

/// workspace directory (ERGV_ELS_WS, so that concurrent runs do not share files)
fn ws() -> &'static str {
    WS_DIR.get_or_init(|| std::env::var("ERGV_ELS_WS").unwrap_or_else(|_| "/tmp/ergv-els-ws".to_string()))
}
const ASK_AUTO_SAVE_ID: i64 = 10001; // els::ASK_AUTO_SAVE_ID

struct Client {
    server: Server,
    rx: Receiver<Value>,
    next_id: i64,
}

thread_local! {
    static CLIENTS: RefCell<[Option<Client>; 2]> = RefCell::new([None, None]);
    static SERIAL: RefCell<u64> = RefCell::new(0);
}

/// `settled`: return only when the server's own start-up work is over: `Flags::builtin_modules_loaded` (the thread
/// CompletionCache::new starts analyses `pyimport "math"` ... into the shared module cache; a document that imports
/// such a module while that thread runs gets a spurious `no attribute` error). els' own tests wait for the same flag.
fn new_client_opt(autosave: bool, settled: bool) -> Client {
    let c = new_client_raw(autosave);
    if settled {
        let start = Instant::now();
        while !c.server.flags.builtin_modules_loaded() && start.elapsed() < Duration::from_secs(600) {
            std::thread::yield_now();
            std::thread::sleep(Duration::from_millis(5));
        }
    }
    c
}

fn new_client(autosave: bool) -> Client {
    new_client_opt(autosave, true)
}

fn new_client_raw(autosave: bool) -> Client {
    let (tx, rx) = channel();
    let cfg = ErgConfig {
        mode: ErgMode::LanguageServer,
        ..Default::default()
    };
    let mut server: Server = Server::new(cfg, Some(tx));
    // the capabilities molc's FakeClient announces that matter here: diagnostics are only published when
    // textDocument.publishDiagnostics is present
    let caps = json!({"textDocument": {
        "synchronization": {"didSave": true},
        "publishDiagnostics": {"relatedInformation": true},
        "rename": {"prepareSupport": true}}});
    server
        .dispatch(json!({"jsonrpc": "2.0", "id": 0, "method": "initialize", "params": {"capabilities": caps}}))
        .expect("initialize");
    server
        .dispatch(json!({"jsonrpc": "2.0", "method": "initialized", "params": {}}))
        .expect("initialized");
    if autosave {
        server
            .dispatch(json!({"jsonrpc": "2.0", "id": ASK_AUTO_SAVE_ID, "result": ["afterDelay"]}))
            .expect("configuration answer");
    }
    Client { server, rx, next_id: 1 }
}

fn path_of(tag: &str, hid: i128, doc: i128) -> String {
    format!("{}/{tag}{hid}_d{doc}.er", ws())
}

fn url_of(tag: &str, hid: i128, doc: i128) -> String {
    format!("file://{}", path_of(tag, hid, doc))
}

fn doc_of_uri(uri: &str, tag: &str, hid: i128) -> i128 {
    let prefix = format!("file://{}/{tag}{hid}_d", ws());
    uri.strip_prefix(&prefix)
        .and_then(|r| r.strip_suffix(".er"))
        .and_then(|d| d.parse::<i128>().ok())
        .unwrap_or(-1)
}

fn pos(l: i128, c: i128) -> Value {
    json!({"line": l as u64, "character": c as u64})
}

fn diag_sx(d: &Value) -> Sx {
    let r = &d["range"];
    let g = |v: &Value| v.as_i64().unwrap_or(-1) as i128;
    let code = match &d["code"] {
        Value::String(s) => s.clone(),
        Value::Number(n) => n.to_string(),
        _ => String::new(),
    };
    Sx::L(vec![
        Sx::Z(g(&r["start"]["line"])),
        Sx::Z(g(&r["start"]["character"])),
        Sx::Z(g(&r["end"]["line"])),
        Sx::Z(g(&r["end"]["character"])),
        Sx::Z(g(&d["severity"])),
        Sx::from_str_cp(&code),
        Sx::from_str_cp(d["message"].as_str().unwrap_or("")),
    ])
}

/// every publishDiagnostics among `msgs`
fn pubs_of(msgs: &[Value], tag: &str, hid: i128) -> Sx {
    let mut out = vec![];
    for m in msgs {
        if m["method"].as_str() == Some("textDocument/publishDiagnostics") {
            let uri = m["params"]["uri"].as_str().unwrap_or("");
            let diags: Vec<Sx> = m["params"]["diagnostics"]
                .as_array()
                .map(|a| a.iter().map(diag_sx).collect())
                .unwrap_or_default();
            out.push(Sx::L(vec![Sx::Z(doc_of_uri(uri, tag, hid)), Sx::L(diags)]));
        }
    }
    Sx::L(out)
}

fn drain(rx: &Receiver<Value>) -> Vec<Value> {
    let mut v = vec![];
    while let Ok(m) = rx.try_recv() {
        v.push(m);
    }
    v
}

fn settle(rx: &Receiver<Value>, quiet_ms: u64, max_ms: u64) -> Vec<Value> {
    let mut v = vec![];
    let start = Instant::now();
    let mut last = Instant::now();
    loop {
        match rx.recv_timeout(Duration::from_millis(10)) {
            Ok(m) => {
                // log lines of the polling threads do not count as activity
                if m["method"].as_str() != Some("window/logMessage") {
                    last = Instant::now();
                }
                v.push(m);
            }
            Err(_) => {}
        }
        if last.elapsed() >= Duration::from_millis(quiet_ms) || start.elapsed() >= Duration::from_millis(max_ms) {
            break;
        }
    }
    v
}

fn notif_json(tag: &str, hid: i128, n: &Sx) -> Value {
    let doc = n.nth(1).z();
    match n.nth(0).z() {
        0 => json!({"jsonrpc": "2.0", "method": "textDocument/didOpen", "params": {
            "textDocument": {"uri": url_of(tag, hid, doc), "languageId": "erg", "version": n.nth(2).z() as i64, "text": n.nth(3).string()}}}),
        1 => {
            let changes: Vec<Value> = n
                .nth(3)
                .l()
                .iter()
                .map(|c| {
                    if c.nth(0).z() == 0 {
                        json!({"text": c.nth(1).string()})
                    } else {
                        json!({"range": {"start": pos(c.nth(1).z(), c.nth(2).z()), "end": pos(c.nth(3).z(), c.nth(4).z())},
                               "text": c.nth(5).string()})
                    }
                })
                .collect();
            json!({"jsonrpc": "2.0", "method": "textDocument/didChange", "params": {
                "textDocument": {"uri": url_of(tag, hid, doc), "version": n.nth(2).z() as i64}, "contentChanges": changes}})
        }
        _ => json!({"jsonrpc": "2.0", "method": "textDocument/didSave", "params": {
            "textDocument": {"uri": url_of(tag, hid, doc)}}}),
    }
}

fn panic_text(e: Box<dyn std::any::Any + Send>) -> String {
    if let Some(s) = e.downcast_ref::<String>() {
        s.clone()
    } else if let Some(s) = e.downcast_ref::<&str>() {
        s.to_string()
    } else {
        "panic".to_string()
    }
}

/// the cached AST (chunks printed) and the number of cached HIR chunks of a document
fn observe_cache(server: &Server, url: &str) -> (Sx, Sx) {
    let Ok(uri) = NormalizedUrl::parse(url) else {
        return (Sx::Z(-1), Sx::Z(-1));
    };
    let ast = match server.get_ast(&uri) {
        Some(m) => Sx::L(m.iter().map(|e| Sx::from_str_cp(&format!("{e}"))).collect()),
        None => Sx::Z(-1),
    };
    let hir = match server.get_hir(&uri) {
        Some(h) => Sx::Z(h.module.iter().count() as i128),
        None => Sx::Z(-1),
    };
    (ast, hir)
}

/// `observe`: also read dependencies_of / get_ast / get_hir around every notification (only when no other thread of
/// the server is analysing: these reads take the server's locks, which time out and panic after 4 s)
fn run_notifs(client: &mut Client, tag: &str, hid: i128, notifs: &[Sx], observe: bool) -> Sx {
    let mut out = vec![];
    for n in notifs {
        if n.nth(0).z() == 3 {
            let msgs = settle(&client.rx, n.nth(1).z() as u64, n.nth(2).z() as u64);
            out.push(Sx::L(vec![Sx::Z(0), pubs_of(&msgs, tag, hid), Sx::Z(-1), Sx::Z(-1), Sx::Z(-1)]));
            continue;
        }
        let url = url_of(tag, hid, n.nth(1).z());
        let deps = if observe {
            NormalizedUrl::parse(&url)
                .map(|u| client.server.dependencies_of(&u).len() as i128)
                .unwrap_or(-1)
        } else {
            -1
        };
        let msg = notif_json(tag, hid, n);
        let r = catch_unwind(AssertUnwindSafe(|| client.server.dispatch(msg).is_ok()));
        let msgs = drain(&client.rx);
        match r {
            Ok(ok) => {
                let (ast, hir) = if observe {
                    observe_cache(&client.server, &url)
                } else {
                    (Sx::Z(-1), Sx::Z(-1))
                };
                out.push(Sx::L(vec![Sx::Z(if ok { 0 } else { 1 }), pubs_of(&msgs, tag, hid), Sx::Z(deps), ast, hir]))
            }
            Err(e) => {
                out.push(Sx::L(vec![Sx::Z(-999), pubs_of(&msgs, tag, hid), Sx::Z(deps), Sx::from_str_cp(&panic_text(e))]));
                break;
            }
        }
    }
    Sx::L(out)
}

fn parse_texts(case: &Sx) -> Sx {
    Sx::L(
        case.nth(1)
            .l()
            .iter()
            .map(|t| match SimpleParser::parse(t.string()) {
                Ok(art) => Sx::L(
                    art.ast
                        .iter()
                        .map(|e| {
                            Sx::L(vec![
                                Sx::from_str_cp(&format!("{e}")),
                                Sx::Z(e.ln_begin().map(|x| x as i128).unwrap_or(-1)),
                                Sx::Z(e.col_begin().map(|x| x as i128).unwrap_or(-1)),
                            ])
                        })
                        .collect(),
                ),
                Err(_) => Sx::Z(-1),
            })
            .collect(),
    )
}

fn history(case: &Sx) -> Sx {
    let hid = case.nth(1).z();
    let autosave = case.nth(2).z() != 0;
    CLIENTS.with(|cell| {
        let mut slots = cell.borrow_mut();
        let k = autosave as usize;
        if slots[k].is_none() {
            slots[k] = Some(new_client(autosave));
        }
        let r = run_notifs(slots[k].as_mut().unwrap(), "h", hid, case.nth(3).l(), autosave);
        // a panic may leave the shared compiler state locked or half-updated: start over with a new server
        if r.l().iter().any(|s| s.nth(0).z() == -999) {
            slots[k] = None;
        }
        r
    })
}

fn fresh(case: &Sx) -> Sx {
    let hid = case.nth(1).z();
    let autosave = case.nth(2).z() != 0;
    // optional 5th element 1: do not wait for the server's start-up work (probe of the start-up race)
    let settled = !(case.l().len() > 4 && case.nth(4).z() == 1);
    let mut client = new_client_opt(autosave, settled);
    let mut out = vec![];
    for (i, t) in case.nth(3).l().iter().enumerate() {
        let n = Sx::L(vec![Sx::Z(0), Sx::Z(i as i128), Sx::Z(1), t.clone()]);
        let r = run_notifs(&mut client, "f", hid, &[n], false);
        out.push(r.nth(0).clone());
        if r.nth(0).nth(0).z() == -999 {
            // the analysis of this text panicked: the remaining texts get a new server
            std::mem::forget(std::mem::replace(&mut client, new_client(autosave)));
        }
    }
    // the server's worker threads hold clones of it: they stay parked on their channels; nothing to join
    std::mem::forget(client);
    Sx::L(out)
}

fn rename(case: &Sx) -> Sx {
    let serial = SERIAL.with(|s| {
        *s.borrow_mut() += 1;
        *s.borrow()
    });
    let hid = case.nth(1).z();
    let text = case.nth(2).string();
    let new_name = case.nth(3).string();
    let path = path_of("r", hid, 0);
    let url = url_of("r", hid, 0);
    std::fs::write(&path, &text).expect("write program");
    CLIENTS.with(|cell| {
        let mut slots = cell.borrow_mut();
        if slots[1].is_none() {
            slots[1] = Some(new_client(true));
        }
        let client = slots[1].as_mut().unwrap();
        let open = Sx::L(vec![Sx::Z(0), Sx::Z(0), Sx::Z(serial as i128), case.nth(2).clone()]);
        let r = run_notifs(client, "r", hid, &[open], false);
        let mut out = vec![r.nth(0).nth(0).clone()];
        if r.nth(0).nth(0).z() == -999 {
            slots[1] = None;
            return Sx::L(out);
        }
        for p in case.nth(4).l() {
            let id = client.next_id;
            client.next_id += 1;
            let msg = json!({"jsonrpc": "2.0", "id": id, "method": "textDocument/rename", "params": {
                "textDocument": {"uri": url}, "position": pos(p.nth(0).z(), p.nth(1).z()), "newName": new_name}});
            // Server::rename waits (20 x 50 ms) for the modification time of the edited files to change before it
            // re-checks them: play the editor that writes the file back
            let (p2, t2) = (path.clone(), text.clone());
            let toucher = std::thread::spawn(move || {
                for _ in 0..4 {
                    std::thread::sleep(Duration::from_millis(15));
                    let _ = std::fs::write(&p2, &t2);
                }
            });
            let r = catch_unwind(AssertUnwindSafe(|| client.server.dispatch(msg).is_ok()));
            let _ = toucher.join();
            let msgs = drain(&client.rx);
            // Server::rename drops the module of every edited file and (because the files are still marked as being
            // edited) does not analyse them again: the editor's didSave after it has applied the edit does that.
            // The text is left as it was, so that every position of the same program can be asked.
            let save = json!({"jsonrpc": "2.0", "method": "textDocument/didSave", "params": {"textDocument": {"uri": url}}});
            let r = match r {
                Ok(ok) => catch_unwind(AssertUnwindSafe(|| client.server.dispatch(save).is_ok())).map(|_| ok),
                Err(e) => Err(e),
            };
            let _ = drain(&client.rx);
            if r.is_err() {
                out.push(Sx::L(vec![Sx::Z(-999), Sx::L(vec![])]));
                slots[1] = None;
                break;
            }
            let resp = msgs.iter().find(|m| m["id"].as_i64() == Some(id) && m.get("method").is_none());
            let item = match resp {
                Some(m) if m.get("error").is_some() => Sx::L(vec![Sx::Z(2), Sx::L(vec![])]),
                Some(m) if m["result"].is_null() => Sx::L(vec![Sx::Z(0), Sx::L(vec![])]),
                Some(m) => {
                    let mut edits = vec![];
                    if let Some(changes) = m["result"]["changes"].as_object() {
                        for (u, es) in changes {
                            let same = (u == &url) as i128;
                            for e in es.as_array().map(|a| a.as_slice()).unwrap_or(&[]) {
                                let g = |v: &Value| v.as_i64().unwrap_or(-1) as i128;
                                let r = &e["range"];
                                edits.push(Sx::L(vec![
                                    Sx::Z(same),
                                    Sx::Z(g(&r["start"]["line"])),
                                    Sx::Z(g(&r["start"]["character"])),
                                    Sx::Z(g(&r["end"]["line"])),
                                    Sx::Z(g(&r["end"]["character"])),
                                    Sx::from_str_cp(e["newText"].as_str().unwrap_or("")),
                                ]));
                            }
                        }
                    }
                    Sx::L(vec![Sx::Z(1), Sx::L(edits)])
                }
                None => Sx::L(vec![Sx::Z(2), Sx::L(vec![])]),
            };
            out.push(item);
        }
        Sx::L(out)
    })
}

fn run(case: &Sx) -> Sx {
    match case.nth(0).z() {
        1 => history(case),
        2 => fresh(case),
        4 => parse_texts(case),
        _ => rename(case),
    }
}

fn main() {
    std::fs::create_dir_all(ws()).expect("workspace dir");
    std::env::set_current_dir(ws()).expect("chdir");
    sx::serve(run);
}
