//! C10: drive the real lexer + parser (erg_parser) on whole programs and dump the syntax tree with every source
//! position erased.
//! modes (first element of the case):
//!   (0 text)  -> (status nerr hash len det)     `<Parser as Parsable>::parse(text)` (Lexer::lex + Parser::parse)
//!                  status 0 = parsed, 1 = lex/parse error(s) but a module came back, 2 = error(s) and no module
//!                  hash/len: FNV-1a hash and length of the position-erased dump (of the error count when status = 2)
//!                  det = 1 when parsing the same text a second time gives the same erased dump and error count
//!   (1 text)  -> (status nerr dump)             the position-erased dump itself (code points)
//!   (2 text)  -> (lexflag (tok ...))            tokens of Lexer::from_str(text) in iterator order:
//!                  tok = (kind category content lineno col_begin col_end); lexflag = number of lex errors
//!   (3 text)  -> like (0 ..) with SimpleParser::parse (parser + desugarer)
//! The dump is `format!("{:?}", module)` (derived Debug of the whole AST: every node, token kind and content) with
//! the digits after `lineno:`, `col_begin:`, `col_end:`, `ln_begin:`, `ln_end:`, `LineRange(`, `Line(`, `DefId(`
//! replaced by `_`: exactly the fields `Token: PartialEq` ignores, the Locations stored beside tokens, and the
//! running definition counter.
#[allow(dead_code)]
#[path = "../../common/sx.rs"]
mod sx;
use sx::Sx;

use erg_common::traits::Stream;

use erg_parser::ast::Module;
use erg_parser::lex::Lexer;
use erg_parser::parse::{Parsable, SimpleParser};
use erg_parser::Parser;

const KEYS: [&str; 8] = [
    "lineno: ",
    "col_begin: ",
    "col_end: ",
    "ln_begin: ",
    "ln_end: ",
    "LineRange(",
    "Line(",
    "DefId(",
];

fn erase(s: &str) -> String {
    let b = s.as_bytes();
    let mut out: Vec<u8> = Vec::with_capacity(b.len());
    let mut i = 0;
    'outer: while i < b.len() {
        for k in KEYS.iter() {
            let kb = k.as_bytes();
            if b[i..].starts_with(kb) {
                out.extend_from_slice(kb);
                i += kb.len();
                out.push(b'_');
                // digits, and for LineRange the second number
                while i < b.len() && (b[i].is_ascii_digit() || (*k == "LineRange(" && (b[i] == b',' || b[i] == b' '))) {
                    i += 1;
                }
                continue 'outer;
            }
        }
        out.push(b[i]);
        i += 1;
    }
    String::from_utf8(out).unwrap_or_default()
}

fn fnv(s: &str) -> u64 {
    let mut h: u64 = 0xcbf29ce484222325;
    for b in s.as_bytes() {
        h ^= *b as u64;
        h = h.wrapping_mul(0x100000001b3);
    }
    h
}

/// (status, nerr, erased dump)
fn parse(text: &str, simple: bool) -> (i128, usize, String) {
    let r = if simple {
        SimpleParser::parse(text.to_string())
    } else {
        <Parser as Parsable>::parse(text.to_string())
    };
    match r {
        Ok(art) => {
            let m: &Module = &art.ast;
            (0, 0, erase(&format!("{m:?}")))
        }
        Err(iart) => match &iart.ast {
            Some(m) => (1, iart.errors.len(), erase(&format!("{m:?}"))),
            None => (2, iart.errors.len(), format!("errors:{}", iart.errors.len())),
        },
    }
}

fn run(case: &Sx) -> Sx {
    let mode = case.nth(0).z();
    match mode {
        0 | 3 => {
            let text = case.nth(1).string();
            let (st, n, d) = parse(&text, mode == 3);
            let (st2, n2, d2) = parse(&text, mode == 3);
            let det = st == st2 && n == n2 && d == d2;
            Sx::L(vec![
                Sx::Z(st),
                Sx::Z(n as i128),
                Sx::Z(fnv(&d) as i128),
                Sx::Z(d.len() as i128),
                Sx::b(det),
            ])
        }
        1 => {
            let text = case.nth(1).string();
            let (st, n, d) = parse(&text, false);
            Sx::L(vec![Sx::Z(st), Sx::Z(n as i128), Sx::from_str_cp(&d)])
        }
        2 => {
            let text = case.nth(1).string();
            let mut toks = vec![];
            let mut nerr = 0;
            for it in Lexer::from_str(text) {
                match it {
                    Ok(t) => toks.push(Sx::L(vec![
                        Sx::Z(t.kind as u8 as i128),
                        Sx::Z(t.kind.category() as u8 as i128),
                        Sx::from_str_cp(&t.content),
                        Sx::Z(t.lineno as i128),
                        Sx::Z(t.col_begin as i128),
                        Sx::Z(t.col_end as i128),
                    ])),
                    Err(_) => nerr += 1,
                }
            }
            Sx::L(vec![Sx::Z(nerr), Sx::L(toks)])
        }
        _ => Sx::Z(-1),
    }
}

fn main() {
    let child = std::thread::Builder::new()
        .stack_size(512 * 1024 * 1024)
        .spawn(|| sx::serve(run))
        .unwrap();
    child.join().unwrap();
}
