//! C31: drive erg_common::pathutil::NormalizedPathBuf / cheap_canonicalize_path / normalize_path and
//! std::path (components, PathBuf::push/pop) on path strings given as lists of code points.
//!
//! (0 path)       -> (cs comps(path) cheap_canonicalize_path(path) N(path) comps(N(path)) N(N(path)) normalize_path(path))
//!                   where N = NormalizedPathBuf::new, cs = erg_common::consts::CASE_SENSITIVE (set by build.rs)
//! (1 p q)        -> (N(p)==N(q)  hash(N(p))==hash(N(q)))
//! (2 start ops)  -> PathBuf::from(start), then per op (0 s)=push(s) | (1)=pop(): ((string popped) ...)
//! (3 path)       -> the `!CASE_SENSITIVE` arm of normalize_path transcribed here (the constant cannot be switched
//!                   without another build environment): validates the model's to_lower against str::to_lowercase
//! components: (0) RootDir | (1) CurDir | (2) ParentDir | (3 name) Normal | (4) Prefix
#[allow(dead_code)]
#[path = "../../common/sx.rs"]
mod sx;
use erg_common::consts::CASE_SENSITIVE;
use erg_common::pathutil::NormalizedPathBuf;
use erg_common::{cheap_canonicalize_path, normalize_path};
use std::collections::hash_map::DefaultHasher;
use std::hash::{Hash, Hasher};
use std::path::{Component, Path, PathBuf};
use sx::Sx;

fn s_of(p: &Path) -> Sx {
    Sx::from_str_cp(&p.to_string_lossy())
}

fn comps(p: &Path) -> Sx {
    Sx::L(p
        .components()
        .map(|c| match c {
            Component::RootDir => Sx::L(vec![Sx::Z(0)]),
            Component::CurDir => Sx::L(vec![Sx::Z(1)]),
            Component::ParentDir => Sx::L(vec![Sx::Z(2)]),
            Component::Normal(s) => Sx::L(vec![Sx::Z(3), Sx::from_str_cp(&s.to_string_lossy())]),
            Component::Prefix(_) => Sx::L(vec![Sx::Z(4)]),
        })
        .collect())
}

fn hash_of(n: &NormalizedPathBuf) -> u64 {
    let mut h = DefaultHasher::new();
    n.hash(&mut h);
    h.finish()
}

fn run(case: &Sx) -> Sx {
    match case.nth(0).z() {
        0 => {
            let p = PathBuf::from(case.nth(1).string());
            let n = NormalizedPathBuf::new(p.clone());
            let nn = NormalizedPathBuf::new(n.to_path_buf());
            Sx::L(vec![
                Sx::b(CASE_SENSITIVE),
                comps(&p),
                s_of(&cheap_canonicalize_path(&p)),
                s_of(n.as_path()),
                comps(n.as_path()),
                s_of(nn.as_path()),
                s_of(&normalize_path(p.clone())),
            ])
        }
        1 => {
            let p = NormalizedPathBuf::new(PathBuf::from(case.nth(1).string()));
            let q = NormalizedPathBuf::new(PathBuf::from(case.nth(2).string()));
            Sx::L(vec![Sx::b(p == q), Sx::b(hash_of(&p) == hash_of(&q))])
        }
        2 => {
            let mut b = PathBuf::from(case.nth(1).string());
            let mut out = vec![];
            for op in case.nth(2).l() {
                let popped = if op.nth(0).z() == 0 {
                    b.push(op.nth(1).string());
                    false
                } else {
                    b.pop()
                };
                out.push(Sx::L(vec![s_of(&b), Sx::b(popped)]));
            }
            Sx::L(out)
        }
        _ => {
            let p = PathBuf::from(case.nth(1).string());
            let c = cheap_canonicalize_path(&p);
            let lower = c.to_string_lossy().replace("\\\\?\\", "").to_lowercase();
            s_of(&PathBuf::from(lower))
        }
    }
}

fn main() {
    sx::serve(run);
}
