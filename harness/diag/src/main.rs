//! C24: drive the real compiler front end (HIRBuilder: lexer, parser, lowerer) on a source text and dump every
//! diagnostic (errors and warnings) with its location and its rendering; drive the real renderer and the real
//! location calculus on arbitrary locations.
//! modes (first element of the case):
//!   (0 text)                    -> (status (diag ...))   status 0 = no error, 1 = errors
//!        diag = (is_warning errkind errno main_message core_loc (sub_loc ...) rendered)
//!        loc  = (0 lb cb le ce) | (1 lb le) | (2 l) | (3)
//!        rendered = (0 cps-of-show() display_ok) | (1 cps-of-panic-message)       (rendering under catch_unwind;
//!                   display_ok = 1 when `to_string()` (fmt::Display) did not panic either)
//!   (1 input_kind text loc nsub hint) -> rendered         render an error carrying `loc` over `text`
//!        input_kind 0 = Input::str (InputKind::Str), 1 = a file on disk (InputKind::File)
//!   (2 loc loc)                 -> loc                    Location::concat
//!   (3 (loc ...))               -> loc                    Location::stream
//!   (4 (loc ...))               -> loc                    Location::slow_stream
//!   (5 loc loc)                 -> loc                    Location::left_main_concat
#[allow(dead_code)]
#[path = "../../common/sx.rs"]
mod sx;
use sx::Sx;

use erg_common::config::ErgConfig;
use erg_common::error::{ErrorCore, ErrorDisplay, ErrorKind, Location, SubMessage};
use erg_common::io::Input;
use erg_common::traits::Stream;
use erg_compiler::error::{CompileError, CompileErrors};
use erg_compiler::HIRBuilder;

fn z(i: i128) -> Sx {
    Sx::Z(i)
}
fn l(v: Vec<Sx>) -> Sx {
    Sx::L(v)
}

fn loc(lc: Location) -> Sx {
    match lc {
        Location::Range {
            ln_begin,
            col_begin,
            ln_end,
            col_end,
        } => l(vec![
            z(0),
            z(ln_begin as i128),
            z(col_begin as i128),
            z(ln_end as i128),
            z(col_end as i128),
        ]),
        Location::LineRange(a, b) => l(vec![z(1), z(a as i128), z(b as i128)]),
        Location::Line(a) => l(vec![z(2), z(a as i128)]),
        Location::Unknown => l(vec![z(3)]),
    }
}

fn unloc(x: &Sx) -> Location {
    let u = |i: usize| x.nth(i).z() as u32;
    match x.nth(0).z() {
        0 => Location::range(u(1), u(2), u(3), u(4)),
        1 => Location::LineRange(u(1), u(2)),
        2 => Location::Line(u(1)),
        _ => Location::Unknown,
    }
}

fn panic_msg(e: Box<dyn std::any::Any + Send>) -> String {
    if let Some(s) = e.downcast_ref::<String>() {
        s.clone()
    } else if let Some(s) = e.downcast_ref::<&str>() {
        s.to_string()
    } else {
        "panic".to_string()
    }
}

fn render(e: &CompileError) -> Sx {
    let shown = std::panic::catch_unwind(std::panic::AssertUnwindSafe(|| e.show()));
    match shown {
        Ok(s) => {
            let disp = std::panic::catch_unwind(std::panic::AssertUnwindSafe(|| e.to_string()));
            l(vec![z(0), Sx::from_str_cp(&s), Sx::b(disp.is_ok())])
        }
        Err(p) => l(vec![z(1), Sx::from_str_cp(&panic_msg(p))]),
    }
}

fn diags(es: &CompileErrors, warn: bool, out: &mut Vec<Sx>) {
    for e in es.iter() {
        let core: &ErrorCore = &e.core;
        out.push(l(vec![
            Sx::b(warn),
            z(core.kind as u8 as i128),
            z(core.errno as i128),
            Sx::from_str_cp(&core.main_message),
            loc(core.loc),
            l(core.sub_messages.iter().map(|s| loc(s.loc)).collect()),
            render(e),
        ]));
    }
}

fn run(case: &Sx) -> Sx {
    match case.nth(0).z() {
        0 => {
            let src = case.nth(1).string();
            let cfg = ErgConfig::string(src.clone());
            let mut builder = HIRBuilder::new(cfg);
            let mut out = vec![];
            match builder.build(src, "exec") {
                Ok(art) => {
                    diags(&art.warns, true, &mut out);
                    l(vec![z(0), l(out)])
                }
                Err(iart) => {
                    diags(&iart.errors, false, &mut out);
                    diags(&iart.warns, true, &mut out);
                    l(vec![z(1), l(out)])
                }
            }
        }
        1 => {
            let kind = case.nth(1).z();
            let text = case.nth(2).string();
            let lc = unloc(case.nth(3));
            let nsub = case.nth(4).z();
            let hint = case.nth(5).z() != 0;
            let msgs: Vec<String> = (0..nsub).map(|i| format!("sub{i}")).collect();
            let sub = SubMessage::ambiguous_new(lc, msgs, if hint { Some("hint".to_string()) } else { None });
            let core = ErrorCore::new(vec![sub], "main message", 0, ErrorKind::NameError, lc);
            let mut tmp = None;
            let input = if kind == 0 {
                Input::str(text)
            } else {
                // a fresh name per case: the VFS caches file contents by path
                static N: std::sync::atomic::AtomicUsize = std::sync::atomic::AtomicUsize::new(0);
                let n = N.fetch_add(1, std::sync::atomic::Ordering::SeqCst);
                let p = std::env::temp_dir().join(format!("ergv-diag-{}-{}.er", std::process::id(), n));
                std::fs::write(&p, text.as_bytes()).unwrap();
                tmp = Some(p.clone());
                Input::file(p)
            };
            let e = CompileError::new(core, input, "<module>".to_string());
            let r = render(&e);
            if let Some(p) = tmp {
                let _ = std::fs::remove_file(p);
            }
            r
        }
        2 => loc(Location::concat(&unloc(case.nth(1)), &unloc(case.nth(2)))),
        3 => {
            let ls: Vec<Location> = case.nth(1).l().iter().map(unloc).collect();
            loc(Location::stream(&ls))
        }
        4 => {
            let ls: Vec<Location> = case.nth(1).l().iter().map(unloc).collect();
            loc(Location::slow_stream(&ls))
        }
        5 => loc(Location::left_main_concat(&unloc(case.nth(1)), &unloc(case.nth(2)))),
        _ => z(-1),
    }
}

fn main() {
    // the lowerer recurses deeply in debug builds: run on a big stack like the erg binary does
    let child = std::thread::Builder::new()
        .stack_size(256 * 1024 * 1024)
        .spawn(|| sx::serve(run))
        .unwrap();
    child.join().unwrap();
}
