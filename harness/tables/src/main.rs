//! C16 / C27: table dumps from the real crates (second path beside the python translators) and
//! the .d.er declaration translator (real parser).
//! cases:
//!   (0)                 -> ((enum_id n name)...) for every byte n each enum's TryFrom<u8> accepts, enum_id 0=CommonOpcode
//!                          8=Opcode308 9=Opcode309 10=Opcode310 11=Opcode311;   followed by (99 n) for every n with is_jump_op(n)
//!   (1 lo hi)           -> ((m minor_or_-1 b0 b1 b2 b3 back)...) get_ver_from_magic_num(m) (panic -> -1), get_magic_num_bytes(m),
//!                          get_magic_num_from_bytes of those bytes
//!   (2 minor idx arg)   -> ((op result_or_-1)...) jump_abs_addr(minor, op, idx, arg) for op in 0..=255
//!   (3 path)            -> declaration records of one .d.er file (see `decls`)
//!   (6 (path...))       -> compiler_decls: declarations as loaded by the real compiler (see fn compiler_decls)
//!   (5)                 -> magic_runs over the whole u16 domain (see fn magic_runs)
//!   (4 minor src)       -> (0 (distinct opcode bytes at even offsets of all code objects)) | (1 msg) on compile error
#[allow(dead_code)]
#[path = "../../common/sx.rs"]
mod sx;
use std::panic::{catch_unwind, AssertUnwindSafe};

use erg_common::config::ErgConfig;
use erg_common::opcode::CommonOpcode;
use erg_common::opcode308::Opcode308;
use erg_common::opcode309::Opcode309;
use erg_common::opcode310::Opcode310;
use erg_common::opcode311::Opcode311;
use erg_common::python_util::PythonVersion;
use erg_common::serialize::{get_magic_num_bytes, get_magic_num_from_bytes, get_ver_from_magic_num};
use erg_common::traits::{Locational, Stream};
use erg_compiler::ty::codeobj::{jump_abs_addr, CodeObj};
use erg_compiler::ty::value::ValueObj;
use erg_parser::ast::{Accessor, AscriptionKind, Expr, Signature, VarPattern};
use erg_parser::build_ast::ASTBuilder;
use sx::Sx;

fn z(i: i128) -> Sx {
    Sx::Z(i)
}

fn tables() -> Sx {
    let mut out = vec![];
    for n in 0..=255u8 {
        if let Ok(o) = CommonOpcode::try_from(n) {
            out.push(Sx::L(vec![z(0), z(n as i128), Sx::from_str_cp(&format!("{o:?}")), z(o as u8 as i128)]));
        }
        if let Ok(o) = Opcode308::try_from(n) {
            out.push(Sx::L(vec![z(8), z(n as i128), Sx::from_str_cp(&format!("{o:?}")), z(o as u8 as i128)]));
        }
        if let Ok(o) = Opcode309::try_from(n) {
            out.push(Sx::L(vec![z(9), z(n as i128), Sx::from_str_cp(&format!("{o:?}")), z(o as u8 as i128)]));
        }
        if let Ok(o) = Opcode310::try_from(n) {
            out.push(Sx::L(vec![z(10), z(n as i128), Sx::from_str_cp(&format!("{o:?}")), z(o as u8 as i128)]));
        }
        if let Ok(o) = Opcode311::try_from(n) {
            out.push(Sx::L(vec![z(11), z(n as i128), Sx::from_str_cp(&format!("{o:?}")), z(o as u8 as i128)]));
        }
    }
    for n in 0..=255u8 {
        if CommonOpcode::is_jump_op(n) {
            out.push(Sx::L(vec![z(99), z(n as i128)]));
        }
    }
    Sx::L(out)
}

fn magic(lo: u32, hi: u32) -> Sx {
    let mut out = vec![];
    for m in lo..=hi {
        let v = catch_unwind(|| get_ver_from_magic_num(m));
        let minor = match v {
            Ok(v) if v.major == 3 => v.minor.map(|x| x as i128).unwrap_or(-2),
            Ok(_) => -3,
            Err(_) => -1,
        };
        let b = get_magic_num_bytes(m);
        let back = get_magic_num_from_bytes(&b);
        out.push(Sx::L(vec![
            z(m as i128),
            z(minor),
            z(b[0] as i128),
            z(b[1] as i128),
            z(b[2] as i128),
            z(b[3] as i128),
            z(back as i128),
        ]));
    }
    Sx::L(out)
}

/// whole u16 domain (the magic number erg keeps is built from two bytes):
/// ((prefix bad_bytes bad_back) (lo hi major minor)...) maximal runs of magic numbers get_ver_from_magic_num maps to one version;
/// prefix = u32 of get_magic_num_bytes(0); bad_bytes = #m with get_magic_num_bytes(m) != (prefix | m).to_le_bytes();
/// bad_back = #m with get_magic_num_from_bytes(get_magic_num_bytes(m)) != m
fn magic_runs() -> Sx {
    let prefix = u32::from_le_bytes(get_magic_num_bytes(0));
    let (mut bad_bytes, mut bad_back) = (0i128, 0i128);
    let mut runs: Vec<(u32, u32, i128, i128)> = vec![];
    for m in 0..=65535u32 {
        let b = get_magic_num_bytes(m);
        if b != (prefix | m).to_le_bytes() {
            bad_bytes += 1;
        }
        if get_magic_num_from_bytes(&b) != m {
            bad_back += 1;
        }
        if let Ok(v) = catch_unwind(|| get_ver_from_magic_num(m)) {
            let (ma, mi) = (v.major as i128, v.minor.map(|x| x as i128).unwrap_or(-2));
            match runs.last_mut() {
                Some(r) if r.1 + 1 == m && r.2 == ma && r.3 == mi => r.1 = m,
                _ => runs.push((m, m, ma, mi)),
            }
        }
    }
    let mut out = vec![Sx::L(vec![z(prefix as i128), z(bad_bytes), z(bad_back)])];
    for (lo, hi, ma, mi) in runs {
        out.push(Sx::L(vec![z(lo as i128), z(hi as i128), z(ma), z(mi)]));
    }
    Sx::L(out)
}

fn jumps(minor: u8, idx: usize, arg: usize) -> Sx {
    let mut out = vec![];
    for op in 0..=255u8 {
        let r = catch_unwind(|| jump_abs_addr(minor, op, idx, arg));
        out.push(Sx::L(vec![z(op as i128), z(r.map(|x| x as i128).unwrap_or(-1))]));
    }
    Sx::L(out)
}

/// one record per top-level chunk that declares or mentions a name:
///   (kind public erg_name py_name line)
/// kind: 1 `.x: T` / `.X(T): ClassType` (instance declaration)   2 `.x = 'py': T`   3 `.x = .y` alias (py_name = target erg name)
///       4 `.x = <other>` (import etc.; py_name = escaped erg name)   5 `X <: T` (no new name)   6 `X.attr: T` (class member; erg_name = "X.attr")
///       8 `X.` + indented block of class members (erg_name = class)
///       7 doc comment / import call / other chunk kinds that declare nothing   9 unrecognised chunk (text in erg_name)
fn rec(kind: i128, public: bool, erg: &str, py: &str, line: u32) -> Sx {
    Sx::L(vec![z(kind), Sx::b(public), Sx::from_str_cp(erg), Sx::from_str_cp(py), z(line as i128)])
}

fn decl_chunk(e: &Expr, out: &mut Vec<Sx>) {
    let line = e.ln_begin().unwrap_or(0);
    match e {
        Expr::Literal(_) => out.push(rec(7, false, "", "", line)),
        Expr::TypeAscription(tasc) => {
            let kind = tasc.kind();
            let (ident, member) = match tasc.expr.as_ref() {
                Expr::Accessor(Accessor::Ident(id)) => (Some(id.clone()), None),
                Expr::Call(call) => match call.obj.as_ref() {
                    Expr::Accessor(Accessor::Ident(id)) if call.attr_name.is_none() => (Some(id.clone()), None),
                    _ => (None, None),
                },
                Expr::Accessor(Accessor::Attr(attr)) => (None, Some(format!("{}{}", attr.obj, attr.ident))),
                _ => (None, None),
            };
            if let Some(id) = ident {
                let name = id.inspect().to_string();
                match kind {
                    AscriptionKind::TypeOf | AscriptionKind::AsCast => {
                        out.push(rec(1, id.vis.is_public(), &name, name.trim_end_matches('!'), line))
                    }
                    _ => out.push(rec(5, id.vis.is_public(), &name, "", line)),
                }
            } else if let Some(m) = member {
                out.push(rec(6, true, &m, "", line));
            } else {
                out.push(rec(9, false, &format!("{}", tasc.expr), "", line));
            }
        }
        Expr::Def(def) => match &def.sig {
            Signature::Var(sig) => {
                let VarPattern::Ident(id) = &sig.pat else {
                    out.push(rec(9, false, &format!("{}", def.sig), "", line));
                    return;
                };
                let name = id.inspect().to_string();
                let public = id.vis.is_public();
                match def.body.block.first() {
                    Some(Expr::TypeAscription(t)) => match t.expr.as_ref() {
                        Expr::Accessor(Accessor::Ident(py)) => {
                            // declare.rs declare_var: py_name = acc.local_name(); the inner `'py': T` is declared by declare_ident
                            out.push(rec(2, public, &name, py.inspect().trim_end_matches('!'), line))
                        }
                        _ => out.push(rec(9, public, &format!("{}", def.sig), "", line)),
                    },
                    Some(Expr::Accessor(Accessor::Ident(tgt))) => out.push(rec(3, public, &name, tgt.inspect(), line)),
                    Some(_) => {
                        let esc = sig.escaped().map(|s| s.to_string()).unwrap_or_default();
                        out.push(rec(4, public, &name, &esc, line))
                    }
                    None => out.push(rec(9, public, &name, "", line)),
                }
            }
            Signature::Subr(_) => out.push(rec(9, false, &format!("{}", def.sig), "", line)),
        },
        Expr::Call(_) => out.push(rec(7, false, "", "", line)),
        Expr::Compound(c) => {
            for x in c.iter() {
                decl_chunk(x, out);
            }
        }
        Expr::Dummy(d) => {
            for x in d.iter() {
                decl_chunk(x, out);
            }
        }
        Expr::InlineModule(_) => out.push(rec(7, false, "", "", line)),
        Expr::Methods(m) => out.push(rec(8, true, &format!("{}", m.class), "", line)),
        other => out.push(rec(9, false, &format!("{other}").chars().take(80).collect::<String>(), "", line)),
    }
}

fn decls(path: &str) -> Sx {
    let src = match std::fs::read_to_string(path) {
        Ok(s) => s,
        Err(e) => return Sx::L(vec![z(-1), Sx::from_str_cp(&format!("{e}"))]),
    };
    let cfg = ErgConfig::string(src.clone());
    let mut b = ASTBuilder::new(cfg);
    let (ast, nerr) = match b.build(src) {
        Ok(a) => (a.ast, 0),
        Err(ia) => match ia.ast {
            Some(a) => (a, ia.errors.len() as i128),
            None => return Sx::L(vec![z(-2), z(ia.errors.len() as i128)]),
        },
    };
    let mut out = vec![];
    for e in ast.module.iter() {
        decl_chunk(e, &mut out);
    }
    Sx::L(vec![z(nerr), Sx::L(out)])
}

/// C27 first path: the declarations as the REAL compiler loads them.
/// input: list of import paths ("collections", "os/path", ...); one program `m0 = pyimport "collections"` ... is built with the
/// package builder (real resolver, real declaration pipeline).  For every module reached — directly, or through a public
/// attribute of module type of an already dumped module (package attribute such as `collections.abc`) — one record
///   (qual via file (name...))      qual = dotted python path as a program writes it, via = "" or the qual it was reached from,
///                                  file = the declaration file the compiler really loaded
///   name = (erg_name py_name has_py public builtin def_in_this_file is_module module_file def_line)
/// taken from the module context's dir(): VarInfo.py_name is what codegen emits for `m.erg_name`.
fn compiler_decls(mods: Vec<String>) -> Sx {
    use erg_compiler::artifact::Buildable;
    let h = std::thread::Builder::new()
        .stack_size(1024 * 1024 * 1024)
        .spawn(move || {
            let mut src = String::new();
            for (i, m) in mods.iter().enumerate() {
                src.push_str(&format!("m{i} = pyimport \"{m}\"\n"));
            }
            let cfg = ErgConfig::string(src.clone());
            let mut b = erg_compiler::build_package::PackageBuilder::new(cfg.clone(), erg_compiler::module::SharedCompilerResource::new(cfg));
            let nerr = match b.build(src, "exec") {
                Ok(_) => 0,
                Err(a) => a.errors.len() as i128,
            };
            let Some(mctx) = b.get_context() else {
                return Sx::L(vec![z(-3)]);
            };
            let main = &mctx.context;
            let mut out = vec![Sx::L(vec![z(nerr)])];
            let mut queue: Vec<(String, String, erg_compiler::ty::Type, Vec<String>)> = vec![];
            let top = main.dir();
            for (i, m) in mods.iter().enumerate() {
                let key = format!("m{i}");
                let found = top.iter().find(|(k, _)| &k.inspect()[..] == key.as_str());
                match found {
                    Some((_, vi)) if vi.t.module_path().is_some() => {
                        queue.push((m.replace('/', "."), String::new(), vi.t.clone(), vec![]))
                    }
                    _ => out.push(Sx::L(vec![
                        Sx::from_str_cp(&m.replace('/', ".")),
                        Sx::from_str_cp(""),
                        Sx::from_str_cp("<not loaded>"),
                        Sx::L(vec![]),
                    ])),
                }
            }
            let mut seen: std::collections::HashSet<(String, String)> = std::collections::HashSet::new();
            let mut qi = 0;
            while qi < queue.len() {
                let (qual, via, t, chain) = queue[qi].clone();
                qi += 1;
                let Some(path) = t.module_path() else { continue };
                let file = path.to_string_lossy().to_string();
                if chain.contains(&file) || !seen.insert((qual.clone(), file.clone())) || qual.matches('.').count() > 4 {
                    continue;
                }
                let Some(ctx) = main.get_mod_with_t(&t) else {
                    out.push(Sx::L(vec![
                        Sx::from_str_cp(&qual),
                        Sx::from_str_cp(&via),
                        Sx::from_str_cp(&format!("<no context> {file}")),
                        Sx::L(vec![]),
                    ]));
                    continue;
                };
                let mut names = vec![];
                for (k, vi) in ctx.dir().iter() {
                    let erg = k.inspect().to_string();
                    let public = vi.vis.modifier.is_public();
                    let builtin = vi.kind.is_builtin();
                    let here = vi
                        .def_loc
                        .module
                        .as_ref()
                        .map(|p| p.to_string_lossy() == file.as_str())
                        .unwrap_or(false);
                    let mp = vi.t.module_path();
                    let py = vi.py_name.as_ref().map(|s| s.to_string());
                    if public && !builtin {
                        if let Some(_p) = &mp {
                            let sub = py.clone().unwrap_or_else(|| erg.clone());
                            let mut ch = chain.clone();
                            ch.push(file.clone());
                            queue.push((format!("{qual}.{sub}"), qual.clone(), vi.t.clone(), ch));
                        }
                    }
                    names.push(Sx::L(vec![
                        Sx::from_str_cp(&erg),
                        Sx::from_str_cp(py.as_deref().unwrap_or("")),
                        Sx::b(py.is_some()),
                        Sx::b(public),
                        Sx::b(builtin),
                        Sx::b(here),
                        Sx::b(mp.is_some()),
                        Sx::from_str_cp(&mp.map(|p| p.to_string_lossy().to_string()).unwrap_or_default()),
                        z(vi.def_loc.loc.ln_begin().unwrap_or(0) as i128),
                    ]));
                }
                out.push(Sx::L(vec![
                    Sx::from_str_cp(&qual),
                    Sx::from_str_cp(&via),
                    Sx::from_str_cp(&file),
                    Sx::L(names),
                ]));
            }
            Sx::L(out)
        })
        .unwrap();
    h.join().unwrap_or(Sx::L(vec![z(-4)]))
}

fn ops_of(code: &CodeObj, acc: &mut std::collections::BTreeSet<u8>) {
    let mut i = 0;
    while i < code.code.len() {
        acc.insert(code.code[i]);
        i += 2;
    }
    for c in code.consts.iter() {
        if let ValueObj::Code(c) = c {
            ops_of(c, acc);
        }
    }
}

fn compile(minor: u8, src: String) -> Sx {
    let h = std::thread::Builder::new()
        .stack_size(512 * 1024 * 1024)
        .spawn(move || {
            let mut cfg = ErgConfig::string(src.clone());
            cfg.target_version = Some(PythonVersion::new(3, Some(minor), Some(0)));
            cfg.quiet_repl = true;
            let r = catch_unwind(AssertUnwindSafe(|| {
                let mut c = erg_compiler::Compiler::new(cfg);
                c.compile(src, "exec").map(|a| a.object).map_err(|e| format!("{} errors: {}", e.errors.len(), e.errors))
            }));
            match r {
                Ok(Ok(code)) => {
                    let mut acc = std::collections::BTreeSet::new();
                    ops_of(&code, &mut acc);
                    Sx::L(vec![z(0), Sx::L(acc.into_iter().map(|b| z(b as i128)).collect())])
                }
                Ok(Err(n)) => Sx::L(vec![z(1), Sx::from_str_cp(&n)]),
                Err(_) => Sx::L(vec![z(2), Sx::from_str_cp("panic")]),
            }
        })
        .unwrap();
    h.join().unwrap_or(Sx::L(vec![z(3)]))
}

fn main() {
    sx::serve(|x| match x.nth(0).z() {
        0 => tables(),
        1 => magic(x.nth(1).z() as u32, x.nth(2).z() as u32),
        2 => jumps(x.nth(1).z() as u8, x.nth(2).z() as usize, x.nth(3).z() as usize),
        3 => decls(&x.nth(1).string()),
        6 => compiler_decls(x.nth(1).l().iter().map(|m| m.string()).collect()),
        5 => magic_runs(),
        4 => compile(x.nth(1).z() as u8, x.nth(2).string()),
        _ => Sx::L(vec![z(-998)]),
    });
}
