//! ergv: implementation side of the model/implementation correspondence checks.
//! `ergv <theme>` reads one s-expression case per line and prints one result per line.
#[allow(dead_code)]
mod sx;
mod graph;

fn main() {
    let args: Vec<String> = std::env::args().collect();
    let theme = args.get(1).map(|s| s.as_str()).unwrap_or("");
    match theme {
        "graph" => graph::main(),
        _ => {
            eprintln!("unknown theme {theme}");
            std::process::exit(2);
        }
    }
}
