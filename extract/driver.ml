(* Generic driver for an extracted model: reads one s-expression per line on stdin,
   applies Model.run : sx -> sx, prints one s-expression per line.
   Integers are converted between decimal text and the extracted binary
   inductives (positive / z) through Zarith; no model value is ever held in an OCaml int. *)
module ZA = Z
open Model

let rec pos_of_zt (n : ZA.t) : positive =
  if ZA.equal n ZA.one then XH
  else if ZA.testbit n 0 then XI (pos_of_zt (ZA.shift_right n 1))
  else XO (pos_of_zt (ZA.shift_right n 1))

let z_of_zt (n : ZA.t) : z =
  let s = ZA.sign n in
  if s = 0 then Z0 else if s > 0 then Zpos (pos_of_zt n) else Zneg (pos_of_zt (ZA.neg n))

let rec zt_of_pos (p : positive) : ZA.t =
  (* iterative to be safe on big numbers *)
  let rec go p (acc : ZA.t) (bit : int) =
    match p with
    | XH -> ZA.add acc (ZA.shift_left ZA.one bit)
    | XO q -> go q acc (bit + 1)
    | XI q -> go q (ZA.add acc (ZA.shift_left ZA.one bit)) (bit + 1)
  in go p ZA.zero 0

let zt_of_z = function
  | Z0 -> ZA.zero
  | Zpos p -> zt_of_pos p
  | Zneg p -> ZA.neg (zt_of_pos p)

(* parser *)
let parse (s : string) : sx =
  let n = String.length s in
  let pos = ref 0 in
  let rec skip () = if !pos < n && (s.[!pos] = ' ' || s.[!pos] = '\t' || s.[!pos] = '\r') then (incr pos; skip ()) in
  let rec rd () : sx =
    skip ();
    if !pos >= n then failwith "unexpected end";
    if s.[!pos] = '(' then begin
      incr pos;
      let acc = ref [] in
      let rec loop () =
        skip ();
        if !pos >= n then failwith "unclosed";
        if s.[!pos] = ')' then incr pos
        else (acc := rd () :: !acc; loop ())
      in loop ();
      SL (List.rev !acc)
    end else begin
      let st = !pos in
      if s.[!pos] = '-' then incr pos;
      while !pos < n && s.[!pos] >= '0' && s.[!pos] <= '9' do incr pos done;
      SZ (z_of_zt (ZA.of_string (String.sub s st (!pos - st))))
    end
  in rd ()

let rec print (b : Buffer.t) (x : sx) : unit =
  match x with
  | SZ z -> Buffer.add_string b (ZA.to_string (zt_of_z z))
  | SL l ->
    Buffer.add_char b '(';
    let first = ref true in
    List.iter (fun y -> if not !first then Buffer.add_char b ' '; first := false; print b y) l;
    Buffer.add_char b ')'

let () =
  try
    while true do
      let line = input_line stdin in
      if String.length line > 0 then begin
        let b = Buffer.create 256 in
        (try print b (run (parse line))
         with Stack_overflow -> Buffer.add_string b "(-999 -999)");
        print_endline (Buffer.contents b)
      end
    done
  with End_of_file -> ()
