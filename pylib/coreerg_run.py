"""Running CoreErg programs three ways (shared by C01 and the other whole-compiler checks).

    obs = run_erg(erg_bin, erg_env, workdir, [(name, erg_source), ...])      -> list of ErgObs
    obs = run_oracle(workdir, [(name, python_source), ...])                -> list of (stdout, rc, exception class)
    obs = run_model(model, progs, fuel=2000)                               -> list of (stdout, rc, exception class)

An observation is the triple (stdout text, exit status 0/1, uncaught exception class name or '').
erg is observed as the property says: `erg compile f.er` (diagnostics/warnings are printed at compile time and are
not part of the program's output) followed by `python3.11 f.pyc`.  `erg run` prints the warnings on stdout in front
of the program's output; run_erg_run() observes that path too (stdout must END with the program's output).
"""
import os
import re
import subprocess
from concurrent.futures import ThreadPoolExecutor

from pylib import coreerg_gen as G

PY311 = "/root/.pyenv/versions/3.11.7/bin/python3.11"
PYENV = {"PYTHONIOENCODING": "utf-8", "PYTHONUTF8": "1", "PYTHONDONTWRITEBYTECODE": "1"}
EXN = {0: "", 1: "ZeroDivisionError", 2: "AssertionError", 3: "IndexError", 4: "TypeError", 5: "ValueError",
       6: "OverflowError", 7: "NameError", 99: "Unmodelled", -998: "OUT-OF-FUEL", -997: "DECODE-ERROR"}
ANSI = re.compile(r"\x1b\[[0-9;]*m")
TIMEOUT = 900   # the machine may be heavily loaded; a time-out is a framework problem, never a verdict


def exc_class(err):
    ls = [l for l in err.strip().splitlines() if l.strip()]
    if not ls:
        return ""
    m = re.match(r"^([A-Za-z_][\w.]*)(:|$)", ls[-1])
    return m.group(1) if m else "?"


class ErgObs:
    """accepted: the compiler produced a .pyc; crashed: panic / 'bug of Erg'; obs: (stdout, rc, exc) of the .pyc run"""
    __slots__ = ("accepted", "crashed", "diag", "obs", "pyc", "stderr")

    def __init__(self):
        self.accepted = False
        self.crashed = False
        self.diag = ""
        self.obs = None
        self.pyc = None
        self.stderr = ""


def _env(extra):
    e = dict(os.environ)
    e.update(PYENV)
    e.update(extra or {})
    return e


def _erg_one(erg_bin, env, workdir, name, src, py):
    o = ErgObs()
    er = os.path.join(workdir, name + ".er")
    pyc = os.path.join(workdir, name + ".pyc")
    with open(er, "w", encoding="utf-8") as f:
        f.write(src)
    if os.path.exists(pyc):
        os.remove(pyc)
    p = subprocess.run([erg_bin, "compile", er], env=env, capture_output=True, timeout=TIMEOUT)
    txt = ANSI.sub("", (p.stdout + p.stderr).decode("utf-8", "replace"))
    o.diag = txt[-3000:]
    if p.returncode != 0 or not os.path.exists(pyc):
        o.crashed = ("panicked" in txt) or ("bug of Erg" in txt) or ("this is a bug" in txt) or p.returncode < 0
        return o
    o.accepted = True
    o.pyc = pyc
    q = subprocess.run([py, pyc], env=env, capture_output=True, timeout=TIMEOUT, cwd=workdir)
    err = q.stderr.decode("utf-8", "replace")
    o.stderr = err[-1500:]
    rc = q.returncode
    o.obs = (q.stdout.decode("utf-8", "replace"), rc if rc in (0, 1) else rc, exc_class(err) if rc else "")
    return o


def run_erg(erg_bin, erg_env, workdir, items, py=PY311, workers=16):
    os.makedirs(workdir, exist_ok=True)
    env = _env(erg_env)
    with ThreadPoolExecutor(workers) as ex:
        return list(ex.map(lambda it: _erg_one(erg_bin, env, workdir, it[0], it[1], py), items))


def _erg_run_one(erg_bin, env, workdir, name, src):
    er = os.path.join(workdir, name + "_r.er")
    with open(er, "w", encoding="utf-8") as f:
        f.write(src)
    p = subprocess.run([erg_bin, "run", er], env=env, capture_output=True, timeout=TIMEOUT)
    err = ANSI.sub("", p.stderr.decode("utf-8", "replace"))
    return (ANSI.sub("", p.stdout.decode("utf-8", "replace")), p.returncode, exc_class(err) if p.returncode else "")


def run_erg_run(erg_bin, erg_env, workdir, items, workers=16):
    """`erg run f.er`: stdout (warnings first, ANSI stripped), exit status, exception class"""
    os.makedirs(workdir, exist_ok=True)
    env = _env(erg_env)
    with ThreadPoolExecutor(workers) as ex:
        return list(ex.map(lambda it: _erg_run_one(erg_bin, env, workdir, it[0], it[1]), items))


def _py_one(workdir, name, src, py):
    fn = os.path.join(workdir, name + "_oracle.py")
    with open(fn, "w", encoding="utf-8") as f:
        f.write(src)
    p = subprocess.run([py, fn], env=_env(None), capture_output=True, timeout=TIMEOUT, cwd=workdir)
    return (p.stdout.decode("utf-8", "replace"), p.returncode, exc_class(p.stderr.decode("utf-8", "replace")) if p.returncode else "")


def run_oracle(workdir, items, py=PY311, workers=16):
    os.makedirs(workdir, exist_ok=True)
    with ThreadPoolExecutor(workers) as ex:
        return list(ex.map(lambda it: _py_one(workdir, it[0], it[1], py), items))


def decode_model(r):
    """(status (line...)) -> (stdout, rc, exc)"""
    if len(r) == 1:
        return ("", -1, EXN.get(r[0], str(r[0])))
    st, lines = r
    text = "".join("".join(chr(c) for c in ln) + "\n" for ln in lines)
    return (text, 0 if st == 0 else 1, EXN.get(st, str(st)))


def run_model(model, progs, fuel=2000):
    """model: lib.vplib.Model for theme CoreErg; progs: generator trees"""
    return [decode_model(r) for r in model.run([[0, fuel, G.to_sx(p)] for p in progs])]
