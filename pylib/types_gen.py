"""C06 / C33: type universe for the subtyping checks (wire format of harness/types and coq/Types/Extract.v).

type   T ::= [0] Never | [1] Obj | [2, name] builtin by name | [3, lit...] enum | [4, op, lo, hi] Int interval
           | [5, T...] or | [6, T...] and | [7, T] not | [8, T] List(T, _) | [9, T, n] List(T, n)
lit    l ::= [0, z] | [1, "text"] | [2, b] | [3] None | [4, z] Float z/10
"""

NEVER, OBJ = [0], [1]


def mono(n):
    return [2, n]


def enum(*lits):
    out = [3]
    for l in lits:
        if l is None:
            out.append([3])
        elif isinstance(l, bool):
            out.append([2, int(l)])
        elif isinstance(l, int):
            out.append([0, l])
        elif isinstance(l, float):
            out.append([4, int(round(l * 10))])
        else:
            out.append([1, l])
    return out


def ival(op, lo, hi, base=None):
    """base None: constructors::int_interval (class Int); otherwise the class the lowering gives a literal interval"""
    return [4, op, lo, hi] if base is None else [10, mono(base), op, lo, hi]


def nival(op, lo, hi):
    """an interval as the compiler types the source text `lo..hi`: class Nat for non-negative bounds"""
    return ival(op, lo, hi, "Nat" if lo >= 0 and hi >= 0 else "Int")


def or_(*ts):
    return [5] + list(ts)


def and_(*ts):
    return [6] + list(ts)


def not_(t):
    return [7, t]


def lst(t, n=None):
    return [8, t] if n is None else [9, t, n]


def lit_erg(l):
    k = l[0]
    if k == 0:
        return str(l[1])
    if k == 1:
        s = l[1] if isinstance(l[1], str) else "".join(chr(c) for c in l[1])
        return '"%s"' % s
    if k == 2:
        return "True" if l[1] else "False"
    if k == 3:
        return "None"
    return "%d.%d" % (l[1] // 10, l[1] % 10)


def erg(t):
    """Erg syntax of a type (for messages and for generated programs)"""
    k = t[0]
    if k == 0:
        return "Never"
    if k == 1:
        return "Obj"
    if k == 2:
        return t[1] if isinstance(t[1], str) else "".join(chr(c) for c in t[1])
    if k == 3:
        return "{" + ", ".join(lit_erg(l) for l in t[1:]) + "}"
    if k == 4:
        return "{I: Int | I in %s}" % erg([10, None] + t[1:])
    if k == 10:
        return "%s%s%s" % (("(%d)" % t[3]) if t[3] < 0 else t[3], ["..", "<..", "..<", "<..<"][t[2]],
                           ("(%d)" % t[4]) if t[4] < 0 else t[4])
    if k == 5:
        return "(" + " or ".join(erg(x) for x in t[1:]) + ")"
    if k == 6:
        return "(" + " and ".join(erg(x) for x in t[1:]) + ")"
    if k == 7:
        return "(not %s)" % erg(t[1])
    if k == 8:
        return "List(%s)" % erg(t[1])
    if k == 9:
        return "List(%s, %d)" % (erg(t[1]), t[2])
    return "?"


def depth(t):
    k = t[0]
    if k in (5, 6):
        return 1 + max(depth(x) for x in t[1:])
    if k in (7, 8, 9):
        return 1 + depth(t[1])
    return 0


TOWER = ["Bool", "Nat", "Int", "Ratio", "Float", "Complex"]
CORE_CLASSES = TOWER + ["Str", "NoneType", "Type", "ClassType"]
CORE_TRAITS = ["Eq", "Ord", "Hash", "Show", "Num", "EqHash", "PartialOrd", "Sized"]
REFINES = [enum(1, 2), enum("a"), enum(1), enum(0, 1, 2, 3), enum(-1), enum(True), enum(None), enum("a", "b"),
           nival(0, 1, 10), nival(2, 0, 5), nival(0, 0, 4), nival(0, -3, 3), nival(1, 0, 10), nival(3, 0, 11), nival(0, 2, 3),
           ival(0, 1, 10), ival(2, 0, 5), enum(1.5),
           # the boundaries of the intervals, as singletons (an off-by-one of an open bound shows as an unsound answer)
           enum(0), enum(4), enum(5), enum(10), enum(11)]


def universe(table_names, rng=None, extra=0):
    """depth-0 atoms: Never, Obj, every builtin mono type, the refinement types; depth 1 and 2 over a core"""
    u = [NEVER, OBJ] + [mono(n) for n in table_names if n not in ("Never", "Obj")] + REFINES
    core = [mono(n) for n in CORE_CLASSES[:8] + CORE_TRAITS[:4]] + REFINES[:4] + REFINES[8:10]
    d1 = []
    small = [mono("Int"), mono("Nat"), mono("Str"), mono("Bool"), mono("NoneType"), mono("Eq"), mono("Show"),
             enum(1, 2), enum("a"), nival(0, 1, 10), nival(2, 0, 5)]
    for i, a in enumerate(small):
        for b in small[i + 1:]:
            d1.append(or_(a, b))
    for a, b in [("Int", "Str"), ("Eq", "Show"), ("Eq", "Hash"), ("Ord", "Show"), ("Int", "Eq"), ("Nat", "Show"), ("Num", "Ord")]:
        d1.append(and_(mono(a), mono(b)))
    d1 += [and_(mono("Int"), nival(0, 1, 10)), and_(enum(1, 2), mono("Nat")), and_(enum(1, 2), nival(0, 1, 10)),
           and_(mono("Eq"), mono("Hash"), mono("Show")), or_(mono("Int"), mono("Str"), mono("NoneType"))]
    for a in ["Int", "Nat", "Str", "Eq", "Float"]:
        d1.append(not_(mono(a)))
    d1 += [not_(enum(1, 2)), not_(nival(0, 1, 10))]
    for a in [mono("Int"), mono("Nat"), mono("Str"), mono("Obj"), NEVER, mono("Eq"), enum(1, 2), nival(0, 1, 10), mono("Float"), mono("Bool")]:
        d1.append(lst(a))
    for a, n in [(mono("Int"), 3), (mono("Nat"), 3), (mono("Nat"), 2), (mono("Int"), 0), (enum(1, 2), 2), (mono("Str"), 3)]:
        d1.append(lst(a, n))
    d2 = [or_(lst(mono("Int")), mono("NoneType")), or_(lst(mono("Nat"), 3), mono("Str")), lst(or_(mono("Int"), mono("Str"))),
          lst(or_(mono("Nat"), mono("NoneType")), 3), lst(lst(mono("Int"))), lst(lst(mono("Nat"), 3)), lst(lst(mono("Nat"), 2), 2),
          lst(and_(mono("Eq"), mono("Show"))), not_(or_(mono("Int"), mono("Str"))), not_(lst(mono("Int"))),
          or_(and_(mono("Eq"), mono("Show")), mono("NoneType")), and_(or_(mono("Int"), mono("Str")), mono("Eq")),
          or_(not_(mono("Int")), mono("Nat")), and_(not_(mono("Int")), mono("Float")), lst(not_(mono("Int"))),
          and_(lst(mono("Int")), mono("Eq")), or_(enum(1, 2), enum("a"), mono("NoneType")),
          and_(or_(mono("Int"), mono("Str")), or_(mono("Nat"), mono("Str")))]
    return u + d1 + d2


# ------------------------------------------------------------------ translator: gen/Classes.v
NAMED = ["Obj", "Never", "Bool", "Nat", "Int", "Ratio", "Float", "Complex", "Str", "NoneType", "Type", "ClassType",
         "TraitType", "GenericList", "List", "Or", "Named"]


def parse_table(raw):
    """raw: decoded answer of harness case (0) -> list of dict rows (id = position)"""
    rows = []
    for i, e in enumerate(raw):
        rows.append(dict(id=i, name="".join(chr(c) for c in e[0]), poly=bool(e[1]), cls=bool(e[2]), trait=bool(e[3]),
                         sc=["".join(chr(c) for c in x) for x in e[4]], st=["".join(chr(c) for c in x) for x in e[5]]))
    return rows


def mono_value_class_names(repo):
    """variant names of Type::is_mono_value_class (crates/erg_compiler/ty/mod.rs)"""
    import os
    import re
    src = open(os.path.join(repo, "crates", "erg_compiler", "ty", "mod.rs")).read()
    m = re.search(r"pub fn is_mono_value_class\(&self\) -> bool \{\s*match self \{(.*?)=> true,", src, re.S)
    if not m:
        return None
    body = m.group(1)
    body = re.sub(r"Self::FreeVar\(fv\)[^\n]*\n", "", body)
    names = re.findall(r"Self::([A-Za-z]+)", body)
    return names or None


def classes_v(rows, mvc_names):
    """text of coq/gen/Classes.v; None if a name the model refers to is missing from the table"""
    ids = {}
    for r in rows:
        ids.setdefault(r["name"], r["id"])
    for n in NAMED:
        if n not in ids:
            return None

    def sup(s):
        head = s.split("(")[0].strip()
        if not head or not (head[0].isalpha() or head[0] == "_"):
            return "(-1, true)"
        return "(%d, %s)" % (ids.get(head, -1), "true" if "(" in s else "false")

    out = ["(* GENERATED on every run by pylib/types_gen.py from Context::verif_class_table of the live builtin context",
           "   (harness ergv-types, case (0)) and Type::is_mono_value_class (crates/erg_compiler/ty/mod.rs). Do not edit.",
           "   row: (id, name as code points, (is_poly, is_class, is_trait), super_classes, super_traits);",
           "   a super type is (id of its head, has type arguments); id -1: the head is not a registered type *)",
           "From Coq Require Import ZArith List Bool.", "Import ListNotations.", "Open Scope Z_scope.", "",
           "Definition classes : list (Z * list Z * (bool * bool * bool) * list (Z * bool) * list (Z * bool)) := ["]
    lines = []
    for r in rows:
        lines.append("  (%d, [%s], (%s, %s, %s), [%s], [%s])" % (
            r["id"], "; ".join(str(ord(c)) for c in r["name"]),
            "true" if r["poly"] else "false", "true" if r["cls"] else "false", "true" if r["trait"] else "false",
            "; ".join(sup(s) for s in r["sc"]), "; ".join(sup(s) for s in r["st"])))
    out.append(";\n".join(lines))
    out.append("].")
    out.append("")
    for n in NAMED:
        out.append("Definition id_%s : Z := %d." % (n, ids[n]))
    out.append("")
    out.append("(* Type::is_mono_value_class: the builtin enum variants (those that are registered types) *)")
    out.append("Definition mono_value_classes : list Z := [%s]." % "; ".join(str(ids[n]) for n in mvc_names if n in ids))
    return "\n".join(out) + "\n"


def known_entries(pid):
    """the `finding` entries of known/<pid>.json (read directly: other files in known/ may have another shape)"""
    import json
    import os
    f = os.path.join(os.path.dirname(os.path.dirname(os.path.abspath(__file__))), "known", pid + ".json")
    if not os.path.exists(f):
        return []
    return [k for k in json.load(open(f)) if isinstance(k, dict) and k.get("status") == "finding"]
