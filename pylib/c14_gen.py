"""C14: generator of small erg programs (seeded rng supplied by the caller).

Programs are meant to compile (they are not run): definitions, arithmetic, nested functions / closures, lambdas,
if / match expressions, for! / while! loops, procedures, classes, collection literals, with!, plus layout
stress: many names and constants (> 256: EXTENDED_ARG operands), long blocks (jumps beyond 255 bytes),
blank-line gaps > 127 and > 255 between statements, very long lines."""


class G:
    def __init__(self, rng, stress=None):
        self.r = rng
        self.n = 0
        self.lines = []
        self.stress = stress or set()

    def fresh(self, p="v"):
        self.n += 1
        return "%s%d" % (p, self.n)

    def emit(self, ind, s):
        self.lines.append("    " * ind + s)

    def gap(self, ind=0):
        r = self.r
        k = r.random()
        if "gap" in self.stress and k < 0.12:
            n = r.choice([126, 127, 128, 129, 200, 254, 255, 256, 257, 300, 520])
        elif k < 0.25:
            n = r.randint(1, 4)
        else:
            n = 0
        for _ in range(n):
            self.lines.append("")
        if r.random() < 0.1:
            self.lines.append("    " * ind + "# " + "c" * r.randint(1, 30))

    # ---- expressions over Int variables in scope
    def lit(self):
        r = self.r
        if "consts" in self.stress:
            return str(r.randint(0, 100000))
        return str(r.choice([0, 1, 2, 3, 5, 7, 10, 100, 255, 256, 1000, 65536]))

    def expr(self, vars_, depth=0):
        r = self.r
        if depth > 2 or r.random() < 0.35:
            if vars_ and r.random() < 0.65:
                return r.choice(vars_)
            return self.lit()
        op = r.choice(["+", "-", "+"]) if "consts" in self.stress else r.choice(["+", "-", "*", "+", "+"])
        return "(%s %s %s)" % (self.expr(vars_, depth + 1), op, self.expr(vars_, depth + 1))

    def cond(self, vars_):
        r = self.r
        return "%s %s %s" % (self.expr(vars_, 1), r.choice(["<", "<=", "==", "!=", ">", ">="]), self.expr(vars_, 1))

    # ---- pure statements (allowed in functions); returns new var name
    def pure_stmt(self, ind, vars_, depth=0):
        r = self.r
        k = r.random()
        v = self.fresh()
        self.usable = True
        if k < 0.45 or depth > 1:
            self.emit(ind, "%s = %s" % (v, self.expr(vars_)))
        elif k < 0.65:
            c = self.fresh("b")
            self.emit(ind, "%s = %s" % (c, self.cond(vars_)))
            self.emit(ind, "%s = if %s:" % (v, c))
            self.emit(ind + 1, "do:")
            if "longjump" in self.stress and r.random() < 0.5:
                big = " + ".join(self.expr(vars_, 1) for _ in range(r.randint(40, 60)))
                self.emit(ind + 2, big)
            else:
                self.emit(ind + 2, self.expr(vars_))
            self.emit(ind + 1, "do:")
            self.emit(ind + 2, self.expr(vars_))
            self.usable = False
        elif k < 0.8:
            c = self.fresh("s")
            self.emit(ind, "%s = %s" % (c, self.expr(vars_, 1)))
            self.emit(ind, "%s = match %s:" % (v, c))
            for c in r.sample([0, 1, 2, 3, 5, 7], r.randint(1, 3)):
                self.emit(ind + 1, "%d -> %s" % (c, self.expr(vars_)))
            self.emit(ind + 1, "_ -> %s" % self.expr(vars_))
            self.usable = False
        elif k < 0.9:
            f = self.fresh("lam")
            p = self.fresh("p")
            self.emit(ind, "%s = (%s: Int) -> %s" % (f, p, self.expr(vars_ + [p])))
            self.emit(ind, "%s = %s(%s)" % (v, f, self.expr(vars_, 1)))
        else:
            # nested function capturing the enclosing scope
            f = self.fresh("inner")
            p = self.fresh("p")
            self.emit(ind, "%s(%s: Int): Int =" % (f, p))
            inner_vars = vars_ + [p]
            for _ in range(r.randint(0, 2)):
                w = self.pure_stmt(ind + 1, inner_vars, depth + 1)
                if self.usable:
                    inner_vars.append(w)
            self.usable = True
            self.emit(ind + 1, self.expr(inner_vars))
            self.emit(ind, "%s = %s(%s)" % (v, f, self.expr(vars_, 1)))
        return v

    def function(self, ind, vars_):
        r = self.r
        f = self.fresh("f")
        ps = [self.fresh("a") for _ in range(r.randint(1, 3))]
        self.emit(ind, "%s(%s): Int =" % (f, ", ".join("%s: Int" % p for p in ps)))
        loc = list(ps)
        nst = r.randint(0, 4)
        if "span" in self.stress and r.random() < 0.4:
            nst = r.choice([60, 126, 127, 128, 130, 200, 256, 300])   # a nested block spanning > 127 / > 255 lines
        for _ in range(nst):
            if r.random() < 0.15 and nst < 10:
                self.gap(ind + 1)
            if nst >= 10:
                w = self.fresh()
                self.usable = True
                self.emit(ind + 1, "%s = %s" % (w, self.expr(loc[-6:], 1)))
            else:
                w = self.pure_stmt(ind + 1, loc)
            if self.usable:
                loc.append(w)
        self.emit(ind + 1, self.expr(loc[-8:]))
        return f, len(ps)

    # ---- procedural statements (module level or inside procedures)
    def proc_stmt(self, ind, vars_, funcs, depth=0):
        r = self.r
        k = r.random()
        if k < 0.3:
            w = self.pure_stmt(ind, vars_)
            if self.usable:
                vars_.append(w)
        elif k < 0.45:
            if funcs and r.random() < 0.6:
                f, n = r.choice(funcs)
                self.emit(ind, "print! %s(%s)" % (f, ", ".join(self.expr(vars_, 1) for _ in range(n))))
            else:
                self.emit(ind, "print! %s" % self.expr(vars_))
        elif k < 0.55 and depth < 2:
            i = self.fresh("i")
            self.emit(ind, "for! 0..<%d, %s =>" % (r.randint(1, 5), i))
            inner = list(vars_)
            for _ in range(r.randint(1, 3)):
                self.proc_stmt(ind + 1, inner, funcs, depth + 1)
            self.emit(ind + 1, "print! %s" % i)
        elif k < 0.63 and depth < 2:
            c = self.fresh("cnt")
            self.emit(ind, "%s = !%d" % (c, r.randint(1, 4)))
            self.emit(ind, "while! do!(not(%s == 0)), do!:" % c)
            inner = list(vars_)
            for _ in range(r.randint(0, 2)):
                self.proc_stmt(ind + 1, inner, funcs, depth + 1)
            self.emit(ind + 1, "%s.dec!()" % c)
        elif k < 0.72 and depth < 2:
            c = self.fresh("b")
            self.emit(ind, "%s = %s" % (c, self.cond(vars_)))
            self.emit(ind, "if! %s:" % c)
            self.emit(ind + 1, "do!:")
            inner = list(vars_)
            for _ in range(r.randint(1, 3)):
                self.proc_stmt(ind + 2, inner, funcs, depth + 1)
            self.emit(ind + 2, "print! %s" % self.expr(inner))
            if r.random() < 0.6:
                self.emit(ind + 1, "do!:")
                self.emit(ind + 2, "print! %s" % self.expr(vars_))
        elif k < 0.78:
            v = self.fresh("l")
            kind = r.choice(["list", "tuple", "dict", "set", "rec"])
            es = [self.expr(vars_, 1) for _ in range(r.randint(1, 4))]
            if kind == "list":
                self.emit(ind, "%s = [%s]" % (v, ", ".join(es)))
                self.emit(ind, "print! %s[0]" % v)
            elif kind == "tuple":
                self.emit(ind, "%s = (%s, %s)" % (v, es[0], es[-1]))
                self.emit(ind, "print! %s[1]" % v)
            elif kind == "dict":
                self.emit(ind, "%s = {%s}" % (v, ", ".join('"k%d": %s' % (j, e) for j, e in enumerate(es))))
                self.emit(ind, "print! %s" % v)
            elif kind == "set":
                self.emit(ind, "%s = {%s}" % (v, ", ".join(self.lit() for _ in es)))
                self.emit(ind, "print! %s" % v)
            else:
                self.emit(ind, "%s = {.x = %s; .y = %s}" % (v, es[0], es[-1]))
                self.emit(ind, "print! %s.x" % v)
        elif k < 0.84:
            self.emit(ind, 'print! "s\\{%s} t\\{%s}"' % (self.expr(vars_, 1), self.expr(vars_, 1)))
        elif k < 0.9:
            self.emit(ind, "assert %s == %s" % (vars_[-1] if vars_ else "1", vars_[-1] if vars_ else "1"))
        elif k < 0.97 and depth <= 1 and "with" in self.stress:
            f = self.fresh("fh")
            self.emit(ind, 'with! open!("c14_input.txt"), %s =>' % f)
            # small and large bodies: the handler offset / jump over the handler need EXTENDED_ARG beyond 255 bytes
            for _ in range(r.choice([0, 0, 1, 12, 30])):
                self.emit(ind + 1, "print! %s" % self.expr(vars_))
            self.emit(ind + 1, "print! %s.read!()" % f)
        else:
            w = self.pure_stmt(ind, vars_)
            if self.usable:
                vars_.append(w)

    def procedure(self, ind, vars_, funcs):
        r = self.r
        f = self.fresh("proc") + "!"
        p = self.fresh("a")
        self.emit(ind, "%s %s: Int =" % (f, p))
        loc = [p]
        for _ in range(r.randint(1, 4)):
            self.proc_stmt(ind + 1, loc, funcs, 1)
        self.emit(ind + 1, "print! %s" % self.expr(loc))
        return f

    def klass(self):
        r = self.r
        c = self.fresh("K")
        self.emit(0, "%s = Class {.x = Int; .y = Int}" % c)
        self.emit(0, "%s." % c)
        ms = []
        for _ in range(r.randint(1, 3)):
            m = self.fresh("m")
            ms.append(m)
            self.emit(1, "%s self = self.x + self.y * %s" % (m, self.lit()))
        o = self.fresh("o")
        self.emit(0, "%s = %s.new {.x = %s; .y = %s}" % (o, c, self.lit(), self.lit()))
        for m in ms:
            self.emit(0, "print! %s.%s()" % (o, m))


def gen_program(rng, kind=None):
    """returns (kind, text)"""
    kinds = ["plain", "plain", "plain", "names", "consts", "gap", "gap", "longjump", "longline", "with", "with", "class", "deep", "span"]
    kind = kind or rng.choice(kinds)
    g = G(rng, stress={kind})
    vars_, funcs = [], []
    if kind == "names":
        # > 256 distinct names and constants at module level: operands need EXTENDED_ARG
        n = rng.choice([250, 260, 300, 520])
        for i in range(n):
            v = g.fresh("n")
            g.emit(0, "%s = %d" % (v, 1000 + i))
            vars_.append(v)
        for _ in range(6):
            g.emit(0, "print! %s + %s" % (rng.choice(vars_[-40:]), rng.choice(vars_)))
        vars_ = vars_[-8:]
    if kind == "consts":
        # a function with > 256 constants
        f = g.fresh("f")
        g.emit(0, "%s(a: Int): Int =" % f)
        loc = ["a"]
        for i in range(rng.choice([130, 270])):
            v = g.fresh("c")
            g.emit(1, "%s = a + %d" % (v, 100000 + i))
            loc.append(v)
        g.emit(1, " + ".join(rng.sample(loc, 5)))
        funcs.append((f, 1))
    if kind == "longline":
        v = g.fresh("w")
        g.emit(0, "%s = %s" % (v, " + ".join(str(rng.randint(0, 9)) for _ in range(rng.choice([30, 50])))))
        vars_.append(v)
        g.emit(0, '%s = "%s"' % (g.fresh("str"), "a" * rng.choice([300, 1000, 5000, 70000])))
    if kind == "class":
        g.klass()
    n_top = rng.randint(6, 18) if kind != "deep" else rng.randint(3, 6)
    for _ in range(n_top):
        g.gap()
        k = rng.random()
        if k < 0.3:
            funcs.append(g.function(0, vars_))
        elif k < 0.4:
            g.procedure(0, vars_, funcs)
        elif k < 0.45 and kind == "class":
            g.klass()
        else:
            g.proc_stmt(0, vars_, funcs)
    if kind == "deep":
        # nesting: loops in branches in loops
        ind = 0
        for d in range(rng.randint(3, 6)):
            if d % 2 == 0:
                g.emit(ind, "for! 0..<2, %s =>" % g.fresh("i"))
                ind += 1
            else:
                c = g.fresh("b")
                g.emit(ind, "%s = %s" % (c, g.cond(vars_)))
                g.emit(ind, "if! %s:" % c)
                g.emit(ind + 1, "do!:")
                ind += 2
            g.emit(ind, "print! %s" % g.expr(vars_))
    return kind, "\n".join(g.lines) + "\n"


# ---------------------------------------------------------------------------------------------------------------
# Line geometry: gaps of comment/blank lines before a construct x number of lines of its body x kind of construct.
# The line table encodes (address delta, line delta) with byte-sized fields, and a finished nested block is folded
# into the enclosing entry, so what matters is how g, n and g + n sit relative to 127/128 and 255/256.
GAPS = [0, 1, 2, 5, 20, 126, 127, 128, 200, 255, 256, 300]
BODIES = [1, 2, 60, 100, 120, 126, 127, 128, 129, 200, 255, 256, 300]
SHAPES = ["stmt", "def", "lambda", "class", "nested-def", "nested-lambda"]


def geometry_grid():
    return [(g, n, s) for s in SHAPES for g in GAPS for n in BODIES]


def crosses(g, n):
    """the sum reaches a byte boundary that neither part exceeds alone"""
    return any(g <= t and n <= t and g + n >= t for t in (127, 255))


def sample_cells(rng, k):
    """quick tier: half uniformly from the grid, half from the cells whose sums cross 127/128/255/256"""
    grid = geometry_grid()
    hot = [c for c in grid if c[2] != "stmt" and crosses(c[0], c[1])]
    return rng.sample(grid, k // 2) + rng.sample(hot, k - k // 2)


def _gap(lines, ind, g, rng, tag):
    pad = "    " * ind
    for j in range(g):
        if rng.random() < 0.5:
            lines.append("")
        else:
            lines.append("%s# %s %d" % (pad, tag, j))


def _body(lines, ind, n, arg, uid):
    """n lines: n - 1 bindings and the result expression; the last line is n lines below the header"""
    pad = "    " * ind
    prev = arg
    for j in range(n - 1):
        v = "t%d_%d" % (uid, j)
        lines.append("%s%s = %s + %d" % (pad, v, prev, j % 7))
        prev = v
    lines.append("%s%s + 1" % (pad, prev))


def geometry_program(rng, cells, uid0=0):
    """one program made of the given (gap, body lines, shape) cells, each preceded by an anchor statement"""
    L = ["anchor0 = 0"]
    for k, (g, n, shape) in enumerate(cells):
        u = uid0 + k
        if shape == "stmt":
            _gap(L, 0, g, rng, "gap")
            L.append("s%d = anchor0 + %d" % (u, n))
            L.append("print! s%d" % u)
        elif shape == "def":
            _gap(L, 0, g, rng, "gap")
            L.append("f%d(a: Int): Int =" % u)
            _body(L, 1, n, "a", u)
            L.append("print! f%d(%d)" % (u, k))
        elif shape == "lambda":
            _gap(L, 0, g, rng, "gap")
            L.append("l%d = (a: Int) ->" % u)
            _body(L, 1, n, "a", u)
            L.append("print! l%d(%d)" % (u, k))
        elif shape == "class":
            _gap(L, 0, g, rng, "gap")
            L.append("K%d = Class {.x = Int}" % u)
            L.append("K%d." % u)
            L.append("    m%d self =" % u)
            _body(L, 2, n, "self.x", u)
            L.append("print! K%d.new({.x = %d}).m%d()" % (u, k, u))
        elif shape in ("nested-def", "nested-lambda"):
            L.append("o%d(b: Int): Int =" % u)
            L.append("    w%d = b + 1" % u)
            _gap(L, 1, g, rng, "gap")
            if shape == "nested-def":
                L.append("    i%d(a: Int): Int =" % u)
            else:
                L.append("    i%d = (a: Int) ->" % u)
            _body(L, 2, n, "a", u)
            L.append("    i%d(w%d) + b" % (u, u))
            L.append("print! o%d(%d)" % (u, k))
        L.append("anchor%d = %d" % (u + 1, k))
    return "\n".join(L) + "\n"
