"""C20 / C19 — running generated projects through the real `erg` binary (hooks on), turning the trace into
model inputs (graph snapshot, ancestor orders, main-thread script, transition-system labels) and comparing."""
import concurrent.futures as cf
import os
import re
import shutil
import tempfile

from lib.vplib import CACHE
from pylib.c20_gen import (expected, mod_id, parse_trace, run_erg, write_project, _reachable)

HANG_S = 60          # the property's "terminates": a build that takes longer than this is looked at again
RETRY_S = 420        # ... with this limit, to tell a hang from a loaded machine


def tmp_root():
    d = os.path.join(CACHE, "tmp")
    os.makedirs(d, exist_ok=True)
    return d


def erg_with_retry(erg, env, d, mode, trace, seed, extra_env=None):
    r = run_erg(erg, env, d, mode, trace=trace, sched_seed=seed, timeout=HANG_S, extra_env=extra_env)
    r["slow"] = False
    if r["timeout"]:
        if trace and os.path.exists(trace):
            os.remove(trace)
        for f in os.listdir(d):
            if f.endswith(".pyc"):
                os.remove(os.path.join(d, f))
        r2 = run_erg(erg, env, d, mode, trace=trace, sched_seed=seed, timeout=RETRY_S, extra_env=extra_env)
        r2["slow"] = True
        return r2
    return r


def run_project(erg, env, proj, seed=None, modes=("run",), keep=False):
    """writes the project into its own temp dir, runs erg, returns observations; the dir is removed afterwards"""
    d = tempfile.mkdtemp(prefix="c20-", dir=tmp_root())
    out = {"dir": d}
    try:
        write_project(proj, d)
        for mode in modes:
            tr = os.path.join(d, "trace-%s.txt" % mode)
            r = erg_with_retry(erg, env, d, mode, tr, seed)
            r["trace"] = parse_trace(tr)
            r["err"] = r["err"].replace(d, "<D>")
            out[mode] = r
        return out
    finally:
        if not keep:
            shutil.rmtree(d, ignore_errors=True)


# ------------------------------------------------------------------ trace -> observations
def names(s):
    return [mod_id(x) for x in s.split(",") if x]


def snapshot(trace):
    """GRAPH line -> dict(root, nodes [[id, [deps]]...] in vector order, inlines [[p, q]...], asts [...], cyclic)"""
    for t in trace:
        if t[0] == "GRAPH":
            kv = dict(x.split("=", 1) for x in t[1:])
            nodes = []
            for part in kv.get("nodes", "").split(";"):
                if not part:
                    continue
                a, ds = part.split(":")
                nodes.append([mod_id(a), names(ds)])
            inl = [[mod_id(p.split(">")[0]), mod_id(p.split(">")[1])] for p in kv.get("inlines", "").split(",") if p]
            return {"root": mod_id(kv["root"]), "nodes": nodes, "inlines": inl, "asts": names(kv.get("asts", "")),
                    "cyclic": names(kv.get("cyclic", ""))}
    return None


def main_events(trace):
    """what build_deps_and_module did, in the event encoding of Build/Extract.v (enc_event),
    and the ancestor vectors (the oracle for the model)"""
    ev, ords = [], []
    for t in trace:
        k = t[0]
        if k == "DEPS-ENTER":
            anc = names(t[2][1:-1])
            ords.append(anc)
            ev.append([0, mod_id(t[1]), anc])
        elif k == "POP":
            pass                       # the model's EvPop is implied by the next event; rotations are not events
        elif k == "START":
            if t[2] in ("thread", "seq"):
                ev.append([2, mod_id(t[1])])
            elif t[2] == "skip":
                ev.append([3, mod_id(t[1])])
        elif k == "INLINED":
            if t[2] in ("registered", "cached"):
                ev.append([4, mod_id(t[1])])
        elif k == "MARK-JOINED":
            ev.append([5, mod_id(t[1])])
        elif k == "DEPS-LEAVE":
            ev.append([6, mod_id(t[1])])
    return ev, ords


def model_events(ev):
    """model event list without EvPop (1), for comparison with main_events"""
    return [e for e in ev if e[0] != 1]


def analysed(trace, root=0):
    """one record per analysis of a module: the entry itself, RUN-BEGIN (own thread / sequential run) and
    INLINE-LOWER .. analyse (lowered inside its inliner)"""
    a = [root]
    for t in trace:
        if t[0] == "RUN-BEGIN":
            a.append(mod_id(t[1]))
        elif t[0] == "INLINE-LOWER" and t[3] == "analyse":
            a.append(mod_id(t[2]))
    return a


def script_and_labels(trace, snap):
    """main-thread script (enc_action) and the label sequence (dec_label: [kind, a, b, decision]) of the run"""
    root = snap["root"]
    inl = dict((p, q) for p, q in snap["inlines"])

    def thread_of(p):
        n = 0
        while p in inl and n <= len(inl):
            p = inl[p]
            n += 1
        return p
    script, labels = [], []
    depth = 0
    wake_root = False

    def main_goes_on():
        nonlocal wake_root
        if wake_root:
            labels.append([5, root, 0, -1])
            wake_root = False
    done = False
    for t in trace:
        k = t[0]
        if k == "DEPS-ENTER":
            depth += 1
        elif k == "DEPS-LEAVE":
            depth -= 1
            if depth == 0 and not done:
                main_goes_on()
                labels.append([3, 0, 0, -1])
                done = True
        elif k == "START" and t[2] in ("thread", "seq"):
            main_goes_on()
            script.append([0, mod_id(t[1])])
            labels.append([0, mod_id(t[1]), 0, -1])
        elif k == "MARK-JOINED":
            main_goes_on()
            script.append([1, mod_id(t[1])])
            labels.append([1, mod_id(t[1]), 0, -1])
        elif k == "INLINED" and t[2] == "registered":
            main_goes_on()
            script.append([2, mod_id(t[1])])
            labels.append([2, mod_id(t[1]), 0, -1])
            wake_root = True
        elif k == "RUN-END":
            labels.append([7, mod_id(t[1]), 0, -1])
        elif k == "INLINE-LOWER-END":
            p = mod_id(t[1])
            labels.append([6, thread_of(p), p, -1])
        elif k == "JOIN":
            cur, p, dec = mod_id(t[1]), mod_id(t[2]), t[3]
            if cur == root:
                main_goes_on()
            if dec == "wait":
                labels.append([4, cur, p, 3])
            elif dec in ("joined", "already-joined"):
                labels.append([5, cur, 0, -1])
            elif dec == "seq-joined":
                labels.append([4, cur, p, 3])
                labels.append([5, cur, 0, -1])
            elif dec == "self-or-dependent":
                labels.append([4, cur, p, 1])
            elif dec == "unrelated":
                labels.append([4, cur, p, 2])
            else:
                labels.append([4, cur, p, 99])
    if done:
        labels.append([7, root, 0, -1])
    return script, labels


def observe(proj, res):
    """observations of one `erg run`: the inputs of judge_C20"""
    exp = expected(proj)
    r = res["run"]
    lines = [l.strip() for l in r["out"].splitlines() if re.match(r"[MVTBU]:", l.strip())]
    markers = [int(l[2:]) for l in lines if l.startswith("M:")]
    others = sorted(l for l in lines if not l.startswith("M:"))
    want = sorted(l for l in exp["lines"] if not l.startswith("M:"))
    compiled = (r["rc"] == 0) and not re.search(r"^\S*Error\[#", r["err"], re.M) and "Traceback" not in r["err"]
    return {"terminated": not r["timeout"], "compiled": bool(compiled), "markers": markers,
            "values_ok": others == want, "analysed": analysed(r["trace"]), "mods": exp["modules"],
            "got": lines, "want": exp["lines"], "rc": r["rc"], "slow": r.get("slow", False),
            "errors": [l for l in r["err"].splitlines() if re.search(r"Error|panicked|Traceback|assert", l)][:6]}


def sx_project(proj):
    return [[i, proj["imports"][i]] for i in range(proj["n"])]


def pmap(f, items, workers=8):
    with cf.ThreadPoolExecutor(workers) as ex:
        return list(ex.map(f, items))


def shrink_project(proj, still_fails, budget=10):
    """greedy: drop imports one at a time (then unreachable modules disappear from the observation) while the
    failure persists; each test is a real build, so the budget is small"""
    cur = proj
    tests = 0
    changed = True
    while changed and tests < budget:
        changed = False
        for i in range(cur["n"]):
            for j in list(cur["imports"][i]):
                if tests >= budget:
                    break
                cand = dict(cur)
                cand["imports"] = [list(l) for l in cur["imports"]]
                cand["imports"][i].remove(j)
                tests += 1
                if still_fails(cand):
                    cur = cand
                    changed = True
                    break
            if changed:
                break
    return cur
