"""Typing fragment (properties C05, C02, C34): seeded generator, Erg printer, position enumeration for error
injection, parser of the types printed by `erg --mode typecheck`, parser of printed run-time values.

Trees are the wire format of coq/Typing/Extract.v (nested python lists; Str payloads are python strings, sx_dump sends
them as code point lists; trees coming back from the model carry code point lists: normalise() turns them into str).

    expr   [0, kind, payload] literal (kind 0 Nat | 1 negative Int | 2 Float bits | 3 Str | 4 Bool | 5 None)
           [1, id] | [2, op, e] | [3, op, a, b] | [4, op, a, b] | [5, k, a, b] | [6, [e..]] | [7, a, i] | [8, c, a, b]
           | [9, f, [arg..]] | [10, m, recv, [arg..]]
    type   [0] NoneType [1] Bool [2] Nat [3] Int [4] Float [5] Str [6, [value..]] enum [7, lo, hi] interval
           [8, t] List(t) [9, t, n] List(t, n)
    value  [0, z] [1, b] [2, bits] [3, str] [4] None [5, [value..]]
    stmt   [0, x, ann, e] | [1, [e..]] | [2, e] | [3, f, lam, [[id, type, [default]?]..], ret, [[x, e]..], res]
           | [4, c, [s..], [s..]] | [5, x, it, [s..]]

Python-side static types (mirroring erg's class-level typing, used only to *aim*; the verdict is the checkers'):
    "Nat" "Int" "Float" "Str" "Bool"  ("List", T, n)
"""
import ast
import re
import struct
from decimal import Decimal

NAT, INT, FLOAT, STR, BOOL = "Nat", "Int", "Float", "Str", "Bool"
SCALARS = [NAT, INT, FLOAT, STR, BOOL]
ARITH = ["+", "-", "*", "/", "//", "%", "**"]
CMP = ["<", "<=", "==", "!=", ">", ">="]
UNOPS = ["-", "+", "not", "~"]
M_SUCC, M_PRED, M_BIT_COUNT, M_PUSH, M_SUM, M_ABS, M_LEN, M_ABSF = 0, 1, 2, 8, 10, 30, 40, 41
# length-changing immutable List methods with a length-indexed declared result (classes.rs: insert : N + 1,
# remove_at : N - 1, repeat(M) : N * M); not in the Coq model (its checker rejects them): judged by has_ty only
M_INSERT, M_REMOVE_AT, M_REPEAT = 50, 51, 52
METHOD_NAMES = {M_SUCC: "succ", M_PRED: "pred", M_BIT_COUNT: "bit_count", M_PUSH: "push", M_SUM: "sum", M_ABS: "abs",
                M_INSERT: "insert", M_REMOVE_AT: "remove_at", M_REPEAT: "repeat"}
FUNC_NAMES = {M_LEN: "len", M_ABSF: "abs"}
# attributes no builtin class of the fragment has / methods of another class (used by the attribute mutation)
BOGUS_METHODS = {90: "frobnicate", 91: "succc", 92: "push_back", 93: "upperr"}
E_LIT, E_VAR, E_UN, E_BIN, E_CMP, E_LOGIC, E_LIST, E_INDEX, E_IF, E_CALL, E_METH = range(11)
S_DEF, S_PRINT, S_ASSERT, S_FUN, S_IF, S_FOR = range(6)


def TList(t, n=None):
    return ("List", t, n)


def is_list(t):
    return isinstance(t, tuple) and t[0] == "List"


def f2bits(f):
    return struct.unpack("<Q", struct.pack("<d", f))[0]


def bits2f(b):
    return struct.unpack("<d", struct.pack("<Q", b))[0]


def wire_ty(t):
    if is_list(t):
        return [8, wire_ty(t[1])] if t[2] is None else [9, wire_ty(t[1]), t[2]]
    return [{"None": 0, BOOL: 1, NAT: 2, INT: 3, FLOAT: 4, STR: 5}[t]]


def lit(kind, payload):
    return [E_LIT, kind, payload]


def nat(n):
    return lit(0, n) if n >= 0 else lit(1, n)


# ------------------------------------------------------------------------------------------------ generator
NAT_POOL = [0, 1, 2, 3, 4, 5, 7, 10, 12, 100, 255, 256, 1000, 65535, 2**31 - 1]
NEG_POOL = [-1, -2, -3, -5, -7, -10, -128, -1000, -2**31 + 1]
FLOAT_POOL = [0.0, 1.0, -1.0, 0.5, 1.5, -1.5, 2.5, 0.1, 3.25, -100.25, 1e10, 123456.789]
STR_POOL = ["", "a", "ab", "abc", "x y", "hello", "Z9", "q"]


class Gen:
    """profile 'c05': well-typed by construction (aimed at both checkers accepting), rich nesting;
       'c02': loose typing (operands of neighbouring classes, `**` of anything, wide literals incl. negative ones);
       'c34': top-level bindings from literals, arithmetic, lists, push / + / sum, functions"""

    def __init__(self, rng, profile="c05", max_stmts=10):
        self.rng = rng
        self.profile = profile
        self.loose = 0.12 if profile == "c02" else 0.0
        self.max_stmts = max_stmts
        self.next_id = 0
        self.vars = []          # (id, ty) visible variables, innermost last
        self.funs = []          # (id, [(pid, ty, has_default)], ret)
        self.noarith = set()    # ids bound to a numeric if-expression (never used as operands, see expr)
        self.enumvars = set()   # ids whose erg type is a singleton / enum (defined by a literal, loop variable of a literal list)

    def fresh(self):
        self.next_id += 1
        return self.next_id

    # ---- literals
    def lit(self, ty):
        r = self.rng
        if ty == NAT:
            return lit(0, r.choice(NAT_POOL) if r.random() < 0.7 else r.randint(0, 50))
        if ty == INT:
            if r.random() < 0.7:
                return lit(1, r.choice(NEG_POOL) if r.random() < 0.6 else -r.randint(1, 60))
            return self.lit(NAT)
        if ty == FLOAT:
            f = r.choice(FLOAT_POOL) if r.random() < 0.7 else r.randint(-400, 400) / r.choice([2, 4, 8, 10])
            return lit(2, f2bits(float(f)))
        if ty == STR:
            return lit(3, r.choice(STR_POOL))
        if ty == BOOL:
            return lit(4, r.randint(0, 1))
        if is_list(ty):
            n = ty[2] if ty[2] is not None else r.randint(1, 4)
            if ty[1] == INT:
                return [E_LIST, [lit(1, r.choice(NEG_POOL) if r.random() < 0.6 else -r.randint(1, 60)) for _ in range(n)]]
            return [E_LIST, [self.lit(ty[1]) for _ in range(n)]]
        raise ValueError(ty)

    def vars_of(self, ty):
        out = []
        for i, t in self.vars:
            if i in self.noarith and not self.loose:
                continue
            if t == ty or (ty == INT and t == NAT) or (ty == FLOAT and t in (NAT, INT) and self.loose):
                out.append(i)
            elif is_list(ty) and is_list(t) and t[1] == ty[1] and (ty[2] is None or ty[2] == t[2]):
                out.append(i)
        return out

    def var_ty(self, i):
        for j, t in reversed(self.vars):
            if j == i:
                return t
        return None

    def neighbour(self, ty):
        """loose mode: a class next to ty (so that erg decides whether it fits)"""
        r = self.rng
        return {NAT: r.choice([INT, BOOL, INT]), INT: r.choice([NAT, FLOAT, NAT]), FLOAT: r.choice([INT, NAT]),
                STR: r.choice([STR, NAT]), BOOL: r.choice([NAT, BOOL])}.get(ty, ty)

    # ---- expressions: returns (tree, static type actually built)
    def expr(self, ty, d, top=False):
        r = self.rng
        if self.loose and not is_list(ty) and r.random() < self.loose:
            ty = self.neighbour(ty)
        if is_list(ty):
            return self.list_expr(ty, d)
        prods = [(3, lambda: (self.lit(ty), ty))]
        vs = self.vars_of(ty)
        if vs:
            prods.append((5, lambda: self.var_of(r.choice(vs))))
        if ty == INT:
            prods.append((2, lambda: self.expr(NAT, d)))
        if d > 0:
            if ty == NAT:
                prods += [(4, lambda: self.arith(r.choice([0, 2]), NAT, NAT, d, NAT)),
                          (2, lambda: self.arith(r.choice([4, 5]), NAT, NAT, d, NAT, nonzero=True)),
                          (1, lambda: self.pow_(d)),
                          (2, lambda: self.meth(r.choice([M_ABS, M_ABSF, M_BIT_COUNT]), INT, d, NAT)),
                          (2, lambda: self.len_(d))]
                prods.append((1, lambda: self.sum_(NAT, d)))
            if ty == INT:
                prods += [(4, lambda: self.arith(r.choice([0, 1, 1, 2]), r.choice([NAT, INT]), r.choice([NAT, INT]), d, INT)),
                          (2, lambda: self.arith(r.choice([4, 5]), INT, r.choice([NAT, INT]), d, INT, nonzero=True)),
                          (2, lambda: self.un(r.choice([0, 0, 1, 3]), r.choice([NAT, INT]), d, INT)),
                          (2, lambda: self.meth(r.choice([M_SUCC, M_PRED]), r.choice([NAT, INT]), d, INT)),
                          (1, lambda: self.sum_(INT, d))]
            if ty == FLOAT:
                prods += [(4, lambda: self.arith(r.choice([0, 1, 2]), FLOAT, r.choice([NAT, INT, FLOAT]), d, FLOAT, swap=True)),
                          (3, lambda: self.arith(3, r.choice([NAT, INT, FLOAT]), r.choice([NAT, INT, FLOAT]), d, FLOAT, nonzero=True)),
                          (1, lambda: self.un(r.choice([0, 1]), FLOAT, d, FLOAT))]
            if ty == STR:
                prods += [(3, lambda: self.arith(0, STR, STR, d, STR)),
                          (1, lambda: ([E_BIN, 2, self.expr(STR, d - 1)[0], lit(0, r.randint(0, 3))], STR))]
            if ty == BOOL:
                prods += [(5, lambda: self.cmp(d)), (2, lambda: self.logic(d)),
                          (2, lambda: ([E_UN, 2, self.expr(BOOL, d - 1)[0]], BOOL))]
            # erg mistypes arithmetic on a numeric if-expression (known_enum_arith, known/C01.json): numeric ones only
            # as a whole definition / print argument, and the variable bound to one is not used as an operand
            if ty == BOOL or top or self.loose:
                prods.append((1 if not top else 3, lambda: self.if_expr(ty, d)))
            fs = [f for f in self.funs if f[2] == ty]
            if fs:
                prods.append((4, lambda: self.call(r.choice(fs), d)))
            ls = [(i, t) for i, t in self.vars if is_list(t) and t[1] == ty and t[2]]
            if ls:
                prods.append((2, lambda: self.index(r.choice(ls))))
        tot = sum(w for w, _ in prods)
        k = r.random() * tot
        for w, f in prods:
            k -= w
            if k <= 0:
                return f()
        return prods[-1][1]()

    def var_of(self, i):
        return [E_VAR, i], self.var_ty(i)

    def nonzero_of(self, ty, d):
        r = self.rng
        if self.loose and r.random() < 0.15:
            return self.expr(ty, d)[0]          # may be zero: ZeroDivisionError is a legitimate outcome
        if ty == FLOAT:
            return lit(2, f2bits(r.choice([0.5, 1.5, -2.0, 4.0, 0.25])))
        if ty == INT and r.random() < 0.5:
            return lit(1, -r.randint(1, 9))
        return lit(0, r.randint(1, 9))

    def arith(self, op, ta, tb, d, res, nonzero=False, swap=False):
        if swap and self.rng.random() < 0.5:
            ta, tb = tb, ta
        a = self.expr(ta, d - 1)[0]
        b = self.nonzero_of(tb, d - 1) if nonzero else self.expr(tb, d - 1)[0]
        return [E_BIN, op, a, b], res

    def pow_(self, d):
        r = self.rng
        if self.loose:
            ta, tb = r.choice([NAT, INT, INT, FLOAT]), r.choice([NAT, NAT, INT])
            a = self.expr(ta, d - 1)[0]
            # exponents stay small (a literal): a huge power would only test Python's bignum speed
            b = lit(0, r.randint(0, 3)) if r.random() < 0.6 else nat(r.choice([-3, -2, -1, 5, 11]))
            return [E_BIN, 6, a, b], NAT
        return [E_BIN, 6, self.expr(NAT, d - 1)[0], lit(0, r.randint(0, 3))], NAT

    def un(self, op, ta, d, res):
        return [E_UN, op, self.expr(ta, d - 1)[0]], res

    def meth(self, m, tr, d, res):
        return [E_METH, m, self.expr(tr, d - 1)[0], []], res

    def len_(self, d):
        r = self.rng
        ls = [i for i, t in self.vars if is_list(t) or (t == STR and i not in self.enumvars)]
        if ls and r.random() < 0.7:
            return [E_METH, M_LEN, [E_VAR, r.choice(ls)], []], NAT
        if r.random() < 0.5:   # a concatenation: class-typed (erg: an enum-typed Str "does not implement Sequence")
            return [E_METH, M_LEN, [E_BIN, 0, self.expr(STR, d - 1)[0], self.expr(STR, 0)[0]], []], NAT
        return [E_METH, M_LEN, self.list_expr(TList(r.choice([NAT, INT, STR])), d - 1)[0], []], NAT

    def sum_(self, ety, d):
        return [E_METH, M_SUM, self.list_expr(TList(ety), d - 1)[0], []], ety

    def cmp(self, d):
        r = self.rng
        k = r.random()
        if k < 0.6:
            ta, tb = r.choice([NAT, INT, FLOAT]), r.choice([NAT, INT, FLOAT])
            op = r.choice([0, 1, 4, 5])
            if FLOAT not in (ta, tb) and r.random() < 0.4:
                op = r.choice([2, 3])
        elif k < 0.8:
            ta = tb = STR
            op = r.randint(0, 5)
        else:
            ta, tb = r.choice([NAT, INT]), r.choice([NAT, INT])
            op = r.choice([2, 3])
        return [E_CMP, op, self.expr(ta, d - 1)[0], self.expr(tb, d - 1)[0]], BOOL

    def logic(self, d):
        return [E_LOGIC, self.rng.randint(0, 1), self.expr(BOOL, d - 1)[0], self.expr(BOOL, d - 1)[0]], BOOL

    def if_expr(self, ty, d):
        c = self.expr(BOOL, d - 1)[0]
        a, ta = self.expr(ty, d - 1)
        b, tb = self.expr(ty, d - 1)
        return [E_IF, c, a, b], (ta if ta == tb else ty)

    def call(self, f, d):
        fid, ps, ret = f
        args = []
        r = self.rng
        for k, (pid, pty, has_default) in enumerate(ps):
            if has_default and all(p[2] for p in ps[k:]) and r.random() < 0.5:
                break
            args.append(self.expr(pty, max(d - 1, 0))[0])
        return [E_CALL, fid, args], ret

    def index(self, lv):
        i, t = lv
        return [E_INDEX, [E_VAR, i], lit(0, self.rng.randint(0, t[2] - 1))], t[1]

    def list_expr(self, ty, d):
        """ty = ("List", T, n|None); returns a list expression with statically known length"""
        r = self.rng
        ety, n = ty[1], ty[2]
        vs = [(i, t) for i, t in self.vars if is_list(t) and t[1] == ety and t[2] is not None and (n is None or t[2] == n)]
        prods = [(3, "lit")]
        if vs:
            prods.append((4, "var"))
        if d > 0 and n is None:
            prods += [(3, "push"), (3, "concat")]
            if self.profile == "c34":
                prods += [(3, "remove_at"), (3, "insert"), (2, "repeat")]
        kind = r.choices([k for _, k in prods], weights=[w for w, _ in prods])[0]
        if kind in ("remove_at", "insert", "repeat"):
            l, t = self.list_expr(TList(ety), d - 1)
            m = t[2]
            # index at the boundaries: 0, N - 1, N, N + 1, large (at or beyond the end remove_at raises IndexError:
            # the binding then holds nothing; insert appends)
            idx = r.choice([0, max(m - 1, 0), max(m - 1, 0), r.randint(0, max(m - 1, 0)), m, m + 1, 1000])
            if kind == "remove_at":
                if m == 0:
                    return l, t
                return [E_METH, M_REMOVE_AT, l, [lit(0, idx)]], TList(ety, m - 1)
            if kind == "insert":
                return [E_METH, M_INSERT, l, [lit(0, idx), self.expr(ety, d - 1)[0]]], TList(ety, m + 1)
            k = r.choice([0, 1, 2, 2, 3])
            return [E_METH, M_REPEAT, l, [lit(0, k)]], TList(ety, m * k)
        if kind == "var":
            i, t = r.choice(vs)
            return [E_VAR, i], t
        if kind == "push":
            l, t = self.list_expr(TList(ety), d - 1)
            return [E_METH, M_PUSH, l, [self.expr(ety, d - 1)[0]]], TList(ety, t[2] + 1)
        if kind == "concat":
            a, ta = self.list_expr(TList(ety), d - 1)
            b, tb = self.list_expr(TList(ety), d - 1)
            return [E_BIN, 0, a, b], TList(ety, ta[2] + tb[2])
        k = n if n is not None else r.randint(1, 4)
        if d > 0 and r.random() < 0.4 and ety != INT:
            return [E_LIST, [self.expr(ety, d - 1)[0] for _ in range(k)]], TList(ety, k)
        return self.lit(TList(ety, k)), TList(ety, k)

    # ---- statements
    def scalar_ty(self):
        return self.rng.choices(SCALARS, weights=[5, 5, 3, 2, 3])[0]

    def s_def(self, d=2):
        r = self.rng
        if r.random() < (0.35 if self.profile == "c34" else 0.2):
            e, t = self.list_expr(TList(r.choice([NAT, INT, STR, FLOAT] if self.profile != "c34" else [NAT, NAT, INT, STR])), d)
        else:
            e, t = self.expr(self.scalar_ty(), r.choice([0, 1, 2, 2, 3]) if d else 0, top=True)
        ann = 0
        if not is_list(t) and r.random() < 0.2:
            ann = wire_ty(t if r.random() < 0.7 or t != NAT else INT)
        i = self.fresh()
        self.vars.append((i, t))
        if e[0] in (E_LIT, E_IF, E_INDEX) or (e[0] == E_VAR and e[1] in self.enumvars):
            self.enumvars.add(i)
        if e[0] == E_IF or (e[0] == E_VAR and e[1] in self.noarith):
            self.noarith.add(i)
        return [S_DEF, i, ann, e]

    def s_print(self):
        r = self.rng
        es = []
        for _ in range(r.choice([1, 1, 2, 3])):
            if r.random() < 0.15:
                es.append(self.list_expr(TList(r.choice([NAT, INT, STR])), 1)[0])
            else:
                es.append(self.expr(self.scalar_ty(), r.choice([0, 1, 2, 3]), top=True)[0])
        return [S_PRINT, es]

    def s_assert(self):
        r = self.rng
        a = r.randint(0, 40)
        forms = [[E_CMP, 0, lit(0, a), lit(0, a + r.randint(1, 9))],
                 [E_LOGIC, 1, self.expr(BOOL, 1)[0], lit(4, 1)]]
        return [S_ASSERT, r.choice(forms)]

    def block(self, n, depth):
        mark = len(self.vars), len(self.funs)
        out = []
        for _ in range(n):
            out.append(self.stmt(depth))
        if out[-1][0] in (S_DEF, S_FUN):
            out.append(self.s_print())
        del self.vars[mark[0]:]
        del self.funs[mark[1]:]
        return out

    def cond(self):
        """condition of an if! statement: its Erg text must not begin with `(`"""
        r = self.rng
        k = r.random()
        bs = self.vars_of(BOOL)
        if k < 0.2 and bs:
            return [E_VAR, r.choice(bs)]
        if k < 0.4:
            return [E_UN, 2, self.expr(BOOL, 2)[0]]
        ta = r.choice([NAT, INT])
        vs = self.vars_of(ta)
        left = [E_VAR, r.choice(vs)] if vs else lit(0, r.randint(0, 9))
        return [E_CMP, r.choice([0, 1, 4, 5]), left, self.expr(r.choice([NAT, INT]), 1)[0]]

    def s_if(self, depth):
        c = self.cond()
        th = self.block(self.rng.randint(1, 2), depth + 1)
        el = self.block(self.rng.randint(1, 2), depth + 1) if self.rng.random() < 0.5 else []
        return [S_IF, c, th, el]

    def s_for(self, depth):
        r = self.rng
        ls = [(i, t) for i, t in self.vars if is_list(t)]
        if ls and r.random() < 0.5:
            i, t = r.choice(ls)
            it = [E_VAR, i]
        else:
            it, t = self.list_expr(TList(r.choice([NAT, INT, STR, FLOAT])), 0)
        x = self.fresh()
        self.vars.append((x, t[1]))
        self.enumvars.add(x)
        body = self.block(r.randint(1, 2), depth + 1)
        self.vars.pop()
        return [S_FOR, x, it, body]

    def s_fun(self, lam):
        r = self.rng
        ps = []
        seen_default = False
        saved = list(self.vars)
        wire_ps = []
        for _ in range(r.randint(1, 3 if not lam else 2)):
            ty = self.scalar_ty() if (seen_default or r.random() < 0.85) else TList(r.choice([NAT, INT]))
            default = []
            if not lam and not is_list(ty) and (seen_default or r.random() < 0.3):
                default = [self.expr(ty, 1)[0] if r.random() < 0.3 else self.lit(ty)]
                seen_default = True
            pid = self.fresh()
            ps.append((pid, ty, bool(default)))
            wire_ps.append([pid, wire_ty(ty), default])
        for pid, ty, _ in ps:
            self.vars.append((pid, ty))
        locals_ = []
        if not lam:
            for _ in range(r.choice([0, 0, 1, 2])):
                s = self.s_def()
                locals_.append([s[1], s[3]])
        res, rt = self.expr(self.scalar_ty(), 2)
        self.vars = saved
        ret = 0
        if not lam and not is_list(rt) and r.random() < 0.4:
            ret = wire_ty(rt)
        fid = self.fresh()
        self.funs.append((fid, ps, rt))
        return [S_FUN, fid, 1 if lam else 0, wire_ps, ret, locals_, res]

    def stmt(self, depth=0):
        r = self.rng
        kinds = [("def", 30), ("print", 22), ("assert", 3)]
        if depth < 2:
            kinds += [("if", 7), ("for", 7)]
        kinds += [("lam", 5)]
        if depth == 0:
            kinds += [("fun", 12)]
        if self.profile == "c34":
            kinds = [("def", 60), ("print", 5), ("fun", 10 if depth == 0 else 0), ("lam", 4), ("for", 3 if depth < 1 else 0)]
        k = r.choices([a for a, _ in kinds], weights=[b for _, b in kinds])[0]
        if k == "def":
            return self.s_def()
        if k == "print":
            return self.s_print()
        if k == "assert":
            return self.s_assert()
        if k == "if":
            return self.s_if(depth)
        if k == "for":
            return self.s_for(depth)
        if k == "fun":
            return self.s_fun(False)
        return self.s_fun(True)

    def program(self):
        n = self.rng.randint(3, self.max_stmts)
        prog = [self.stmt(0) for _ in range(n)]
        if prog[-1][0] != S_PRINT:
            prog.append(self.s_print())
        return prog


# ------------------------------------------------------------------------------------------------ Erg printer
def as_str(payload):
    return payload if isinstance(payload, str) else "".join(chr(c) for c in payload)


def normalise(x):
    """tree returned by the model (Str payloads as code point lists) -> generator form"""
    if isinstance(x, list):
        if len(x) == 3 and x[0] == E_LIT and x[1] == 3 and not isinstance(x[2], str) and _is_expr_slot(x):
            return [E_LIT, 3, as_str(x[2])]
        return [normalise(y) for y in x]
    return x


def _is_expr_slot(x):
    return isinstance(x[2], list) and all(isinstance(c, int) for c in x[2])


def float_text(f):
    r = repr(f)
    if "e" in r or "E" in r or "inf" in r or "nan" in r:
        r = format(Decimal(f), "f")
    if "." not in r:
        r += ".0"
    return r


def erg_str(s):
    out = ['"']
    for ch in s:
        out.append({'"': '\\"', "\\": "\\\\", "\n": "\\n"}.get(ch, ch))
    out.append('"')
    return "".join(out)


def erg_lit(e):
    k, v = e[1], e[2]
    if k in (0, 1):
        return str(v)
    if k == 2:
        f = bits2f(v)
        return ("-" if (v >> 63) else "") + float_text(abs(f))
    if k == 3:
        return erg_str(as_str(v))
    if k == 4:
        return "True" if v else "False"
    return "None"


def erg_atomic(e):
    t = e[0]
    if t == E_LIT:
        return not (e[1] == 1 or (e[1] == 0 and e[2] < 0) or (e[1] == 2 and (e[2] >> 63)))
    if t == E_UN and e[1] == 2:
        return True
    if t == E_METH and e[1] in FUNC_NAMES:
        return True
    return t in (E_VAR, E_LIST, E_CALL, E_INDEX, E_IF)


def erg_op(e):
    s = erg_expr(e)
    return s if erg_atomic(e) else "(" + s + ")"


def vname(i):
    return "v%d" % i


def erg_expr(e):
    t = e[0]
    if t == E_LIT:
        return erg_lit(e)
    if t == E_VAR:
        return vname(e[1])
    if t == E_UN:
        if e[1] == 2:
            return "not(%s)" % erg_expr(e[2])
        return "%s(%s)" % (UNOPS[e[1]], erg_expr(e[2]))
    if t == E_BIN:
        return "%s %s %s" % (erg_op(e[2]), ARITH[e[1]], erg_op(e[3]))
    if t == E_CMP:
        return "%s %s %s" % (erg_op(e[2]), CMP[e[1]], erg_op(e[3]))
    if t == E_LOGIC:
        return "%s %s %s" % (erg_op(e[2]), ["and", "or"][1 if e[1] else 0], erg_op(e[3]))
    if t == E_LIST:
        return "[" + ", ".join(erg_expr(x) for x in e[1]) + "]"
    if t == E_INDEX:
        return "%s[%s]" % (erg_op(e[1]), erg_expr(e[2]))
    if t == E_IF:
        return "if(%s, (do: %s), (do: %s))" % (erg_expr(e[1]), erg_expr(e[2]), erg_expr(e[3]))
    if t == E_CALL:
        return "%s(%s)" % (vname(e[1]), ", ".join(erg_expr(x) for x in e[2]))
    if t == E_METH:
        m, r, args = e[1], e[2], e[3]
        if m in FUNC_NAMES:
            return "%s(%s)" % (FUNC_NAMES[m], ", ".join(erg_expr(x) for x in [r] + args))
        name = METHOD_NAMES.get(m) or BOGUS_METHODS.get(m) or "m%d" % m
        recv = erg_expr(r)
        if not (r[0] in (E_VAR, E_LIST, E_CALL, E_INDEX) or (r[0] == E_METH)):
            recv = "(" + recv + ")"
        return "%s.%s(%s)" % (recv, name, ", ".join(erg_expr(x) for x in args))
    raise ValueError(e)


def erg_value(v):
    k = v[0]
    if k == 0:
        return str(v[1])
    if k == 1:
        return "True" if v[1] else "False"
    if k == 2:
        f = bits2f(v[1])
        return ("-" if (v[1] >> 63) else "") + float_text(abs(f))
    if k == 3:
        return erg_str(as_str(v[1]))
    if k == 4:
        return "None"
    return "[" + ", ".join(erg_value(x) for x in v[1]) + "]"


def erg_ty(t):
    k = t[0]
    if k <= 5:
        return ["NoneType", "Bool", "Nat", "Int", "Float", "Str"][k]
    if k == 6:
        return "{" + ", ".join(erg_value(v) for v in t[1]) + "}"
    if k == 7:
        return "%d..%d" % (t[1], t[2])
    if k == 8:
        return "List(%s)" % erg_ty(t[1])
    return "List(%s, %d)" % (erg_ty(t[1]), t[2])


def to_erg(prog, mark=None, show_bindings=False):
    """mark: text printed by a first statement (C05: must never appear when the program is rejected);
    show_bindings: after every top-level definition `print!("@@", id, [v])` (C34)"""
    lines = []
    if mark:
        lines.append('print!("%s")' % mark)

    def blk(ss, ind):
        for s in ss:
            st(s, ind)

    def st(s, ind):
        p = "    " * ind
        t = s[0]
        if t == S_DEF:
            ann = ": %s" % erg_ty(s[2]) if s[2] != 0 else ""
            lines.append(p + "%s%s = %s" % (vname(s[1]), ann, erg_expr(s[3])))
            if show_bindings and ind == 0:
                lines.append(p + 'print!("@@", %d, [%s])' % (s[1], vname(s[1])))
        elif t == S_PRINT:
            lines.append(p + "print!(%s)" % ", ".join(erg_expr(e) for e in s[1]))
        elif t == S_ASSERT:
            lines.append(p + "assert(%s)" % erg_expr(s[1]))
        elif t == S_FUN:
            fid, lam, ps, ret, locals_, res = s[1:]
            if lam:
                lines.append(p + "%s = (%s) -> %s" % (vname(fid), ", ".join("%s: %s" % (vname(q[0]), erg_ty(q[1])) for q in ps),
                                                      erg_expr(res)))
            else:
                pp = ", ".join("%s: %s%s" % (vname(q[0]), erg_ty(q[1]), " := %s" % erg_op(q[2][0]) if q[2] else "") for q in ps)
                lines.append(p + "%s(%s)%s =" % (vname(fid), pp, ": %s" % erg_ty(ret) if ret != 0 else ""))
                for x, e in locals_:
                    lines.append(p + "    %s = %s" % (vname(x), erg_expr(e)))
                lines.append(p + "    " + erg_expr(res))
        elif t == S_IF:
            if s[3]:
                lines.append(p + "if! %s:" % erg_expr(s[1]))
                lines.append(p + "    do!:")
                blk(s[2], ind + 2)
                lines.append(p + "    do!:")
                blk(s[3], ind + 2)
            else:
                lines.append(p + "if! %s, do!:" % erg_expr(s[1]))
                blk(s[2], ind + 1)
        elif t == S_FOR:
            lines.append(p + "for! %s, %s =>" % (erg_expr(s[2]), vname(s[1])))
            blk(s[3], ind + 1)
        else:
            raise ValueError(s)
    blk(prog, 0)
    return "\n".join(lines) + "\n"


# ------------------------------------------------------------------------------------------------ positions (Inject.v)
def expr_positions(e, path, out):
    out.append((list(path), e))
    t = e[0]
    if t == E_UN:
        expr_positions(e[2], path + [0], out)
    elif t in (E_BIN, E_CMP, E_LOGIC):
        expr_positions(e[2], path + [0], out)
        expr_positions(e[3], path + [1], out)
    elif t == E_LIST:
        for k, x in enumerate(e[1]):
            expr_positions(x, path + [k], out)
    elif t == E_INDEX:
        expr_positions(e[1], path + [0], out)
    elif t == E_IF:
        for k in range(3):
            expr_positions(e[1 + k], path + [k], out)
    elif t == E_CALL:
        for k, x in enumerate(e[2]):
            expr_positions(x, path + [k], out)
    elif t == E_METH:
        expr_positions(e[2], path + [0], out)
        for k, x in enumerate(e[3]):
            expr_positions(x, path + [1 + k], out)


def positions(prog):
    """[(path, expression node, context)] for every expression node; context = list of enclosing construct names"""
    out = []

    def blk(ss, path, ctx):
        for k, s in enumerate(ss):
            st(s, path + [k], ctx)

    def add(e, path, ctx):
        acc = []
        expr_positions(e, path, acc)
        for p, x in acc:
            depth = len(p) - len(path)
            out.append((p, x, ctx + (["nested-expr"] if depth >= 2 else [])))

    def st(s, path, ctx):
        t = s[0]
        if t == S_DEF:
            add(s[3], path, ctx)
        elif t == S_PRINT:
            for k, e in enumerate(s[1]):
                add(e, path + [k], ctx)
        elif t == S_ASSERT:
            add(s[1], path, ctx)
        elif t == S_FUN:
            name = "lambda" if s[2] else "function"
            for j, q in enumerate(s[3]):
                if q[2]:
                    add(q[2][0], path + [0, j], ctx + ["default-argument"])
            for j, (x, e) in enumerate(s[5]):
                add(e, path + [1, j], ctx + [name + "-local"])
            add(s[6], path + [2], ctx + [name + "-body"])
        elif t == S_IF:
            add(s[1], path + [0], ctx + ["if-condition"])
            blk(s[2], path + [1], ctx + ["if-block"])
            blk(s[3], path + [2], ctx + ["else-block"])
        elif t == S_FOR:
            add(s[2], path + [0], ctx + ["for-iterable"])
            blk(s[3], path + [1], ctx + ["loop-body"])
    blk(prog, [], [])
    return out


MUT_KINDS = ["undefined-name", "operand-type", "arity-drop", "arity-add", "argument-type", "attribute"]


def candidate_mutations(rng, e):
    """wire mutations applicable to the node's shape.  Validity (the new node is ill-typed where it sits) is decided by
    the extracted inject; the shapes offered here are the ones that are definite errors for erg as well (probed):
    not offered are `not <non-Bool>` (erg accepts `not 1`), a push argument of another class (erg: elem: Obj), an extra
    argument of sum (optional `start`)."""
    t = e[0]
    none = [5, 0]
    fillers = [none, [3, "s"], [2, f2bits(1.5)], [1, -1], [0, 7], [4, 1]]
    out = []
    if t == E_VAR:
        out.append(("undefined-name", [0]))
    if t == E_CALL:
        out.append(("undefined-name", [0]))
        if e[2]:
            out.append(("arity-drop", [2]))
            out.append(("argument-type", [4, rng.randrange(len(e[2])), rng.choice(fillers)]))
        out.append(("arity-add", [3, rng.choice(fillers)]))
    if (t == E_UN and e[1] != 2) or t in (E_BIN, E_CMP):
        out.append(("operand-type", [1, rng.randint(0, 1), rng.choice([none, none, [3, "s"], [2, f2bits(1.5)]])]))
    if t == E_INDEX:
        out.append(("operand-type", [1, 1, rng.choice([none, [3, "s"], [0, 99]])]))
    if t == E_METH:
        out.append(("attribute", [5, rng.choice(list(BOGUS_METHODS) + ([M_SUCC, M_PRED, M_BIT_COUNT] if not e[3] else []))]))
        if e[1] != M_SUM:
            out.append(("arity-add", [3, rng.choice(fillers)]))
        if e[3]:
            out.append(("arity-drop", [2]))
    return out


# ------------------------------------------------------------------------------------------------ erg type syntax -> wire type
class _P:
    def __init__(self, s):
        self.s, self.i = s, 0

    def ws(self):
        while self.i < len(self.s) and self.s[self.i] == " ":
            self.i += 1

    def peek(self, k=1):
        return self.s[self.i:self.i + k]

    def eat(self, tok):
        self.ws()
        if self.s.startswith(tok, self.i):
            self.i += len(tok)
            return True
        return False


def _value(p):
    """literal value: wire value or raises ValueError"""
    p.ws()
    s = p.s
    if p.eat("["):
        items = []
        p.ws()
        if p.eat("]"):
            return [5, items]
        while True:
            items.append(_value(p))
            if p.eat("]"):
                return [5, items]
            if not p.eat(","):
                raise ValueError("list")
    if p.peek() == '"':
        j = p.i + 1
        out = []
        while j < len(s) and s[j] != '"':
            if s[j] == "\\" and j + 1 < len(s):
                out.append({"n": "\n", "t": "\t", '"': '"', "\\": "\\", "'": "'"}.get(s[j + 1], s[j + 1]))
                j += 2
            else:
                out.append(s[j])
                j += 1
        if j >= len(s):
            raise ValueError("str")
        p.i = j + 1
        return [3, "".join(out)]
    for word, val in (("True", [1, 1]), ("False", [1, 0]), ("None", [4])):
        if s.startswith(word, p.i) and not re.match(r"\w", s[p.i + len(word):p.i + len(word) + 1] or " "):
            p.i += len(word)
            return val
    m = re.compile(r"-?\d+\.\d+(e[+-]?\d+)?|-?\d+").match(s, p.i)
    if m:
        # `1..10` must not be read as the float `1.`
        txt = m.group(0)
        p.i = m.end()
        if "." in txt or "e" in txt:
            return [2, f2bits(float(txt))]
        return [0, int(txt)]
    if s.startswith("inf", p.i) or s.startswith("-inf", p.i) or s.startswith("nan", p.i):
        raise ValueError("non-finite float")
    raise ValueError("value at %d" % p.i)


def _type(p):
    p.ws()
    s = p.s
    if p.eat("{"):
        # guard / refinement types contain ` in ` or `|` before the closing brace at depth 0
        depth, j, special = 1, p.i, False
        while j < len(s) and depth:
            c = s[j]
            if c == '"':
                j += 1
                while j < len(s) and s[j] != '"':
                    j += 2 if s[j] == "\\" else 1
            elif c in "{[(":
                depth += 1
            elif c in "}])":
                depth -= 1
            elif c == "|" or s.startswith(" in ", j) or c == "%":
                special = True
            j += 1
        if special:
            body = s[p.i:j - 1]
            p.i = j
            if not body.startswith("%") and " in {" in body:
                return [1]      # guard type {e in {...}} (the type of a comparison): a subtype of Bool
            raise ValueError("refinement")
        vals = []
        while True:
            vals.append(_value(p))
            if p.eat("}"):
                return [6, vals]
            if not p.eat(","):
                raise ValueError("enum")
    m = re.compile(r"(List|Array)\(").match(s, p.i)
    if m:
        p.i = m.end()
        t = _type(p)
        n = None
        if p.eat(","):
            p.ws()
            m2 = re.compile(r"\d+").match(s, p.i)
            if m2:
                n = int(m2.group(0))
                p.i = m2.end()
            elif re.compile(r"_(: Nat)?").match(s, p.i):
                p.i = re.compile(r"_(: Nat)?").match(s, p.i).end()
            else:
                raise ValueError("length")
        if not p.eat(")"):
            raise ValueError("list close")
        return [8, t] if n is None else [9, t, n]
    m = re.compile(r"(-?\d+)\.\.(<?)(-?\d+)").match(s, p.i)
    if m:
        p.i = m.end()
        hi = int(m.group(3)) - (1 if m.group(2) else 0)
        return [7, int(m.group(1)), hi]
    m = re.compile(r"[A-Za-z_][\w!]*").match(s, p.i)
    if m:
        name = m.group(0)
        p.i = m.end()
        if name in ("NoneType", "Bool", "Nat", "Int", "Float", "Str") and p.peek() != "(":
            return [["NoneType", "Bool", "Nat", "Int", "Float", "Str"].index(name)]
    raise ValueError("type at %d" % p.i)


def parse_erg_type(text):
    """wire type or None (= unparsed form: counted, not judged)"""
    p = _P(text.strip())
    try:
        t = _type(p)
        p.ws()
        if p.i != len(p.s):
            return None
        return t
    except (ValueError, IndexError):
        return None


BINDING_RE = re.compile(r"^::(v\d+)\(: (.*)\) =$", re.M)


def reported_types(typecheck_stdout):
    """{id: type text} for the top-level bindings printed by `erg --mode typecheck` (column 0 only)"""
    out = {}
    for m in BINDING_RE.finditer(typecheck_stdout):
        out[int(m.group(1)[1:])] = m.group(2)
    return out


def to_wire_value(v):
    if isinstance(v, bool):
        return [1, 1 if v else 0]
    if isinstance(v, int):
        return [0, v]
    if isinstance(v, float):
        if v != v or v in (float("inf"), float("-inf")):
            raise ValueError("non-finite")
        return [2, f2bits(v)]
    if isinstance(v, str):
        return [3, v]
    if v is None:
        return [4]
    if isinstance(v, list):
        return [5, [to_wire_value(x) for x in v]]
    raise ValueError(type(v))


SHOW_RE = re.compile(r"^@@ (\d+) (\[.*\])$")


def printed_values(stdout):
    """{id: wire value or None} from the `@@ id [value]` lines; the last line per id wins"""
    out = {}
    for line in stdout.splitlines():
        m = SHOW_RE.match(line)
        if not m:
            continue
        try:
            v = ast.literal_eval(m.group(2))
            out[int(m.group(1))] = to_wire_value(v[0]) if isinstance(v, list) and len(v) == 1 else None
        except (ValueError, SyntaxError, MemoryError):
            out[int(m.group(1))] = None
    return out


def show_value(v):
    return erg_value(v) if v is not None else "?"


# ------------------------------------------------------------------------------------------------ features, shrinking
def features(prog):
    out = set()
    for path, e, ctx in positions(prog):
        t = e[0]
        if t == E_BIN:
            out.add("bin:" + ARITH[e[1]])
        elif t == E_CMP:
            out.add("cmp:" + CMP[e[1]])
        elif t == E_UN:
            out.add("unary:" + UNOPS[e[1]])
        elif t == E_METH:
            out.add("method:" + (METHOD_NAMES.get(e[1]) or FUNC_NAMES.get(e[1]) or "?"))
        elif t == E_LIT:
            out.add("lit:" + ["Nat", "NegInt", "Float", "Str", "Bool", "None"][e[1]])
        else:
            out.add(["", "var", "", "", "", "logic", "list", "index", "if-expr", "call", ""][t])
        for c in ctx:
            out.add("in:" + c)
    for s in prog:
        out.add("stmt:" + ["def", "print", "assert", "fun", "if!", "for!"][s[0]])
    return out


def size(prog):
    return len(positions(prog))


def shrink_prog(prog, fails, budget=60):
    """greedy statement deletion (top level, then inside blocks) while fails(candidate) stays true"""
    import copy
    cur = copy.deepcopy(prog)
    tests = [0]

    def attempt(c):
        if tests[0] >= budget:
            return False
        tests[0] += 1
        try:
            return bool(fails(c))
        except Exception:
            return False

    def lists(p):
        out = [p]
        for s in p:
            if s[0] == S_IF:
                out += lists(s[2]) + lists(s[3])
            elif s[0] == S_FOR:
                out += lists(s[3])
        return out
    progress = True
    while progress and tests[0] < budget:
        progress = False
        li = 0
        while True:
            ls = lists(cur)
            if li >= len(ls):
                break
            si = 0
            while si < len(lists(cur)[li]):
                cand = copy.deepcopy(cur)
                cl = lists(cand)[li]
                if len(cl) == 1 and li != 0:
                    break
                del cl[si]
                if cand and attempt(cand):
                    cur = cand
                    progress = True
                else:
                    si += 1
            li += 1
    return cur
