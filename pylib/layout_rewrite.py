"""C10: layout-preserving rewrites of Erg source text, placed with the help of the real lexer's token positions.

analyse(text, toks) -> Layout or None (None: the text cannot be analysed safely, e.g. contains \\r, a lex error, or
the spans reconstructed from the token starts do not fit).  toks = [[kind, category, content, lineno, col_begin,
col_end], ...] as answered by harness/layout mode 2 (kinds / categories are the enum discriminants of
erg_parser::token::TokenKind / TokenCategory).

A Layout knows, for every character of the text, whether it belongs to a token, to a comment, to a skipped line
break, to a `\\`+newline continuation or is a blank between tokens; points() lists the places where each rewrite
of the property may be applied, together with the facts the known-finding classes of coq/Layout/Spec.v need
(enclosure depth, current indentation, neighbouring tokens).
"""

KIND = {n: i for i, n in enumerate("""Symbol NatLit IntLit BinLit OctLit HexLit RatioLit BoolLit StrLit StrInterpLeft StrInterpMid StrInterpRight
NoneLit EllipsisLit InfLit DocComment PrePlus PreMinus PreBitNot Mutate PreStar PreDblStar Try Plus Minus Star Slash FloorDiv
Pow Mod Closed RightOpen LeftOpen Open BitAnd BitOr BitXor Shl Shr Less Gre LessEq GreEq DblEq NotEq InOp NotInOp ContainsOp
SubOp IsOp IsNotOp AndOp OrOp RefOp RefMutOp Assign Inclusion Walrus FuncArrow ProcArrow LParen RParen LSqBr RSqBr LBrace
RBrace Indent Dedent Dot Pipe Colon DblColon SupertypeOf SubtypeOf As Comma Caret Amper AtSign VBar UBar Newline Semi Illegal
BOF EOF""".split())}
CAT = {n: i for i, n in enumerate("""Symbol Literal StrInterpLeft StrInterpMid StrInterpRight BinOp UnaryOp PostfixOp LEnclosure REnclosure
SpecialBinOp DefOp LambdaOp Separator Reserved AtSign VBar UBar BOF EOF Illegal""".split())}
STRING_KINDS = {KIND[k] for k in ("StrLit", "StrInterpLeft", "StrInterpMid", "StrInterpRight", "DocComment")}
FIX_OPS = {KIND[k] for k in ("Plus", "Minus", "Star", "Pow", "PrePlus", "PreMinus", "PreStar", "PreDblStar")}
LITERALS = {KIND[k] for k in ("NatLit", "IntLit", "RatioLit", "BoolLit", "StrLit", "NoneLit", "BinLit", "OctLit", "HexLit")}
OPENERS = {KIND["LParen"], KIND["LSqBr"], KIND["LBrace"]}
CLOSERS = {KIND["RParen"], KIND["RSqBr"], KIND["RBrace"]}

REWRITES = ["trailing-space", "trailing-comment", "blank-line", "comment-line", "continuation", "parens", "block-comment"]


class Tok:
    __slots__ = ("kind", "cat", "content", "line", "col", "start", "end", "encl", "indent")


class Layout:
    def __init__(self, text):
        self.text = text
        self.toks = []        # real tokens (no Indent / Dedent / EOF) with source spans
        self.cls = []         # per character: T S N C K


def _scan_string(text, off, kind, stack):
    """end offset of the string-like token starting at off, or None"""
    if kind in (KIND["StrInterpMid"], KIND["StrInterpRight"]):
        if not stack or text[off:off + 1] != "}":
            return None
        delim = stack[-1]
        i = off + 1
    else:
        if text.startswith('"""', off):
            delim = '"""'
        elif text.startswith("'''", off):
            delim = "'''"
        elif text.startswith('"', off):
            delim = '"'
        else:
            return None
        i = off + len(delim)
    n = len(text)
    while i < n:
        ch = text[i]
        if ch == "\\":
            if text[i + 1:i + 2] == "{":
                if kind == KIND["StrInterpLeft"]:
                    stack.append(delim)
                    return i + 2
                if kind == KIND["StrInterpMid"]:
                    return i + 2
                return None
            i += 2
            continue
        if text.startswith(delim, i):
            if kind == KIND["StrInterpRight"]:
                stack.pop()
                return i + len(delim)
            if kind in (KIND["StrLit"], KIND["DocComment"]):
                return i + len(delim)
            return None
        if ch == "\n" and len(delim) == 1:
            return None
        i += 1
    return None


def _scan_gap(text, a, b, cls):
    """classify text[a:b] (between two tokens): blanks, skipped line breaks, comments, continuations; False if anything else"""
    i = a
    while i < b:
        ch = text[i]
        if ch == " ":
            cls[i] = "S"
            i += 1
        elif ch == "\n":
            cls[i] = "N"
            i += 1
        elif ch == "\\" and text[i + 1:i + 2] == "\n" and i + 1 < b:
            cls[i] = cls[i + 1] = "K"
            i += 2
        elif ch == "#":
            if text[i + 1:i + 2] == "[":
                depth, j = 0, i
                while j < b:
                    if text.startswith("#[", j):
                        depth += 1
                        j += 2
                    elif text.startswith("]#", j):
                        depth -= 1
                        j += 2
                        if depth == 0:
                            break
                    else:
                        j += 1
                if depth != 0:
                    return False
                for k in range(i, j):
                    cls[k] = "B"          # block comment
                i = j
            else:
                j = i
                while j < b and text[j] != "\n":
                    cls[j] = "C"
                    j += 1
                i = j
        else:
            return False
    return True


def analyse(text, nerr, toks):
    if nerr or "\r" in text:
        return None
    starts = [0]
    for i, ch in enumerate(text):
        if ch == "\n":
            starts.append(i + 1)
    lay = Layout(text)
    cls = ["?"] * len(text)
    stack = []
    encl = 0
    indents = []
    pos = 0
    for kind, cat, content, line, col, col_end in toks:
        if kind == KIND["Indent"]:
            indents.append(len(content))
            continue
        if kind == KIND["Dedent"]:
            if indents:
                indents.pop()
            continue
        if kind == KIND["EOF"]:
            continue
        if line - 1 >= len(starts):
            return None
        off = starts[line - 1] + col
        if off < pos or off > len(text):
            return None
        if kind in STRING_KINDS:
            end = _scan_string(text, off, kind, stack)
            if end is None:
                return None
        elif kind == KIND["Illegal"]:
            return None
        else:
            end = off + len(content)
            if text[off:end] != content:
                return None
        if not _scan_gap(text, pos, off, cls):
            return None
        for k in range(off, end):
            cls[k] = "L" if kind == KIND["Newline"] else "T"
        t = Tok()
        t.kind, t.cat, t.content, t.line, t.col, t.start, t.end = kind, cat, content, line, col, off, end
        t.encl = encl                 # enclosure depth BEFORE the token
        t.indent = sum(indents)       # current block indentation
        if kind in OPENERS:
            encl += 1
        elif kind in CLOSERS or kind in (KIND["StrInterpMid"], KIND["StrInterpRight"]):
            # as the lexer counts: the `}` that closes a string interpolation decrements enclosure_level too
            # (the `\{` that opens it does not increment it)
            encl = max(0, encl - 1)
        lay.toks.append(t)
        pos = end
    if not _scan_gap(text, pos, len(text), cls):
        return None
    lay.cls = cls
    lay.final_encl = encl
    lay.final_indent = sum(indents)
    return lay


def state_at(lay, p):
    """(enclosure depth, block indentation, index of the last token ending at or before p)"""
    encl, indent, idx = 0, 0, -1
    for i, t in enumerate(lay.toks):
        if t.end <= p:
            idx = i
        else:
            break
    if idx >= 0:
        t = lay.toks[idx]
        closes = t.kind in CLOSERS or t.kind in (KIND["StrInterpMid"], KIND["StrInterpRight"])
        encl = t.encl + (1 if t.kind in OPENERS else 0) - (1 if closes and t.encl > 0 else 0)
        indent = lay.toks[idx + 1].indent if idx + 1 < len(lay.toks) else lay.final_indent
    return encl, indent, idx


def eol_points(lay):
    """offsets p such that text[p] is a line break outside strings and comments (or p = end of text without final line
    break): "before a newline" in the sense of the property"""
    text, cls = lay.text, lay.cls
    pts = [p for p, ch in enumerate(text) if ch == "\n" and cls[p] in ("L", "N")]
    if text and text[-1] != "\n":
        pts.append(len(text))
    return pts


def line_start_points(lay):
    """offsets q = start of a line, where a whole line (blank / comment) may be inserted: after a line break outside
    strings / comments, and the beginning of the text"""
    return [0] + [p + 1 for p in eol_points(lay) if p < len(lay.text)]


def next_code_indent(lay, q):
    """number of leading blanks of the first line at or after offset q that is not blank / comment-only (None at the end)"""
    text = lay.text
    while q < len(text):
        e = text.find("\n", q)
        if e < 0:
            e = len(text)
        line = text[q:e]
        s = line.lstrip(" ")
        if s and not s.startswith("#"):
            return len(line) - len(s)
        q = e + 1
    return None


def points(lay):
    """all applicable (rewrite, position, facts) triples; facts feed the known-finding classes"""
    text, cls, toks = lay.text, lay.cls, lay.toks
    out = []
    for p in eol_points(lay):
        encl, indent, idx = state_at(lay, p)
        # blanks already before p, is the line blank / comment only so far?
        ls = text.rfind("\n", 0, p) + 1
        before = text[ls:p]
        blank_line = before.strip(" ") == ""
        comment_only = (not blank_line) and before.lstrip(" ").startswith("#") and cls[ls + len(before) - len(before.lstrip(" "))] == "C"
        prev_fix = idx >= 0 and toks[idx].kind in FIX_OPS and toks[idx].end == p
        facts = {"encl": encl, "indent": indent, "lead": len(before) - len(before.lstrip(" ")), "blank_line": blank_line,
                 "comment_only": comment_only, "prev_fix_adjacent": prev_fix, "at_bof": idx < 0}
        out.append(("trailing-space", p, facts))
        out.append(("trailing-comment", p, facts))
    for q in line_start_points(lay):
        encl, indent, idx = state_at(lay, q)
        facts = {"encl": encl, "indent": indent, "next_indent": next_code_indent(lay, q), "at_bof": q == 0}
        out.append(("blank-line", q, facts))
        out.append(("comment-line", q, facts))
    for i in range(len(toks) - 1):
        a, b = toks[i], toks[i + 1]
        if a.kind == KIND["Newline"] or b.kind == KIND["Newline"] or a.kind == KIND["Semi"] or b.kind == KIND["Semi"]:
            continue
        gap = text[a.end:b.start]
        if gap and set(gap) == {" "}:
            facts = {"encl": b.encl, "indent": b.indent, "gap": len(gap), "prev_fix": a.kind in FIX_OPS, "next_fix": b.kind in FIX_OPS}
            out.append(("continuation", a.end, facts))
            out.append(("block-comment", a.end, facts))
    for i, t in enumerate(toks):
        if t.kind not in LITERALS and t.kind != KIND["Symbol"]:
            continue
        prev = toks[i - 1] if i > 0 else None
        nxt = toks[i + 1] if i + 1 < len(toks) else None
        binop_before = prev is not None and prev.cat == CAT["BinOp"]
        binop_after = nxt is not None and nxt.cat == CAT["BinOp"]
        if not (binop_before or binop_after):
            continue
        # the operand must be the whole token: not a callee / receiver / keyword argument / definition head, and not a
        # number with a unit (`1.0kg` is 1.0 * kg)
        if nxt is not None and not (nxt.cat in (CAT["BinOp"], CAT["REnclosure"], CAT["Separator"], CAT["EOF"]) or nxt.kind == KIND["Comma"]):
            continue
        if t.kind == KIND["Symbol"] and t.content in ("do", "do!", "then", "else", "self", "Self"):
            continue
        if prev is not None and prev.kind in (KIND["Dot"], KIND["DblColon"], KIND["AtSign"], KIND["Colon"]):
            continue
        after_operand = prev is not None and (prev.cat in (CAT["Symbol"], CAT["Literal"], CAT["REnclosure"], CAT["StrInterpRight"], CAT["PostfixOp"]))
        facts = {"after_operand": after_operand, "adjacent_prev": prev is not None and prev.end == t.start, "token": t.content}
        out.append(("parens", i, facts))
    return out


def apply(lay, rewrite, pos, rng, variant=None):
    """-> (new text, variant).  `variant` fixes the random choices (used when replaying / shrinking)"""
    text = lay.text
    v = dict(variant or {})

    def pick(key, options):
        if key not in v:
            v[key] = rng.choice(options)
        return v[key]
    if rewrite == "trailing-space":
        k = pick("k", [1, 1, 2, 4])
        return text[:pos] + " " * k + text[pos:], v
    if rewrite == "trailing-comment":
        c = pick("c", [" # c", "# c", "  #", " # x = \"s\" ' ( [", " # 日本語", " #c"])
        return text[:pos] + c + text[pos:], v
    if rewrite == "blank-line":
        k = pick("k", [0, 0, 0, "same"])
        if k == "same":
            k = next_code_indent(lay, pos) or 0
        v["k"] = k
        return text[:pos] + " " * k + "\n" + text[pos:], v
    if rewrite == "comment-line":
        k = pick("k", ["same", "same", "same", 0, 2, 8])
        if k == "same":
            k = next_code_indent(lay, pos) or 0
        v["k"] = k
        return text[:pos] + " " * k + "# c\n" + text[pos:], v
    if rewrite == "continuation":
        keep = pick("keep", [1, 1, 0])       # blanks kept before the backslash
        ind = pick("ind", [4, 1, 0, 8])      # blanks at the start of the continuation line
        end = pos
        while end < len(text) and text[end] == " ":
            end += 1
        return text[:pos] + " " * keep + "\\\n" + " " * ind + text[end:], v
    if rewrite == "block-comment":
        c = pick("c", ["#[ c ]#", "#[c]#", "#[ a #[ b ]# ]#"])
        sp = pick("sp", [0, 0, 1])           # a blank between the comment and the next token
        end = pos
        while end < len(text) and text[end] == " ":
            end += 1
        return text[:pos] + " " + c + " " * sp + text[end:], v
    if rewrite == "parens":
        t = lay.toks[pos]
        return text[:t.start] + "(" + text[t.start:t.end] + ")" + text[t.end:], v
    raise ValueError(rewrite)
