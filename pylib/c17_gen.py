"""C17: small seeded generator of Erg programs that stress how the Python transpile target prints string
literals and names (the statement-level fragment comes from pylib/coreerg_gen.py).

    prog = gen_program(rng)        -> list of statements; a statement is a list of source lines (a block keeps its body)
    to_erg(prog)                   -> source text
    shrink: delete statements (lib.vplib.shrink_list on the statement list)

Strings: quotes, backslashes, braces, NUL and other control characters, Latin-1, BMP, astral; every escape form the
lexer offers (\\" \\\\ \\n \\r \\0 \\' \\xNN, and \\t which erg turns into four spaces), string interpolation \\{x}.
"""

NASTY = ['"', "\\", "\n", "\r", "\0", "\x01", "\x09", "\x0b", "\x0c", "\x1f", "\x7f", "{", "}", "{}", "'", " ", "/", "%", "é",
         "ÿ", "\x85", "\xa0", " ", "�", "\U0001F600", "\U0010FFFF", "a", "Z", "0", "7", "あ", "\\n", "\\x41", "$", "#"]
BIDI = set(range(0x202A, 0x202F)) | set(range(0x2066, 0x206A))


def gen_str(rng, maxlen=8):
    n = rng.choice([0, 1, 1, 2, 3, rng.randint(0, maxlen)])
    out = []
    for _ in range(n):
        k = rng.random()
        if k < 0.6:
            out.append(rng.choice(NASTY))
        elif k < 0.8:
            out.append(chr(rng.randint(0x20, 0x7e)))
        elif k < 0.9:
            out.append(chr(rng.randint(0, 0xff)))
        else:
            while True:
                c = rng.randint(0x100, 0x10FFFF)
                if not (0xD800 <= c <= 0xDFFF) and c not in BIDI:
                    break
            out.append(chr(c))
    return "".join(out)


def str_src(rng, s):
    """an Erg single-line literal denoting s"""
    out = ['"']
    for ch in s:
        c = ord(ch)
        if ch == '"':
            out.append('\\"')
        elif ch == "\\":
            out.append("\\\\")
        elif ch == "\n":
            out.append("\\n")
        elif ch == "\r":
            out.append("\\r")
        elif ch == "\0":
            out.append("\\0")
        elif ch == "'" and rng.random() < 0.5:
            out.append("\\'")
        elif c < 0x20 or c == 0x7f:
            out.append("\\x%02x" % c)
        elif c < 0x100 and rng.random() < 0.3:
            out.append("\\x%02X" % c)
        else:
            out.append(ch)
    out.append('"')
    return "".join(out)


NAMES = ["s", "t", "msg", "x1", "my_str", "a_b", "v", "name2", "q_L", "k_C3", "z__y"]


def gen_program(rng, max_stmts=9):
    """statements: list of lists of lines"""
    prog = []
    strs = []      # names of Str variables in scope
    nums = []
    lists = []
    used = set()

    def fresh():
        for _ in range(50):
            n = rng.choice(NAMES) + rng.choice(["", "", "0", "9"])
            if n not in used:
                used.add(n)
                return n
        n = "w%d" % len(used)
        used.add(n)
        return n

    def lit():
        return str_src(rng, gen_str(rng))

    def sexpr():
        r = rng.random()
        if strs and r < 0.35:
            return rng.choice(strs)
        if strs and r < 0.5:
            return "%s + %s" % (rng.choice(strs), lit())
        if nums and r < 0.65:
            # interpolation: \{x} inside a literal with braces around it
            pre, post = gen_str(rng, 3), gen_str(rng, 3)
            return str_src(rng, pre)[:-1] + "\\{" + rng.choice(nums) + "}" + str_src(rng, post)[1:]
        return lit()

    n = rng.randint(2, max_stmts)
    for _ in range(n):
        k = rng.random()
        if k < 0.22:
            v = fresh()
            prog.append(["%s = %s" % (v, sexpr())])
            strs.append(v)
        elif k < 0.32:
            v = fresh()
            prog.append(["%s = %d" % (v, rng.choice([0, 1, 7, 42, 1000, 65535]))])
            nums.append(v)
        elif k < 0.62:
            args = [sexpr() for _ in range(rng.choice([1, 1, 2, 3]))]
            if nums and rng.random() < 0.3:
                args.append(rng.choice(nums))
            prog.append(["print! " + ", ".join(args)])
        elif k < 0.70:
            v = fresh()
            prog.append(["%s = [%s]" % (v, ", ".join(lit() for _ in range(rng.choice([1, 2, 3]))))])
            lists.append(v)
        elif k < 0.78 and lists:
            e = fresh()
            prog.append(["for! %s, %s =>" % (rng.choice(lists), e), "    print! %s, %s" % (e, lit())])
        elif k < 0.86 and nums:
            prog.append(["if! %s == %d, do!:" % (rng.choice(nums), rng.choice([0, 1, 7, 42])), "    print! " + sexpr()])
        elif k < 0.93:
            f, a = fresh(), fresh()
            prog.append(["%s %s = %s + %s" % (f, a, a, lit()), "print! %s(%s)" % (f, sexpr())])
        elif k < 0.97 and lists:
            prog.append(["print! %s" % rng.choice(lists)])
        else:
            prog.append(["print! len(%s)" % sexpr()])
    return prog


def probe_program(rng):
    """public procedure/variable pairs whose Erg names differ only in the characters the name printer rewrites"""
    b = rng.choice(["g", "h2", "pq", "w"])
    prog = [[".%s! x = print! x, %s" % (b, str_src(rng, gen_str(rng, 3)))],
            [".%s_ = %s" % (b, str_src(rng, gen_str(rng, 3)))],
            [".%s = %d" % (b, rng.randint(0, 9))],
            [".%s! %d" % (b, rng.randint(0, 9))],
            ["print! .%s_, .%s" % (b, b)]]
    return prog


def to_erg(prog):
    return "".join(l + "\n" for st in prog for l in st)
