"""C26 driver: runs the REAL Erg runtime classes (lib/core/_erg_*.py of the tree given as argv[1]) on cases.

usage: pythonX.Y c26_driver.py <path to crates/erg_compiler/lib/core>   (cases on stdin, one s-expression per line)

Wire format (shared with coq/Runtime/Extract.v), integers and nested lists only:
  val     = (tag payload)
            0 Nat z | 1 Int z | 2 Bool z | 3 int z | 4 bool z | 5 Float bits | 6 float bits | 7 Str cps | 8 str cps
            9 List (val..) | 10 list (val..) | 11 NatMut val | 12 IntMut val | 13 BoolMut val | 14 FloatMut val
            15 StrMut val | 16 None | 17 NotImplemented | 18 Error | 19 complex | 20 other
            (floats travel as the 64 bit pattern of the IEEE double, as a non-negative integer)
  outcome = (0 val) | (1 exc)     exc: 1 ValueError 2 TypeError 3 ZeroDivisionError 4 OverflowError 5 AttributeError
                                       6 IndexError 7 anything else
  case    = (0 op a b)            a <op> b,  op: 0 + 1 - 2 * 3 / 4 // 5 % 6 ** 7 == 8 != 9 < 10 <= 11 > 12 >=
          | (1 op a)              op: 0 -a  1 +a  2 abs(a)
          | (2 m recv (arg..))    method call, m: see METHODS
          | (3 cls x)             constructor call cls(x): the re-wrap codegen.rs inserts; cls = tag of the wrapper class
  answer  = (outcome recv_after args_after ref battery)
            recv_after/args_after: the operands re-encoded after the call (mutation is visible here)
            ref: outcome of the Python builtin operator on the deep-unwrapped operands (cases 0/1 only, else ())
            battery: float-oracle entries ((opc x y res)..), x,y = (0 z)|(1 bits)|(2) ; res = (0 bits)|(1 z)|(2 b)|(3 exc)|(4)
                     opc 0..12 as above, 20 float(x), 21 int(x) (truncation), 22 -x, 23 abs(x)
One line per case: the answer as an s-expression, followed by " ; " and a readable form
(class name, ints in decimal, floats by float.hex(), or the exception class).
"""
import operator
import re
import struct
import sys

core = sys.argv[1]
sys.path.insert(0, core)
import _erg_std_prelude  # noqa: E402,F401  (import order as in compiled programs: avoids the circular-import trap)
from _erg_nat import Nat, NatMut  # noqa: E402
from _erg_int import Int, IntMut  # noqa: E402
from _erg_bool import Bool, BoolMut  # noqa: E402
from _erg_float import Float, FloatMut  # noqa: E402
from _erg_str import Str, StrMut  # noqa: E402
from _erg_list import List  # noqa: E402
from _erg_result import Error  # noqa: E402
from _erg_mutate_operator import mutate_operator  # noqa: E402

WRAP = {0: Nat, 1: Int, 2: Bool, 5: Float, 7: Str, 9: List}
MUT = {11: NatMut, 12: IntMut, 13: BoolMut, 14: FloatMut, 15: StrMut}
NAMES = {0: "Nat", 1: "Int", 2: "Bool", 3: "int", 4: "bool", 5: "Float", 6: "float", 7: "Str", 8: "str", 9: "List",
         10: "list", 11: "NatMut", 12: "IntMut", 13: "BoolMut", 14: "FloatMut", 15: "StrMut", 16: "None",
         17: "NotImplemented", 18: "Error", 19: "complex", 20: "other"}
BINOPS = [operator.add, operator.sub, operator.mul, operator.truediv, operator.floordiv, operator.mod, operator.pow,
          operator.eq, operator.ne, operator.lt, operator.le, operator.gt, operator.ge]
EXC = [(ZeroDivisionError, 3), (OverflowError, 4), (ValueError, 1), (TypeError, 2), (AttributeError, 5), (IndexError, 6)]


def f2b(f):
    return struct.unpack(">Q", struct.pack(">d", f))[0]


def b2f(b):
    return struct.unpack(">d", struct.pack(">Q", b))[0]


def parse(s):
    toks = re.findall(r"\(|\)|-?\d+", s)
    pos = [0]

    def rd():
        t = toks[pos[0]]
        pos[0] += 1
        if t == "(":
            out = []
            while toks[pos[0]] != ")":
                out.append(rd())
            pos[0] += 1
            return out
        return int(t)
    return rd()


def dump(x):
    if isinstance(x, bool):
        return "1" if x else "0"
    if isinstance(x, int):
        return str(x)
    return "(" + " ".join(dump(y) for y in x) + ")"


def build(v):
    """wire value -> live object (constructed the way compiled Erg code constructs it)"""
    t, p = v[0], (v[1] if len(v) > 1 else None)
    if t in (0, 1):
        return WRAP[t](p)
    if t == 2:
        return Bool(bool(p))
    if t == 3:
        return int(p)
    if t == 4:
        return bool(p)
    if t == 5:
        return Float(b2f(p))
    if t == 6:
        return b2f(p)
    if t == 7:
        return Str("".join(chr(c) for c in p))
    if t == 8:
        return "".join(chr(c) for c in p)
    if t == 9:
        return List([build(e) for e in p])
    if t == 10:
        return [build(e) for e in p]
    if t in MUT:
        inner = build(p)
        if {11: Nat, 12: Int, 13: Bool, 14: Float, 15: Str}[t] is type(inner):
            return mutate_operator(inner)   # `!x` in compiled code
        o = MUT[t].__new__(MUT[t])      # a Mut object whose value is not of the canonical class (reachable through
        o.value = inner                 # NatMut.__pow__, __truediv__, try_new): set the field directly
        return o
    if t == 16:
        return None
    if t == 17:
        return NotImplemented
    if t == 18:
        return Error("e")
    raise ValueError("cannot build %r" % (v,))


def enc(o):
    """live object -> wire value, by exact class"""
    c = type(o)
    if c is Nat:
        return [0, int.__int__(o)]
    if c is Int:
        return [1, int.__int__(o)]
    if c is Bool:
        return [2, int.__int__(o)]
    if c is bool:
        return [4, int(o)]
    if c is int:
        return [3, o]
    if c is Float:
        return [5, f2b(float.__float__(o))]
    if c is float:
        return [6, f2b(o)]
    if c is Str:
        return [7, [ord(ch) for ch in str.__str__(o)]]
    if c is str:
        return [8, [ord(ch) for ch in o]]
    if c is List:
        return [9, [enc(e) for e in list.__iter__(o)]]
    if c is list:
        return [10, [enc(e) for e in o]]
    for t, k in MUT.items():
        if c is k:
            return [t, enc(o.value)]
    if o is None:
        return [16]
    if o is NotImplemented:
        return [17]
    if c is Error:
        return [18]
    if c is complex:
        return [19]
    return [20]


def unwrap(o):
    """deep conversion to the plain Python builtin the wrapper stands for"""
    c = type(o)
    if c in (NatMut, IntMut, BoolMut, FloatMut, StrMut):
        return unwrap(o.value)
    if c is Bool:
        return bool(int.__int__(o))
    if c in (Nat, Int):
        return int.__int__(o)
    if c is Float:
        return float.__float__(o)
    if c is Str:
        return str.__str__(o)
    if c in (List, list):
        return [unwrap(e) for e in list.__iter__(o)]
    return o


def outcome(f):
    try:
        return [0, enc(f())]
    except Exception as e:   # noqa
        for k, code in EXC:
            if type(e) is k:
                return [1, code]
        return [1, 7, [ord(ch) for ch in type(e).__name__]]


def readable(x):
    if not isinstance(x, list) or not x:
        return str(x)
    if x[0] == 1 and len(x) >= 2 and isinstance(x[1], int):
        return "raise " + {1: "ValueError", 2: "TypeError", 3: "ZeroDivisionError", 4: "OverflowError",
                           5: "AttributeError", 6: "IndexError"}.get(x[1], "Exception")
    return rv(x[1]) if x[0] == 0 and len(x) == 2 and isinstance(x[1], list) else str(x)


def rv(v):
    t = v[0]
    n = NAMES.get(t, "?")
    if t in (0, 1, 2, 3, 4):
        return "%s %d" % (n, v[1])
    if t in (5, 6):
        return "%s %s" % (n, b2f(v[1]).hex())
    if t in (7, 8):
        return "%s %r" % (n, "".join(chr(c) for c in v[1]))
    if t in (9, 10):
        return "%s [%s]" % (n, ", ".join(rv(e) for e in v[1]))
    if t in MUT:
        return "%s(%s)" % (n, rv(v[1]))
    return n


# ---- float oracle battery
def osc(x):
    if isinstance(x, bool):
        return [0, int(x)]
    if isinstance(x, int):
        return [0, x]
    if isinstance(x, float):
        return [1, f2b(x)]
    return None


def ores(f):
    try:
        r = f()
    except Exception as e:  # noqa
        for k, code in EXC:
            if type(e) is k:
                return [3, code]
        return [3, 7]
    if isinstance(r, bool):
        return [2, int(r)]
    if isinstance(r, int):
        return [1, r]
    if isinstance(r, float):
        return [0, f2b(r)]
    if isinstance(r, complex):
        return [4]
    return [3, 7]


def battery(ops, xs):
    """oracle entries for the builtin ops `ops` on the plain scalars xs (1 or 2 of them), all int->float variants"""
    out = []
    seen = set()

    def add(opc, x, y, res):
        k = dump([opc, x, y])
        if k not in seen:
            seen.add(k)
            out.append([opc, x, y, res])
            if res[0] == 0:   # float result: its truncation may be needed (Int(0.5), NatMut(2.5))
                r = b2f(res[1])
                add(21, [1, res[1]], [2], ores(lambda: int(r)))
    sc = [x for x in xs if isinstance(x, (int, float))]
    if not any(isinstance(x, float) for x in sc) and not any(o in (3, 6) for o in ops):
        return out
    var = []
    for x in sc:
        v = [x]
        if not isinstance(x, float):
            add(20, osc(x), [2], ores(lambda: float(x)))
            try:
                v.append(float(x))
            except OverflowError:
                pass
        else:
            add(21, osc(x), [2], ores(lambda: int(x)))
            add(22, osc(x), [2], ores(lambda: -x))
            add(23, osc(x), [2], ores(lambda: abs(x)))
        var.append(v)
    if len(var) == 2:
        for x in var[0]:
            for y in var[1]:
                if isinstance(x, float) or isinstance(y, float) or True:
                    for o in ops:
                        if isinstance(x, float) or isinstance(y, float) or o in (3, 6):
                            add(o, osc(x), osc(y), ores(lambda: BINOPS[o](x, y)))
    return out


def K(v):
    return lambda _=None: v


METHODS = {
    0: lambda r, a: r.succ(),
    1: lambda r, a: r.pred(),
    2: lambda r, a: r.bit_count(),
    3: lambda r, a: mutate_operator(r),
    4: lambda r, a: r.saturating_sub(a[0]),
    5: lambda r, a: r.invert(),
    6: lambda r, a: r.get(a[0]),
    7: lambda r, a: r.from_(a[0]),
    8: lambda r, a: r.push(a[0]),
    9: lambda r, a: r.reversed(),
    10: lambda r, a: r.sum(),
    11: lambda r, a: r.prod(),
    12: lambda r, a: r[a[0]],
    13: lambda r, a: r.update(K(a[0])),
    14: lambda r, a: r.inc(a[0]),
    15: lambda r, a: r.dec(a[0]),
    16: lambda r, a: r.inc(),
    17: lambda r, a: r.dec(),
    18: lambda r, a: r.copy(),
    19: lambda r, a: type(r).try_new(a[0]),
    20: lambda r, a: r.contains(a[0]),
    21: lambda r, a: r.pop(),
    22: lambda r, a: r.clear(),
}
METHOD_OPS = {4: [1, 11], 14: [0], 15: [1], 16: [0], 17: [1]}


def run(case):
    k = case[0]
    if k == 0:
        a, b = build(case[2]), build(case[3])
        f = BINOPS[case[1]]
        res = outcome(lambda: f(a, b))
        ua, ub = unwrap(build(case[2])), unwrap(build(case[3]))
        ref = outcome(lambda: f(ua, ub))
        bat = battery([case[1]], [ua, ub])
        return [res, enc(a), [enc(b)], ref, bat]
    if k == 1:
        a = build(case[2])
        f = [operator.neg, operator.pos, abs][case[1]]
        res = outcome(lambda: f(a))
        ua = unwrap(build(case[2]))
        ref = outcome(lambda: f(ua))
        return [res, enc(a), [], ref, battery([], [ua])]
    if k == 2:
        r = build(case[2])
        args = [build(x) for x in case[3]]
        m = METHODS[case[1]]
        res = outcome(lambda: m(r, args))
        us = [unwrap(build(case[2]))] + [unwrap(build(x)) for x in case[3]]
        dflt = [1] if case[1] in (16, 17) else []
        bat = battery(METHOD_OPS.get(case[1], []), (us + dflt)[:2])
        if case[1] in (16, 17) and isinstance(us[0], float):
            bat = battery(METHOD_OPS[case[1]], [us[0], 1.0])
        return [res, enc(r), [enc(x) for x in args], [], bat]
    if k == 3:
        x = build(case[2])
        cls = WRAP[case[1]]
        res = outcome(lambda: cls(x))
        return [res, enc(x), [], [], battery([], [unwrap(build(case[2]))])]
    return [[1, 7], [20], [], [], []]


def main():
    out = sys.stdout
    for line in sys.stdin:
        line = line.strip()
        if not line:
            continue
        try:
            ans = run(parse(line))
            out.write(dump(ans) + " ; " + readable(ans[0]) + "\n")
        except Exception as e:  # noqa  (driver-level failure: malformed case)
            out.write("((1 7) (20) () () ()) ; driver error %s: %s\n" % (type(e).__name__, str(e).replace("\n", " ")[:200]))
    out.flush()


if __name__ == "__main__":
    main()
