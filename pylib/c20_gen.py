"""C20 / C19 — generator of multi-module Erg projects, their intended behaviour, and the runner.

A project is a dict
  {"n": n, "imports": [[j, ...] per module, source order], "consts": [c_i], "kind": shape, "defect": None | {...}}
Module i lives in m<i>.er, the entry module is m0.er.  Every module
  * imports its dependencies          m3 = import "m3"
  * has typed public bindings         .v: Int = c_i + (sum of m_j.v for the imports whose top level is complete)
                                      .tag: Str = "s<i>"
  * uses every imported name with its declared type
                                      t3: Int = m3.v          (import complete at that point)
                                      .bk3() = m3.getc()      (import still running: a cycle; read later, through a function;
                                                               with project flag "backvar": .bk3() = m3.v)
                                      .getc(): Int = c_i
  * prints a marker at top level      print! "M:<i>"
  * prints what it sees of every      print! "U:<i>:<j>:" + str(m_j.v) + ":" + m_j.tag     (imports that are complete)
    module it imports
The entry module finally prints every value it can see: "V:<j>:<m_j.v>", "T:<j>:<m_j.tag>" and "B:<j>:<k>:<m_j.bk<k>()>".

`expected(project)` gives the intended observable behaviour by a direct simulation of "a module's top level runs once,
when it is first imported" (the semantics of the property text): the set of markers and the V/T/B lines.
"""
import os
import re
import shutil
import subprocess
import tempfile

KINDS = ["dag", "diamond", "self", "cycle2", "cycle3", "shared-cycle", "entry-cycle", "random", "chain", "cycle-tail"]


def _reachable(imports, root=0):
    seen, todo = set(), [root]
    while todo:
        x = todo.pop()
        if x in seen:
            continue
        seen.add(x)
        todo += imports[x]
    return seen


def gen_cycle_tail(rng, pos=None, clen=None):
    """entry -> a -> .. -> z -> a (a 2- or 3-cycle below the entry); the module z whose import closes the cycle also
    imports two modules that nobody else imports; the cycle-closing import is z's first / middle / last import"""
    clen = clen or rng.choice([2, 3])
    pos = pos if pos is not None else rng.choice([0, 1, 2])
    cyc = list(range(1, clen + 1))
    d1, d2 = clen + 1, clen + 2
    n = clen + 3
    imports = [[] for _ in range(n)]
    imports[0] = [1]
    for a, b in zip(cyc, cyc[1:]):
        imports[a] = [b]
    tail = [d1, d2]
    tail.insert(pos, cyc[0])
    imports[cyc[-1]] = tail
    if rng.random() < 0.4:
        imports[d2].append(d1)
    consts = [rng.randint(1, 9) * 10 ** rng.randint(0, 2) for _ in range(n)]
    return {"n": n, "imports": imports, "consts": consts, "kind": "cycle-tail", "defect": None}


def order_variants(proj, rng, limit):
    """the same import graph with other textual orders of the imports: for every module with >= 2 imports every
    rotation and the reversal (the others unchanged), then random joint permutations, at most [limit] projects;
    every imported name is used (no backvar, no lazy import)"""
    import itertools
    base = dict(proj)
    base.pop("backvar", None)
    base.pop("lazy_entry", None)
    seen, out = set(), []

    def add(imps):
        key = json_key(imps)
        if key in seen or len(out) >= limit:
            return
        seen.add(key)
        q = dict(base)
        q["imports"] = [list(l) for l in imps]
        out.append(q)
    seen.add(json_key(proj["imports"]))
    for i, l in enumerate(proj["imports"]):
        if len(l) < 2:
            continue
        cands = [l[k:] + l[:k] for k in range(1, len(l))] + [l[::-1]]
        if len(l) <= 3:
            cands = [list(x) for x in itertools.permutations(l)]
        for c in cands:
            imps = [list(x) for x in proj["imports"]]
            imps[i] = list(c)
            add(imps)
    for _ in range(4 * limit):
        if len(out) >= limit:
            break
        imps = [list(x) for x in proj["imports"]]
        for x in imps:
            rng.shuffle(x)
        add(imps)
    return out


def json_key(imps):
    return ";".join(",".join(map(str, l)) for l in imps)


def gen_project(rng, kind=None, nmax=8):
    kind = kind or rng.choice(KINDS)
    if kind == "cycle-tail":
        return gen_cycle_tail(rng)
    lo = {"diamond": 4, "cycle2": 3, "cycle3": 4, "shared-cycle": 4, "entry-cycle": 2, "self": 1, "chain": 2}.get(kind, 1)
    n = rng.randint(lo, max(lo, nmax))
    imports = [[] for _ in range(n)]

    def add(a, b):
        if b not in imports[a]:
            imports[a].append(b)
    if kind == "random":
        p = rng.choice([0.15, 0.3, 0.5])
        for a in range(n):
            for b in range(n):
                if rng.random() < p / max(1, n / 4):
                    add(a, b)
    else:
        # a DAG on 0 < 1 < ... < n-1 (edges low -> high), every module reachable from 0
        for b in range(1, n):
            add(rng.randrange(0, b), b)
        dens = rng.choice([0.0, 0.2, 0.5])
        for a in range(n):
            for b in range(a + 1, n):
                if rng.random() < dens:
                    add(a, b)
        if kind == "chain":
            imports = [[i + 1] if i + 1 < n else [] for i in range(n)]
        if kind == "diamond":
            add(0, 1); add(0, 2); add(1, 3); add(2, 3)
        if kind == "self":
            for _ in range(rng.randint(1, 2)):
                x = rng.randrange(0, n)
                add(x, x)
        if kind in ("cycle2", "shared-cycle"):
            a = rng.randrange(1, n - 1)
            b = rng.randrange(a + 1, n)
            add(a, b); add(b, a)
            if kind == "shared-cycle":
                c = rng.choice([x for x in range(1, n) if x not in (a, b)])
                add(c, rng.choice([a, b]))
        if kind == "cycle3":
            a = rng.randrange(1, n - 2)
            b = rng.randrange(a + 1, n - 1)
            c = rng.randrange(b + 1, n)
            add(a, b); add(b, c); add(c, a)
        if kind == "entry-cycle":
            b = rng.randrange(1, n)
            add(b, 0)
            if b not in _reachable(imports):
                add(0, b)
    for l in imports:
        if rng.random() < 0.5:
            rng.shuffle(l)
    consts = [rng.randint(1, 9) * 10 ** rng.randint(0, 2) for _ in range(n)]
    return {"n": n, "imports": imports, "consts": consts, "kind": kind, "defect": None}


def add_defect(rng, proj):
    """a type error or a warning in one reachable non-entry module (for C19: diagnostics must be non-empty)"""
    reach = sorted(_reachable(proj["imports"]) - {0}) or [0]
    m = rng.choice(reach)
    if proj.get("lazy_entry") and proj["imports"][0] and proj["imports"][0][-1] != 0:
        m = proj["imports"][0][-1]
    what = rng.choice(["type-error", "unused", "unused", "name-error"])
    p = dict(proj)
    p["defect"] = {"module": m, "what": what}
    return p


def unused_imports(proj):
    """imports that the importer never looks at (project flag "lazy_entry": the entry's last import): the module is
    still loaded, but it is joined only by join_all at the end of the entry's analysis"""
    if proj.get("lazy_entry") and proj["imports"][0]:
        return {(0, proj["imports"][0][-1])}
    return set()


def simulate(proj):
    """intended semantics: returns (order of markers, set of (i, j) imports that are complete when used at i's top level,
    values v_i)"""
    n, imports, consts = proj["n"], proj["imports"], proj["consts"]
    state = {}          # i -> "running" | "done"
    order = []
    complete = set()
    val = {}

    def load(i):
        state[i] = "running"
        for j in imports[i]:
            if j not in state:
                load(j)
            if state[j] == "done":
                complete.add((i, j))
        val[i] = consts[i] + sum(val[j] for j in imports[i] if (i, j) in complete and (i, j) not in unused_imports(proj))
        order.append(i)
        state[i] = "done"
    load(0)
    return order, complete, val


def render(proj):
    """module index -> source text"""
    n, imports, consts = proj["n"], proj["imports"], proj["consts"]
    order, complete, val = simulate(proj)
    defect = proj.get("defect")
    out = {}
    for i in range(n):
        L = []
        for j in imports[i]:
            L.append('m%d = import "m%d"' % (j, j))
        unused = unused_imports(proj)
        terms = [str(consts[i])] + ["m%d.v" % j for j in imports[i] if (i, j) in complete and (i, j) not in unused]
        L.append(".v: Int = " + " + ".join(terms))
        L.append('.tag: Str = "s%d"' % i)
        L.append(".getc(): Int = %d" % consts[i])
        for j in imports[i]:
            if (i, j) in unused:
                continue
            if (i, j) in complete:
                L.append("t%d: Int = m%d.v" % (j, j))
                L.append("u%d: Str = m%d.tag" % (j, j))
            else:
                L.append("%sbk%d() = m%d.%s" % ("" if i == 0 else ".", j, j, "v" if proj.get("backvar") else "getc()"))
        if defect and defect["module"] == i:
            if defect["what"] == "type-error":
                L.append('.bad: Int = "not an int"')
            elif defect["what"] == "name-error":
                L.append(".bad2 = undefined_name_%d + 1" % i)
            else:
                L.append("unused_local_%d = %d" % (i, i))
        L.append('print! "M:%d"' % i)
        for j in imports[i]:
            if (i, j) in complete and (i, j) not in unused:
                L.append('print! "U:%d:%d:" + str(m%d.v) + ":" + m%d.tag' % (i, j, j, j))
        if i == 0:
            for j in imports[0]:
                if (0, j) in unused:
                    continue
                if (0, j) in complete:
                    L.append('print! "V:%d:" + str(m%d.v)' % (j, j))
                    L.append('print! "T:%d:" + m%d.tag' % (j, j))
                    for k in imports[j]:
                        if (j, k) not in complete:
                            L.append('print! "B:%d:%d:" + str(m%d.bk%d())' % (j, k, j, k))
            for k in imports[0]:
                if (0, k) not in complete and (0, k) not in unused:      # self import of the entry
                    L.append('print! "B:0:%d:" + str(bk%d())' % (k, k))
        out[i] = "\n".join(L) + "\n"
    return out


def expected(proj):
    order, complete, val = simulate(proj)
    imports = proj["imports"]
    lines = set()
    for i in order:
        lines.add("M:%d" % i)
    unused = unused_imports(proj)
    for i in order:
        for j in imports[i]:
            if (i, j) in complete and (i, j) not in unused:
                lines.add("U:%d:%d:%d:s%d" % (i, j, val[j], j))
    for j in imports[0]:
        if (0, j) in unused:
            continue
        if (0, j) in complete:
            lines.add("V:%d:%d" % (j, val[j]))
            lines.add("T:%d:s%d" % (j, j))
            for k in imports[j]:
                if (j, k) not in complete:
                    lines.add("B:%d:%d:%d" % (j, k, val[k] if proj.get("backvar") else proj["consts"][k]))
    for k in imports[0]:
        if (0, k) not in complete and (0, k) not in unused:
            lines.add("B:0:%d:%d" % (k, val[k] if proj.get("backvar") else proj["consts"][k]))
    return {"markers": sorted("M:%d" % i for i in order), "lines": sorted(lines), "modules": sorted(order)}


def write_project(proj, d):
    for i, src in render(proj).items():
        with open(os.path.join(d, "m%d.er" % i), "w") as f:
            f.write(src)


ANSI = re.compile(r"\x1b\[[0-9;]*m")


def parse_trace(path):
    ev = []
    if os.path.exists(path):
        for l in open(path, errors="replace").read().splitlines():
            t = l.split(" ")
            if t:
                ev.append(t)
    return ev


def mod_id(name):
    m = re.match(r"m(\d+)\.er$", name)
    return int(m.group(1)) if m else -1


def run_erg(erg, env, d, mode, trace=None, sched_seed=None, timeout=60, extra_env=None):
    """run `erg <mode> <d>/m0.er` (absolute path: the entry module is then the same graph node as the target of
    an import of it); returns dict(rc, out, err, timeout, wall)"""
    import time
    e = dict(os.environ)
    e.update(env)
    # the pyenv shim of python3 can take tens of seconds under load; put a real interpreter first
    e["PATH"] = "/root/.pyenv/versions/3.11.7/bin:" + e.get("PATH", "")
    if trace:
        e["ERG_VERIF_TRACE"] = trace
    if sched_seed is not None:
        e["ERG_VERIF_SCHED_SEED"] = str(sched_seed)
    if extra_env:
        e.update(extra_env)
    t0 = time.time()
    try:
        p = subprocess.run([erg, mode, os.path.join(d, "m0.er")], cwd=d, env=e, timeout=timeout,
                           stdout=subprocess.PIPE, stderr=subprocess.PIPE, text=True, errors="replace")
        return {"rc": p.returncode, "out": p.stdout, "err": ANSI.sub("", p.stderr), "timeout": False, "wall": time.time() - t0}
    except subprocess.TimeoutExpired as x:
        return {"rc": None, "out": (x.stdout or b"").decode(errors="replace") if isinstance(x.stdout, bytes) else (x.stdout or ""),
                "err": "", "timeout": True, "wall": time.time() - t0}
