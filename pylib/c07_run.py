"""C07: running erg on one program the way the property says and classifying what happened.

    r = Runner(erg_bin, erg_env, workdir, levels=(0, 3))
    res = r.run_many([(name, source_text), ...])          -> list of ProgResult   (16 programs in parallel)
    ok  = r.parses(source_text)                            -> bool                 (`erg --mode parse`)

For one program:   `erg check f.er`   and   `erg compile -o L f.er` for every L in levels.
`erg check` never reads the optimisation level (cfg.opt_level is read in optimize.rs only, and HIROptimizer::optimize is
called from compile.rs only: re-established from the source text on every run by opt_level_tie()); when that tie
breaks, check is run at every level as well.  When `erg check` ends with ordinary errors (or crashes) the front end
has rejected the program and the optimiser/code generator is not entered: compile is then run at the first level only
(not at all after a hang: it would hang in the same analysis).

Outcome of one command (class Outcome):
    ok        exit status 0
    diag      exit status 1 with ordinary diagnostics only
    CRASH kinds (these are the failing observations of the property):
    panic     the text contains "panicked at" (a Rust panic: unwrap, index, debug_assert, unreachable!, todo!, crash())
    bug       the text contains one of the internal-compiler-error phrases (INTERNAL_PHRASES)
    signal    the process was killed by a signal (stack overflow => SIGSEGV/SIGABRT)
    hang      no exit within TIMEOUT seconds
    exit      exit status other than 0 / 1 without any of the above
A crash carries a *site*: (file, function) for a panic (function = the enclosing `fn` of the reported line, found by
scanning the source file: robust against line shifts), the `caused from: fn:line` trailer for compiler_bug-style
messages, a message pattern otherwise.  `sig` = kind + ":" + site is what classes are matched on.
"""
import os
import re
import shutil
import subprocess
from concurrent.futures import ThreadPoolExecutor

ANSI = re.compile(r"\x1b\[[0-9;]*m")
TIMEOUT = int(os.environ.get("C07_TIMEOUT", "30"))      # seconds = "hangs" (property text): CPU seconds, see Runner._cmd
INTERNAL_PHRASES = ["bug of the erg compiler", "bug of erg compiler", "this is a bug", "bug of erg"]
CPU_LIMIT = 2 * TIMEOUT   # CPU seconds after which a command counts as hanging: twice the property's 30 s, because CPU
                          # time itself is inflated (page faults, cache thrashing) on a heavily loaded machine
HANG_SAMPLE_AFTER = 12    # CPU seconds after which the stack of a hanging command is sampled (and again at 1.6 x)
MAGIC_311 = "3495"      # `--py-magic-num 3495` = what the default detection finds for python3.11; saves three python
                        # subprocesses per compile (a sample is also compiled without it)
CRASH_KINDS = ("panic", "bug", "signal", "hang", "exit")


def load_factor():
    """the 30 s limit is meant for a machine that is not overloaded: scale it by the 1-minute load per core (>= 1)"""
    try:
        return max(1.0, os.getloadavg()[0] / (os.cpu_count() or 1))
    except OSError:
        return 1.0


class Outcome:
    __slots__ = ("cmd", "kind", "site", "msg", "rc", "text", "secs")

    def __init__(self, cmd, kind, site="", msg="", rc=None, text="", secs=0.0):
        self.cmd, self.kind, self.site, self.msg, self.rc, self.text, self.secs = cmd, kind, site, msg, rc, text, secs

    @property
    def crashed(self):
        return self.kind in CRASH_KINDS

    @property
    def sig(self):
        return "%s:%s" % (self.kind, self.site)

    def as_json(self):
        return {"cmd": self.cmd, "kind": self.kind, "site": self.site, "msg": self.msg[:300], "rc": self.rc,
                "output_tail": self.text[-1500:]}


_FN_CACHE = {}


def enclosing_fn(repo, relfile, line):
    """name of the `fn` whose body contains the line (nearest preceding `fn name` at lower or equal indentation)"""
    key = (repo, relfile)
    if key not in _FN_CACHE:
        try:
            _FN_CACHE[key] = open(os.path.join(repo, relfile), encoding="utf-8", errors="replace").read().splitlines()
        except OSError:
            _FN_CACHE[key] = None
    src = _FN_CACHE[key]
    if not src or line < 1 or line > len(src):
        return "?"
    for i in range(line - 1, -1, -1):
        m = re.match(r"^(\s*)(?:pub(?:\([a-z]+\))?\s+)?(?:const\s+)?(?:unsafe\s+)?fn\s+([A-Za-z0-9_]+)", src[i])
        if m:
            return m.group(2)
    return "?"


def classify(repo, cmd, rc, text, timed_out, secs=0.0):
    text = ANSI.sub("", text)
    low = text.lower()
    if timed_out:
        return Outcome(cmd, "hang", "timeout", "no exit within the time limit", rc, text, secs)
    m = re.search(r"panicked at ([^\s:]+):(\d+):(\d+):\s*\n?([^\n]*)", text)
    if m:
        f, ln = m.group(1), int(m.group(2))
        f = re.sub(r"^.*?/(crates|src)/", r"\1/", f) if f.startswith("/") else f
        fn = enclosing_fn(repo, f, ln)
        return Outcome(cmd, "panic", "%s:%s" % (f, fn), "%s:%d: %s" % (f, ln, m.group(4).strip()[:200]), rc, text, secs)
    if "has overflowed its stack" in low:
        return Outcome(cmd, "signal", "stack-overflow", "stack overflow", rc, text, secs)
    if rc is not None and rc < 0:
        return Outcome(cmd, "signal", "signal-%d" % -rc, "killed by signal %d" % -rc, rc, text, secs)
    if any(p in low for p in INTERNAL_PHRASES):
        m = re.search(r"caused from:\s*([A-Za-z0-9_:<>]+?):(\d+)", text, re.I)
        if m:
            site = "caused-from:%s" % m.group(1)
            msg = "internal error reported from %s:%s" % (m.group(1), m.group(2))
        else:
            # the diagnostic block (from its `Error[#n]` header to the `XError: message` line) that carries the phrase
            blocks = re.split(r"(?m)^(?=(?:Error|Warning)\[#\d+\])", text)
            blk = next((b for b in blocks if any(p in b.lower() for p in INTERNAL_PHRASES)), text)
            ms = re.findall(r"(?m)^([A-Za-z]+(?:Error|Warning)): (.*)$", blk)
            line = (ms[-1][0] + ": " + ms[-1][1]) if ms else "internal compiler error"
            # message pattern: identifiers/types replaced by *
            pat = re.sub(r"Type .+ is not found", "Type * is not found", line)
            site = "message:" + pat[:80]
            msg = line[:200]
        return Outcome(cmd, "bug", site, msg, rc, text, secs)
    if "panicked" in low or "rust_backtrace" in low:
        return Outcome(cmd, "panic", "unparsed", "panic text without a location", rc, text, secs)
    if rc == 0:
        return Outcome(cmd, "ok", rc=rc, text=text, secs=secs)
    if rc == 1:
        return Outcome(cmd, "diag", rc=rc, text=text, secs=secs)
    return Outcome(cmd, "exit", "status-%s" % rc, "exit status %s" % rc, rc, text, secs)


class ProgResult:
    __slots__ = ("name", "src", "outcomes")

    def __init__(self, name, src, outcomes):
        self.name, self.src, self.outcomes = name, src, outcomes

    @property
    def crashes(self):
        return [o for o in self.outcomes if o.crashed]

    @property
    def verdict(self):
        """ok: every command succeeded; diag: some command ended with ordinary diagnostics, none crashed; crash"""
        if self.crashes:
            return "crash"
        return "ok" if all(o.kind == "ok" for o in self.outcomes) else "diag"

    def sigs(self):
        return sorted(set(o.sig for o in self.crashes))


def opt_level_tie(repo):
    """True iff the source still says that only `compile` depends on the optimisation level"""
    try:
        readers, callers = [], []
        for root in ("crates", "src"):
            for d, _, fs in os.walk(os.path.join(repo, root)):
                if "/els" in d or "/target" in d:
                    continue
                for f in fs:
                    if not f.endswith(".rs"):
                        continue
                    p = os.path.join(d, f)
                    t = open(p, encoding="utf-8", errors="replace").read()
                    rel = os.path.relpath(p, repo)
                    if re.search(r"\.opt_level\b", t) and rel != "crates/erg_common/config.rs":
                        readers.append(rel)
                    if "HIROptimizer::optimize" in t and not rel.endswith("optimize.rs"):
                        callers.append(rel)
        return sorted(readers) == ["crates/erg_compiler/optimize.rs"] and sorted(callers) == ["crates/erg_compiler/compile.rs"]
    except OSError:
        return False


def _cpu_limit():
    import resource
    resource.setrlimit(resource.RLIMIT_CPU, (CPU_LIMIT, CPU_LIMIT + 5))


class Runner:
    def __init__(self, erg_bin, erg_env, workdir, repo, levels=(0, 3), workers=16, fast_magic=True):
        self.erg, self.work, self.repo = erg_bin, workdir, repo
        self.levels = tuple(levels)
        self.workers = workers
        self.env = dict(os.environ)
        self.env.update(erg_env or {})
        self.env.pop("RUST_BACKTRACE", None)
        self.env["RUST_BACKTRACE"] = "0"
        self.fast_magic = fast_magic
        self.check_all_levels = not opt_level_tie(repo)
        self.timeout = TIMEOUT * load_factor()
        self.n = 0
        self.commands = 0
        os.makedirs(workdir, exist_ok=True)

    def _cmd(self, what, args, path):
        import time
        t0 = time.time()
        try:
            # the hang limit as CPU time (independent of the machine load): SIGXCPU after TIMEOUT seconds of CPU;
            # the wall-clock limit (ten times the limit, scaled by the current load) only catches a process that sleeps forever
            p = subprocess.run([self.erg] + args + [path], env=self.env, capture_output=True, timeout=max(600, TIMEOUT * load_factor() * 10),
                               cwd=os.path.dirname(path), preexec_fn=_cpu_limit)
            text = (p.stdout + p.stderr).decode("utf-8", "replace")
            if p.returncode == -24:      # SIGXCPU
                return classify(self.repo, what, None, text, True, time.time() - t0)
            return classify(self.repo, what, p.returncode, text, False, time.time() - t0)
        except subprocess.TimeoutExpired as e:
            text = ((e.stdout or b"") + (e.stderr or b"")).decode("utf-8", "replace")
            return classify(self.repo, what, None, text, True, time.time() - t0)

    def overflow_site(self, args, path):
        """a stack overflow prints no location: rerun the command under gdb and name the recursion by the distinct
        functions that occur at least three times in the innermost 60 frames (sorted, crate path stripped).
        '' when gdb is not available."""
        if not shutil.which("gdb"):
            return ""
        try:
            p = subprocess.run(["gdb", "-batch", "-ex", "set pagination off", "-ex", "run", "-ex", "bt 60", "--args", self.erg] + args + [path],
                               env=self.env, capture_output=True, timeout=max(300, self.timeout * 4), cwd=os.path.dirname(path))
        except (subprocess.TimeoutExpired, OSError):
            return ""
        names = {}
        for line in p.stdout.decode("utf-8", "replace").splitlines():
            for _ in range(4):
                line = re.sub(r"<[^<>]*>", "", line)          # generic arguments
            m = re.match(r"^#(\d+)\s+(?:0x[0-9a-f]+ in )?([^\s(]+)", line)
            if m and int(m.group(1)) >= 2:
                parts = [x for x in m.group(2).split("::") if x]
                n = "::".join(parts[-2:])
                names[n] = names.get(n, 0) + 1
        # the members of the recursion cycle occur again and again; the few innermost leaf frames do not
        return "+".join(sorted(n for n, k in names.items() if k >= 3))[:300]

    def hang_site(self, args, path):
        """a hang has no location either: start the command again, attach gdb after HANG_SAMPLE_AFTER CPU seconds and name the
        busy place by the two functions of the compiler crate that occur most often on the stack in both of two samples
        taken some seconds apart (coarse: different hangs inside the same recursion share a site).  '' without gdb."""
        if not shutil.which("gdb"):
            return ""
        import time
        try:
            p = subprocess.Popen([self.erg] + args + [path], env=self.env, stdout=subprocess.DEVNULL, stderr=subprocess.DEVNULL,
                                 cwd=os.path.dirname(path))
        except OSError:
            return ""
        samples = []

        def cpu_seconds(pid):
            try:
                f = open("/proc/%d/stat" % pid).read().rsplit(")", 1)[1].split()
                return (int(f[11]) + int(f[12])) / os.sysconf("SC_CLK_TCK")
            except (OSError, IndexError, ValueError):
                return -1.0
        try:
            # sample when the process has burnt HANG_SAMPLE_AFTER (then 1.6 x that) seconds of CPU: well inside the busy part,
            # whatever the load of the machine
            for target in (HANG_SAMPLE_AFTER, HANG_SAMPLE_AFTER * 1.6):
                t0 = time.time()
                while p.poll() is None and 0 <= cpu_seconds(p.pid) < target and time.time() - t0 < 900:
                    time.sleep(1)
                if p.poll() is not None:
                    return ""
                q = subprocess.run(["gdb", "-p", str(p.pid), "-batch", "-ex", "thread apply all bt 120"], capture_output=True, timeout=900)
                names = []
                for line in q.stdout.decode("utf-8", "replace").splitlines():
                    for _k in range(5):
                        line = re.sub(r"<[^<>]*>", "", line)
                    m = re.match(r"^#(\d+)\s+(?:0x[0-9a-f]+ in )?([^\s(]+)", line)
                    if m and m.group(2).startswith("erg_compiler::") and "{" not in m.group(2):
                        parts = [x for x in m.group(2).split("::") if x]
                        names.append("::".join(parts[-2:]))
                samples.append(names)
        except (subprocess.TimeoutExpired, OSError):
            return ""
        finally:
            p.kill()
        if len(samples) < 2:
            return ""
        # the two functions that occur most often on the stack in both samples (a busy recursion shows its cycle)
        score = {}
        for n in set(samples[0]) & set(samples[1]):
            score[n] = min(samples[0].count(n), samples[1].count(n))
        top = sorted(score, key=lambda n: (-score[n], n))[:2]
        return "+".join(sorted(top))[:300]

    def run_one(self, name, src, levels=None, default_magic=False, resolve=True):
        levels = self.levels if levels is None else levels
        d = os.path.join(self.work, name)
        os.makedirs(d, exist_ok=True)
        path = os.path.join(d, "m.er")
        with open(path, "w", encoding="utf-8") as f:
            f.write(src)
        outs = []
        magic = ["--py-magic-num", MAGIC_311] if (self.fast_magic and not default_magic) else []
        chk_levels = levels if self.check_all_levels else levels[:1]
        for lv in chk_levels:
            outs.append(self._cmd("check" + (" -o %d" % lv if self.check_all_levels else ""),
                                  ["check"] + (["-o", str(lv)] if self.check_all_levels else []), path))
        front_rejected = outs[0].kind == "diag"
        for k, lv in enumerate(levels):
            if (front_rejected or outs[0].crashed) and k > 0:
                break       # the front end rejected the program / crashed: every compile command repeats exactly that
            if outs[0].kind == "hang":
                break       # `erg compile` starts with the same analysis: it would only hang again
            outs.append(self._cmd("compile -o %d" % lv, ["compile", "-o", str(lv)] + magic, path))
        self.commands += len(outs)
        for o in (outs if resolve else []):     # resolve=False (shrinking): no gdb re-runs
            if o.kind == "signal" and o.site == "stack-overflow":
                argv = o.cmd.split()
                extra = ["--py-magic-num", MAGIC_311] if (argv[0] == "compile" and magic) else []
                site = self.overflow_site(argv + extra, path)
                if site:
                    o.site = "stack-overflow:" + site
            if o.kind == "hang" and o.site == "timeout":
                argv = o.cmd.split()
                extra = ["--py-magic-num", MAGIC_311] if (argv[0] == "compile" and magic) else []
                site = self.hang_site(argv + extra, path) or self.hang_site(argv + extra, path)
                if site:
                    o.site = "timeout:" + site
        for f in os.listdir(d):
            try:
                os.remove(os.path.join(d, f))
            except OSError:
                pass
        try:
            os.rmdir(d)
        except OSError:
            pass
        return ProgResult(name, src, outs)

    def run_many(self, items, levels=None, default_magic=False, expected_hang=()):
        names = []
        for it in items:
            self.n += 1
            names.append("q%d" % self.n)
        with ThreadPoolExecutor(self.workers) as ex:
            res = list(ex.map(lambda a: self.run_one(a[0], a[1], levels, default_magic), zip(names, items)))
        # a hang seen while 16 programs ran in parallel is re-established alone before it counts
        for k, r in enumerate(res):
            if k not in expected_hang and any(o.kind == "hang" for o in r.outcomes):
                res[k] = self.run_one(names[k] + "r", items[k], levels, default_magic)
        return res

    def parses_many(self, srcs):
        """`erg --mode parse` accepts the text (exit status 0, no panic)"""
        def one(a):
            k, src = a
            path = os.path.join(self.work, "parse%d_%d.er" % (os.getpid(), k))
            with open(path, "w", encoding="utf-8") as f:
                f.write(src)
            try:
                p = subprocess.run([self.erg, "--mode", "parse", path], env=self.env, capture_output=True, timeout=self.timeout)
                text = (p.stdout + p.stderr).decode("utf-8", "replace")
                ok = p.returncode == 0 and "panicked at" not in text
                crashed = ("panicked at" in text) or p.returncode not in (0, 1)
            except subprocess.TimeoutExpired:
                ok, crashed = False, True
            os.remove(path)
            return ok, crashed
        with ThreadPoolExecutor(self.workers) as ex:
            return list(ex.map(one, enumerate(srcs)))

    def parses(self, src):
        return self.parses_many([src])[0][0]
