"""C07 translator: the internal-error site table of the compiler crate  ->  coq/gen/BugSites.v.

Every place in crates/erg_compiler/**/*.rs (comments and string literals stripped, `#[cfg(test)]`/`#[test]` items left
in: they are few and harmless) that can end a compilation abnormally:

    kind  1 panic!            2 unreachable!          3 todo!                4 unimplemented!
          5 .unwrap()         6 .expect(              7 enum_unwrap!         8 switch_unreachable!
          9 debug_assert*!   10 assert*!             11 self.crash(         12 compiler_bug / checker_bug / stack_bug /
                                                                               system_exit (the "this is a bug" constructors)
         13 unreachable_error! (expands to compiler_bug/checker_bug)        14 type_not_found ("This may be a bug")
         15 feature_error (not an internal error: "not implemented" diagnostics; listed for completeness)
         16 slice/array index `[..]` is NOT listed (too many, indistinguishable from type syntax by text)

A site is (file id, line, kind, function id, anchored): `function` = enclosing fn (nearest preceding `fn`), anchored = the
file is one of the property's anchors.  gen/BugSites.v also carries the file and function name tables (code points).

The table is used for (1) coverage accounting: which listed sites were reached by a generated program (panic location
or `caused from:` trailer) - the expectation is none outside the known classes; (2) noticing that a changed tree has a
site the committed baseline (corpus/C07/sites_baseline.json) did not have: reported in the evidence as new_sites
(a note, not an alarm); (3) resolving a crash observation to (file id, function id) for the Coq class predicates.
"""
import os
import re

ANCHORS = ["lower.rs", "context/inquire.rs", "context/instantiate.rs", "context/generalize.rs", "codegen.rs",
           "error/mod.rs", "error/lower.rs"]
KINDS = [
    (1, r"\bpanic!\s*\("), (2, r"\bunreachable!\s*\("), (3, r"\btodo!\s*\("), (4, r"\bunimplemented!\s*\("),
    (5, r"\.unwrap\(\)"), (6, r"\.expect\("), (7, r"\benum_unwrap!\s*\("), (8, r"\bswitch_unreachable!\s*\("),
    (9, r"\bdebug_assert(?:_eq|_ne)?!\s*\("), (10, r"(?<![_a-z])assert(?:_eq|_ne)?!\s*\("), (11, r"\bself\.crash\("),
    (12, r"\b(?:compiler_bug|checker_bug|stack_bug|system_exit)\s*\("), (13, r"\bunreachable_error!\s*\("),
    (14, r"\btype_not_found\s*\("), (15, r"\bfeature_error!?\s*\("),
]
KIND_NAMES = {1: "panic!", 2: "unreachable!", 3: "todo!", 4: "unimplemented!", 5: "unwrap()", 6: "expect()", 7: "enum_unwrap!",
              8: "switch_unreachable!", 9: "debug_assert!", 10: "assert!", 11: "crash()", 12: "compiler_bug()",
              13: "unreachable_error!", 14: "type_not_found()", 15: "feature_error"}
FN_RE = re.compile(r"^\s*(?:pub(?:\([a-z]+\))?\s+)?(?:const\s+)?(?:unsafe\s+)?fn\s+([A-Za-z0-9_]+)")


def strip_rust(src):
    """comments and string/char literals blanked (newlines kept)"""
    out = []
    i, n = 0, len(src)
    while i < n:
        c = src[i]
        if src.startswith("//", i):
            j = src.find("\n", i)
            j = n if j < 0 else j
            i = j
        elif src.startswith("/*", i):
            depth, j = 1, i + 2
            while j < n and depth:
                if src.startswith("/*", j):
                    depth += 1
                    j += 2
                elif src.startswith("*/", j):
                    depth -= 1
                    j += 2
                else:
                    if src[j] == "\n":
                        out.append("\n")
                    j += 1
            i = j
        elif c == '"':
            j = i + 1
            while j < n and src[j] != '"':
                if src[j] == "\\":
                    j += 1
                if j < n and src[j] == "\n":
                    out.append("\n")
                j += 1
            out.append('""')
            i = j + 1
        elif c == "r" and re.match(r'r#*"', src[i:i + 6]) and (i == 0 or not (src[i - 1].isalnum() or src[i - 1] == "_")):
            m = re.match(r'r(#*)"', src[i:])
            end = '"' + m.group(1)
            j = src.find(end, i + len(m.group(0)))
            j = n if j < 0 else j
            out.append("\n" * src.count("\n", i, j))
            out.append('""')
            i = j + len(end)
        elif c == "'" and re.match(r"'(\\.|[^\\'])'", src[i:i + 4]):
            m = re.match(r"'(\\.|[^\\'])'", src[i:i + 4])
            out.append("' '")
            i += len(m.group(0))
        else:
            out.append(c)
            i += 1
    return "".join(out)


def scan(repo):
    """list of dicts file, line, kind, fn, anchored; raises ValueError when the crate layout is not the expected one"""
    root = os.path.join(repo, "crates", "erg_compiler")
    if not os.path.isdir(root):
        raise ValueError("crates/erg_compiler not found")
    for a in ANCHORS:
        if not os.path.exists(os.path.join(root, a)):
            raise ValueError("anchored file crates/erg_compiler/%s is missing" % a)
    sites = []
    for d, dirs, fs in os.walk(root):
        dirs[:] = sorted(x for x in dirs if x not in ("lib", "tests", "target"))
        for f in sorted(fs):
            if not f.endswith(".rs"):
                continue
            p = os.path.join(d, f)
            rel = os.path.relpath(p, root)
            txt = strip_rust(open(p, encoding="utf-8", errors="replace").read())
            fn = "?"
            for ln, line in enumerate(txt.split("\n"), 1):
                m = FN_RE.match(line)
                if m:
                    fn = m.group(1)
                for kid, rx in KINDS:
                    for _ in re.finditer(rx, line):
                        sites.append({"file": rel, "line": ln, "kind": kid, "fn": fn, "anchored": rel in ANCHORS})
    if not any(s["kind"] == 11 for s in sites) or not any(s["kind"] == 14 for s in sites):
        raise ValueError("no crash()/type_not_found site found: the internal-error constructors were renamed")
    return sites


def zs(s):
    return "[" + "; ".join(str(ord(c)) for c in s) + "]"


def render(sites):
    files = sorted(set(s["file"] for s in sites))
    fns = sorted(set(s["fn"] for s in sites))
    fid = {f: i for i, f in enumerate(files)}
    nid = {f: i for i, f in enumerate(fns)}
    L = ["(* generated by pylib/c07_sites.py from crates/erg_compiler/**/*.rs - do not edit *)",
         "From Coq Require Import ZArith List.", "Import ListNotations.", "Open Scope Z_scope.", "",
         "(* file id -> path below crates/erg_compiler (code points) *)",
         "Definition site_files : list (list Z) := ["]
    L.append(";\n".join("  " + zs(f) for f in files))
    L.append("].")
    L.append("")
    L.append("(* function id -> name *)")
    L.append("Definition site_fns : list (list Z) := [")
    L.append(";\n".join("  " + zs(f) for f in fns))
    L.append("].")
    L.append("")
    L.append("(* (file id, line, kind, function id, anchored) ; kinds: see pylib/c07_sites.py *)")
    L.append("Definition bug_sites : list (Z * Z * Z * Z * bool) := [")
    L.append(";\n".join("  (%d, %d, %d, %d, %s)" % (fid[s["file"]], s["line"], s["kind"], nid[s["fn"]], "true" if s["anchored"] else "false")
                        for s in sites))
    L.append("].")
    L.append("")
    L.append("Definition n_bug_sites : Z := %d." % len(sites))
    L.append("Definition n_anchored_sites : Z := %d." % sum(1 for s in sites if s["anchored"]))
    return "\n".join(L) + "\n", fid, nid


def site_keys(sites):
    """identity of a site that survives line shifts: file, function, kind, ordinal of that kind within the function"""
    seen = {}
    out = []
    for s in sites:
        k = (s["file"], s["fn"], s["kind"])
        seen[k] = seen.get(k, 0) + 1
        out.append("%s:%s:%s#%d" % (s["file"], s["fn"], KIND_NAMES[s["kind"]], seen[k]))
    return out
