"""Decode .pyc files written by `erg compile` (default target: CPython 3.11) into plain data, and canonicalise code.

CLI (run under python3.11, whose marshal/dis match the files):   python3.11 dis_dump.py f1.pyc f2.pyc ...
  prints one JSON object per file:  {"file":…, "units": [[opcode, arg], …] (co_code two bytes at a time, caches included),
  "consts": [typed constant, …], "names": […], "error": …}
  typed constants: ["int", n] ["float", bits] ["str", s] ["bool", 0/1] ["none"] ["tuple", […]] ["code", name] ["other", repr]

Library (any python >= 3.8; opcode tables are passed in or taken from 3.11's `dis` when running under 3.11):
  normalise(units)  -> canonical instruction list [[opname, arg], …]: EXTENDED_ARG folded into the next instruction,
                       CACHE / NOP / RESUME dropped, the ignored argument byte of argument-less opcodes zeroed, jump
                       arguments replaced by the index (in the canonical list) of the target instruction
  zero_noarg(units) -> the raw units with only the ignored argument bytes zeroed (byte-level comparison)
"""
import json
import struct
import sys

# CPython 3.11 tables (dis.opmap / dis.hasjrel restricted to what can appear; filled from `dis` when available)
try:
    import dis as _dis
    if sys.version_info[:2] == (3, 11):
        OPNAME = {v: k for k, v in _dis.opmap.items()}
        HASJREL = set(_dis.hasjrel)
        HAVE_ARGUMENT = _dis.HAVE_ARGUMENT
    else:
        raise ImportError
except ImportError:   # pragma: no cover  (static copy of the 3.11 facts used)
    OPNAME = {0: "CACHE", 1: "POP_TOP", 2: "PUSH_NULL", 9: "NOP", 10: "UNARY_POSITIVE", 11: "UNARY_NEGATIVE", 12: "UNARY_NOT",
              15: "UNARY_INVERT", 83: "RETURN_VALUE", 84: "IMPORT_STAR", 90: "STORE_NAME", 100: "LOAD_CONST", 101: "LOAD_NAME",
              107: "COMPARE_OP", 111: "JUMP_IF_FALSE_OR_POP", 112: "JUMP_IF_TRUE_OR_POP", 122: "BINARY_OP", 144: "EXTENDED_ARG",
              151: "RESUME", 166: "PRECALL", 171: "CALL"}
    HASJREL = {93, 110, 111, 112, 114, 115, 128, 129, 140, 173, 174, 175, 176}
    HAVE_ARGUMENT = 90

EXTENDED_ARG, CACHE, NOP, RESUME = 144, 0, 9, 151
DROPPED = {CACHE, NOP, RESUME}


def typed_const(c):
    if c is None:
        return ["none"]
    if isinstance(c, bool):
        return ["bool", int(c)]
    if isinstance(c, int):
        return ["int", c]
    if isinstance(c, float):
        return ["float", struct.unpack("<Q", struct.pack("<d", c))[0]]
    if isinstance(c, str):
        return ["str", c]
    if isinstance(c, tuple):
        return ["tuple", [typed_const(x) for x in c]]
    if hasattr(c, "co_code"):
        return ["code", c.co_name]
    return ["other", repr(c)]


def dump_file(path):
    import marshal
    try:
        with open(path, "rb") as f:
            data = f.read()
        co = marshal.loads(data[16:])
        code = co.co_code
        return {"file": path, "units": [[code[i], code[i + 1]] for i in range(0, len(code), 2)],
                "consts": [typed_const(c) for c in co.co_consts], "names": list(co.co_names)}
    except Exception as e:   # unreadable file: reported, decided by the caller
        return {"file": path, "error": "%s: %s" % (type(e).__name__, e)}


def zero_noarg(units):
    return [[op, (a if op >= HAVE_ARGUMENT else 0)] for op, a in units]


def normalise(units):
    """canonical instruction list; a jump argument becomes the canonical index of its target (len(list) = past the end)"""
    instrs = []          # (unit index of the instruction proper, opcode, full arg)
    ext = 0
    for i, (op, a) in enumerate(units):
        if op == EXTENDED_ARG:
            ext = (ext << 8) | a
            continue
        arg = (ext << 8) | a
        ext = 0
        instrs.append((i, op, arg))
    kept = [(i, op, arg) for (i, op, arg) in instrs if op not in DROPPED]
    starts = sorted(i for (i, _, _) in kept)

    def canon_index(unit):
        # first kept instruction at or after the unit offset (EXTENDED_ARG prefixes / caches in between are skipped)
        n = 0
        for (i, op, arg) in kept:
            # an instruction "covers" its EXTENDED_ARG prefixes: target may point at the prefix
            if i >= unit:
                return n
            n += 1
        return len(kept)
    out = []
    for (i, op, arg) in kept:
        name = OPNAME.get(op, "OP%d" % op)
        if op in HASJREL:
            tgt = i + 1 - arg if "BACKWARD" in name else i + 1 + arg
            out.append([name, canon_index(tgt)])
        elif op < HAVE_ARGUMENT:
            out.append([name, 0])
        else:
            out.append([name, arg])
    return out


def main(argv):
    for p in argv:
        sys.stdout.write(json.dumps(dump_file(p)) + "\n")


if __name__ == "__main__":
    main(sys.argv[1:])
