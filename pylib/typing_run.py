"""Running erg on programs of the Typing fragment (properties C05, C02, C34): `erg check`, `erg run`,
`erg --mode typecheck`, 16-way parallel, ANSI stripped.  An observation is an Obs:
    rc        exit status (0 = accepted for check/typecheck)
    out, err  text
    errors    number of error diagnostics (`Error[#nnnn]` headers)
    exc       class of the uncaught Python exception of `erg run` ('' if none / rejected at compile time)
    crashed   panic / 'bug of Erg' / killed by a signal
"""
import os
import re
import subprocess
from concurrent.futures import ThreadPoolExecutor

ANSI = re.compile(r"\x1b\[[0-9;]*m")
TIMEOUT = 900
PYENV = {"PYTHONIOENCODING": "utf-8", "PYTHONUTF8": "1", "PYTHONDONTWRITEBYTECODE": "1"}
TYPE_ERROR_CLASSES = ("TypeError", "AttributeError", "NameError", "UnboundLocalError", "ValueError")


class Obs:
    __slots__ = ("rc", "out", "err", "errors", "exc", "crashed", "exc_line")

    def as_json(self):
        return {"rc": self.rc, "errors": self.errors, "exc": self.exc, "exc_line": self.exc_line,
                "stdout_tail": self.out[-1500:], "stderr_tail": self.err[-1500:]}


def exc_class(err):
    """class of the exception that ended the Python run (last line of the traceback)"""
    ls = [l for l in err.strip().splitlines() if l.strip()]
    if not ls:
        return "", ""
    m = re.match(r"^([A-Za-z_][\w.]*)(:|$)", ls[-1])
    return (m.group(1) if m else "?"), ls[-1][:300]


def _one(erg_bin, env, path, mode):
    cmd = [erg_bin] + (["--mode", "typecheck"] if mode == "typecheck" else [mode]) + [path]
    p = subprocess.run(cmd, env=env, capture_output=True, timeout=TIMEOUT)
    o = Obs()
    o.rc = p.returncode
    o.out = ANSI.sub("", p.stdout.decode("utf-8", "replace"))
    o.err = ANSI.sub("", p.stderr.decode("utf-8", "replace"))
    txt = o.out + o.err
    o.errors = len(re.findall(r"^Error\[#\d+\]", txt, re.M))
    o.crashed = ("panicked" in txt) or ("bug of Erg" in txt) or ("this is a bug" in txt) or p.returncode < 0
    o.exc, o.exc_line = ("", "")
    if mode == "run" and p.returncode != 0 and o.errors == 0:
        o.exc, o.exc_line = exc_class(o.err)
    return o


def observe(erg_bin, erg_env, workdir, items, mode, workers=16):
    """items: [(name, source)]; mode: 'check' | 'run' | 'typecheck'"""
    os.makedirs(workdir, exist_ok=True)
    env = dict(os.environ)
    env.update(PYENV)
    env.update(erg_env or {})
    paths = []
    for name, src in items:
        p = os.path.join(workdir, "%s_%s.er" % (name, mode[:2]))
        with open(p, "w", encoding="utf-8") as f:
            f.write(src)
        paths.append(p)
    with ThreadPoolExecutor(workers) as ex:
        return list(ex.map(lambda p: _one(erg_bin, env, p, mode), paths))


def program_output(o):
    """stdout of `erg run` without the warning blocks erg prints in front (lines of the program come last)"""
    return o.out
