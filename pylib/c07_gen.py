"""C07 input streams.

 (a) typed CoreErg programs of pylib/coreerg_gen.py (all four levels), float literals normalised to the class the
     Gallina printer NoCrash/Gen.v print_erg prints exactly (dyadic: k/1024, |value| < 2**40);
 (b) the same trees with annotations removed (parameters untyped, return types / variable annotations dropped:
     the *untyped set* U of identifiers) and with 1..3 ill-typing mutations of the tree (MUTATORS below);
     every tree of (a) and (b) satisfies NoCrash/Gen.v wf_prog by construction and is printed by to_erg(), the
     Python twin of print_erg (the check compares the two texts on every program);
 (c) text mutations of corpus programs (/repo/examples, /repo/tests/should_ok, /repo/tests/should_err): statement
     (top-level chunk) deletion / duplication / reordering, identifier swaps, literal swaps, operator swaps.  Mutants
     are kept only if `erg --mode parse` accepts them (done by the caller; rejected ones are counted).

A C07 case is (prog, U): prog a coreerg_gen tree, U a sorted list of identifiers whose annotation is not printed.
Wire format for coq/NoCrash: [prog_sx, U].
"""
import os
import re

from pylib import coreerg_gen as G

E, S = G.Ex, G.St


# ------------------------------------------------------------------------------------------------ float class
def simple_float_bits(bits):
    """nearest float of the form k/1024 with |value| < 2**40 (what print_erg prints exactly)"""
    f = G.bits2f(bits)
    if f != f:
        f = 0.0
    neg = (bits >> 63) == 1
    a = abs(f)
    if a >= 2.0 ** 40:
        a = float(2 ** 40 - 1)
    k = int(a * 1024)
    a = k / 1024.0
    return G.f2bits(-a if neg else a)


def float_text(bits):
    """decimal text of a simple float: integer part '.' exact fraction (at least one digit); sign in front"""
    neg = (bits >> 63) == 1
    a = abs(G.bits2f(bits))
    k = int(a * 1024)
    assert k / 1024.0 == a, "not a simple float"
    ip, fp = divmod(k, 1024)
    # fp/1024 = fp * 5**10 / 10**10: ten digits, trailing zeros removed (keep one)
    digits = "%010d" % (fp * 5 ** 10)
    digits = digits.rstrip("0") or "0"
    return ("-" if neg else "") + "%d.%s" % (ip, digits)


def normalise(prog):
    """float literals -> simple floats (in place on a clone); returns the clone"""
    prog = G.clone(prog)

    def f(e):
        if e.tag == G.E_LIT and e.args[0] == G.L_FLOAT:
            e.args[1] = simple_float_bits(e.args[1])
    G.walk_exprs(prog, f)
    # default values of parameters are not visited by walk_exprs' generic traversal of [pid, ty, default] triples
    for s in all_stmts(prog):
        if s.tag == G.S_FUN:
            for p in s.args[2]:
                if p[2] is not None:
                    walk_expr(p[2], f)
    return prog


def walk_expr(e, f):
    f(e)
    for x in G.sub_exprs(e):
        walk_expr(x, f)


def all_stmts(prog):
    out = []

    def ws(ss):
        for s in ss:
            out.append(s)
            for x in s.args:
                if isinstance(x, list) and x and isinstance(x[0], S):
                    ws(x)
    ws(prog)
    return out


# ------------------------------------------------------------------------------------------------ printer (twin of print_erg)
def lit_text(e):
    k, v = e.args
    if k in (G.L_NAT, G.L_NEG):
        return str(v)
    if k == G.L_FLOAT:
        return float_text(v)
    if k == G.L_STR:
        return G.erg_str(v)
    if k == G.L_BOOL:
        return "True" if v else "False"
    return "None"


def atomic(e):
    if e.tag == G.E_LIT:
        k, v = e.args
        return not (k == G.L_NEG or (k == G.L_FLOAT and (v >> 63) == 1))
    if e.tag == G.E_UN and e.args[0] == G.UN_NOT:
        return True
    return e.tag in (G.E_VAR, G.E_LIST, G.E_CALL, G.E_LEN, G.E_ABS, G.E_INDEX, G.E_IF)


def p_op(e, names):
    s = p_expr(e, names)
    return s if atomic(e) else "(" + s + ")"


def p_expr(e, names):
    t, a = e.tag, e.args
    if t == G.E_LIT:
        return lit_text(e)
    if t == G.E_VAR:
        return names(a[0])
    if t == G.E_UN:
        if a[0] == G.UN_NOT:
            return "not(%s)" % p_expr(a[1], names)
        return "%s(%s)" % (G.UNOPS[a[0]], p_expr(a[1], names))
    if t == G.E_BIN:
        return "%s %s %s" % (p_op(a[1], names), G.ARITH[a[0]], p_op(a[2], names))
    if t == G.E_CMP:
        return "%s %s %s" % (p_op(a[1], names), G.CMP[a[0]], p_op(a[2], names))
    if t == G.E_LOGIC:
        return "%s %s %s" % (p_op(a[1], names), ["and", "or"][a[0]], p_op(a[2], names))
    if t == G.E_LIST:
        return "[" + ", ".join(p_expr(x, names) for x in a[0]) + "]"
    if t == G.E_TUPLE:
        return "(" + ", ".join(p_expr(x, names) for x in a[0]) + ")"
    if t == G.E_INDEX:
        return "%s[%s]" % (p_op(a[0], names), p_expr(a[1], names))
    if t == G.E_IF:
        return "if(%s, (do: %s), (do: %s))" % (p_expr(a[0], names), p_expr(a[1], names), p_expr(a[2], names))
    if t == G.E_CALL:
        args = [p_expr(x, names) for x in a[1]] + ["%s := %s" % (names(p), p_expr(x, names)) for p, x in a[2]]
        return "%s(%s)" % (names(a[0]), ", ".join(args))
    if t == G.E_LEN:
        return "len(%s)" % p_expr(a[0], names)
    if t == G.E_ABS:
        return "abs(%s)" % p_expr(a[0], names)
    if t == G.E_RANGE:
        return "%s..<%s" % (p_op(a[0], names), p_op(a[1], names))
    raise ValueError(t)


def to_erg(prog, untyped=()):
    U = set(untyped)
    procs = G.proc_ids(prog)

    def names(i):
        return "p%d!" % i if i in procs else "v%d" % i
    lines = []

    def blk(ss, ind):
        for s in ss:
            st(s, ind)

    def st(s, ind):
        p = "    " * ind
        t, a = s.tag, s.args
        if t == G.S_EXPR:
            lines.append(p + p_expr(a[0], names))
        elif t == G.S_PRINT:
            lines.append(p + "print!(%s)" % ", ".join(p_expr(e, names) for e in a[0]))
        elif t == G.S_ASSERT:
            lines.append(p + "assert(%s)" % p_expr(a[0], names))
        elif t == G.S_DEF:
            ann = ": %s" % G.erg_ty(G.code_ty(a[1])) if (a[1] and a[0] not in U) else ""
            lines.append(p + "%s%s = %s" % (names(a[0]), ann, p_expr(a[2], names)))
        elif t == G.S_IF:
            if a[2]:
                lines.append(p + "if! %s:" % p_expr(a[0], names))
                lines.append(p + "    do!:")
                blk(a[1], ind + 2)
                lines.append(p + "    do!:")
                blk(a[3], ind + 2)
            else:
                lines.append(p + "if! %s, do!:" % p_expr(a[0], names))
                blk(a[1], ind + 1)
        elif t == G.S_FOR:
            lines.append(p + "for! %s, %s =>" % (p_expr(a[1], names), names(a[0])))
            blk(a[2], ind + 1)
        elif t == G.S_WHILE:
            lines.append(p + "while! do! %s, do!:" % p_expr(a[0], names))
            blk(a[1], ind + 1)
        elif t == G.S_MUTDEF:
            lines.append(p + "%s = !%s" % (names(a[0]), p_op(a[1], names)))
        elif t == G.S_INC:
            lines.append(p + "%s.inc!()" % names(a[0]))
        elif t == G.S_UPDATE:
            lines.append(p + "%s.update!(%s -> %s)" % (names(a[0]), names(a[1]), p_expr(a[2], names)))
        elif t == G.S_FUN:
            ps = []
            for pid, ty, default in a[2]:
                ann = "" if pid in U else ": %s" % G.erg_ty(ty)
                ps.append("%s%s%s" % (names(pid), ann, " := %s" % p_op(default, names) if default is not None else ""))
            ret = "" if (a[1] or a[0] in U) else ": %s" % G.erg_ty(a[3])
            lines.append(p + "%s(%s)%s =" % (names(a[0]), ", ".join(ps), ret))
            blk(a[4], ind + 1)
        elif t == G.S_LAM:
            ps = ", ".join(names(pid) if pid in U else "%s: %s" % (names(pid), G.erg_ty(ty)) for pid, ty in a[1])
            lines.append(p + "%s = (%s) -> %s" % (names(a[0]), ps, p_expr(a[2], names)))
        elif t == G.S_PAT:
            ids = ", ".join(names(i) for i in a[1])
            lines.append(p + ("(%s) = %s" if a[0] == 0 else "[%s] = %s") % (ids, p_expr(a[2], names)))
        elif t == G.S_PCALL:
            lines.append(p + "%s(%s)" % (names(a[0]), ", ".join(p_expr(x, names) for x in a[1])))
        elif t == G.S_NPAT:
            lines.append(p + "%s = %s" % (G.erg_pat(a[0], names), p_expr(a[1], names)))
        else:
            raise ValueError(t)
    blk(prog, 0)
    return "\n".join(lines) + "\n"


# ------------------------------------------------------------------------------------------------ (b) untyping
def annotated_ids(prog):
    """identifiers that carry an annotation: parameters, functions (return type), annotated variables"""
    params, funs, vars_ = [], [], []
    for s in all_stmts(prog):
        if s.tag == G.S_FUN:
            params += [p[0] for p in s.args[2]]
            if not s.args[1]:
                funs.append(s.args[0])
        elif s.tag == G.S_LAM:
            params += [p[0] for p in s.args[1]]
        elif s.tag == G.S_DEF and s.args[1]:
            vars_.append(s.args[0])
    return params, funs, vars_


def untype(rng, prog):
    params, funs, vars_ = annotated_ids(prog)
    k = rng.random()
    if k < 0.4:
        U = params + funs + vars_            # everything untyped
    elif k < 0.7:
        U = params + [f for f in funs if rng.random() < 0.5]
    else:
        U = [i for i in params + funs + vars_ if rng.random() < 0.5]
    return sorted(set(U))


# ------------------------------------------------------------------------------------------------ (b) ill-typing mutations
def _lit(rng, kind):
    if kind == "nat":
        return E(G.E_LIT, [G.L_NAT, rng.choice([0, 1, 2, 7, 255, 2**31, 2**64 - 1])], G.NAT)
    if kind == "neg":
        return E(G.E_LIT, [G.L_NEG, -rng.choice([1, 2, 9, 2**31])], G.INT)
    if kind == "float":
        return E(G.E_LIT, [G.L_FLOAT, G.f2bits(rng.choice([0.0, -0.0, 1.5, -2.25, 1024.0]))], G.FLOAT)
    if kind == "str":
        return E(G.E_LIT, [G.L_STR, rng.choice(["", "a", "ab c", "{", "\"", "日"])], G.STR)
    if kind == "bool":
        return E(G.E_LIT, [G.L_BOOL, rng.randint(0, 1)], G.BOOL)
    if kind == "none":
        return E(G.E_LIT, [G.L_NONE, 0], G.NONE)
    if kind == "list":
        n = rng.randint(0, 3)
        ks = [rng.choice(["nat", "neg", "float", "str", "bool", "none"]) for _ in range(n)] if rng.random() < 0.5 else \
            [rng.choice(["nat", "str"])] * n
        return E(G.E_LIST, [[_lit(rng, k) for k in ks]], None, w=0)
    raise ValueError(kind)


KINDS = ["nat", "neg", "float", "str", "bool", "none", "list"]


def all_ids(prog):
    ids = set()

    def f(e):
        if e.tag == G.E_VAR:
            ids.add(e.args[0])
        if e.tag == G.E_CALL:
            ids.add(e.args[0])
    G.walk_exprs(prog, f)
    for s in all_stmts(prog):
        t, a = s.tag, s.args
        if t in (G.S_DEF, G.S_MUTDEF, G.S_FOR, G.S_FUN, G.S_LAM, G.S_INC, G.S_UPDATE, G.S_PCALL):
            ids.add(a[0])
        if t == G.S_PAT:
            ids.update(a[1])
        if t == G.S_NPAT:
            ids.update(G.pat_ids(a[0]))
        if t == G.S_FUN:
            ids.update(p[0] for p in a[2])
        if t == G.S_LAM:
            ids.update(p[0] for p in a[1])
    return sorted(ids)


def expr_slots(prog):
    """(container, index) of every expression, default values of parameters included"""
    return G._expr_slots(prog)


def m_replace_by_other_type(rng, prog):
    """swap operand types: some sub-expression becomes a literal of another type"""
    slots = expr_slots(prog)
    if not slots:
        return False
    c, i = rng.choice(slots)
    c[i] = _lit(rng, rng.choice(KINDS))
    return True


def m_swap_operands_across(rng, prog):
    """two random sub-expressions change places (operand types no longer fit, variables may leave their scope)"""
    slots = [s for s in expr_slots(prog)]
    if len(slots) < 2:
        return False
    (c1, i1), (c2, i2) = rng.sample(slots, 2)
    a, b = c1[i1], c2[i2]
    # no sharing / no cycles: clone both
    c1[i1], c2[i2] = G.clone(b), G.clone(a)
    return True


def m_operator(rng, prog):
    """another operator of the same syntactic class; arithmetic <-> comparison <-> logic node kinds"""
    nodes = []
    G.walk_exprs(prog, lambda e: nodes.append(e) if e.tag in (G.E_BIN, G.E_CMP, G.E_LOGIC, G.E_UN) else None)
    if not nodes:
        return False
    e = rng.choice(nodes)
    if e.tag == G.E_UN:
        e.args[0] = rng.choice([G.UN_NEG, G.UN_POS, G.UN_NOT, G.UN_INV])
        return True
    k = rng.random()
    if k < 0.4:
        e.tag, e.args[0] = G.E_BIN, rng.randint(0, 6)
    elif k < 0.8:
        e.tag, e.args[0] = G.E_CMP, rng.randint(0, 5)
    else:
        e.tag, e.args[0] = G.E_LOGIC, rng.randint(0, 1)
    return True


def m_variable(rng, prog):
    """a variable occurrence names another identifier of the program (any kind, any scope) or an undefined one"""
    nodes = []
    G.walk_exprs(prog, lambda e: nodes.append(e) if e.tag == G.E_VAR else None)
    if not nodes:
        return False
    ids = all_ids(prog)
    e = rng.choice(nodes)
    e.args[0] = rng.choice(ids) if rng.random() < 0.8 else max(ids) + 1 + rng.randint(0, 3)
    return True


def m_arity(rng, prog):
    """wrong arity: drop / add / duplicate an argument of a call, unknown or repeated keyword"""
    calls = []
    G.walk_exprs(prog, lambda e: calls.append(e) if e.tag == G.E_CALL else None)
    pcalls = [s for s in all_stmts(prog) if s.tag == G.S_PCALL]
    prints = [s for s in all_stmts(prog) if s.tag == G.S_PRINT]
    pool = [("c", c) for c in calls] + [("p", s) for s in pcalls]
    if not pool:
        return False
    kind, x = rng.choice(pool)
    args = x.args[1]
    k = rng.random()
    if k < 0.35 and args:
        del args[rng.randrange(len(args))]
    elif k < 0.7:
        args.insert(rng.randint(0, len(args)), _lit(rng, rng.choice(KINDS)))
    elif kind == "c" and x.args[2] and k < 0.85:
        x.args[2].append([x.args[2][0][0], _lit(rng, "nat")])          # repeated keyword
    elif kind == "c":
        x.args[2].append([rng.choice(all_ids(prog)), _lit(rng, "nat")])  # keyword that is not a parameter
    else:
        args.append(_lit(rng, "str"))
    return True


def m_callee(rng, prog):
    """call something that is not a function / use a function as a value"""
    calls, vars_ = [], []
    G.walk_exprs(prog, lambda e: calls.append(e) if e.tag == G.E_CALL else (vars_.append(e) if e.tag == G.E_VAR else None))
    ids = all_ids(prog)
    if calls and rng.random() < 0.5:
        rng.choice(calls).args[0] = rng.choice(ids)
        return True
    if vars_:
        e = rng.choice(vars_)
        # v  ->  v(args)
        e.tag, e.args = G.E_CALL, [e.args[0], [_lit(rng, rng.choice(KINDS)) for _ in range(rng.randint(0, 2))], []]
        return True
    return False


def m_annotation(rng, prog):
    """another annotation: variable, parameter, return type"""
    tys = [G.NAT, G.INT, G.FLOAT, G.STR, G.BOOL, G.NONE, G.TList(G.NAT), G.TList(G.STR)]
    cands = [s for s in all_stmts(prog) if s.tag in (G.S_DEF, G.S_FUN, G.S_LAM)]
    if not cands:
        return False
    s = rng.choice(cands)
    if s.tag == G.S_DEF:
        s.args[1] = G.ty_code(rng.choice(tys))
    elif s.tag == G.S_FUN:
        if s.args[2] and rng.random() < 0.6:
            rng.choice(s.args[2])[1] = rng.choice(tys)
        else:
            s.args[3] = rng.choice(tys)
    else:
        if not s.args[1]:
            return False
        rng.choice(s.args[1])[1] = rng.choice(tys)
    return True


def m_statement(rng, prog):
    """delete / duplicate / move a statement (use before definition, reassignment, unused results)"""
    lists = [l for l in G._stmt_lists(prog) if l]
    l = rng.choice(lists)
    k = rng.random()
    i = rng.randrange(len(l))
    if k < 0.35 and len(l) > 1:
        del l[i]
    elif k < 0.7:
        l.insert(rng.randint(0, len(l)), G.clone(l[i]))
    else:
        s = l.pop(i)
        l.insert(rng.randint(0, len(l)), s)
    fix_block_ends(prog)
    return True


def m_pattern(rng, prog):
    """pattern definition whose arity does not fit its right-hand side"""
    pats = [s for s in all_stmts(prog) if s.tag == G.S_PAT]
    if not pats:
        # make one:  (a, b) = (1, "x", 2)
        ids = all_ids(prog)
        base = (max(ids) if ids else 0) + 1
        n = rng.randint(2, 3)
        m = n + rng.choice([-1, 1])
        if rng.random() < 0.5:
            rhs = E(G.E_TUPLE, [[_lit(rng, rng.choice(KINDS[:5])) for _ in range(m)]], None, w=0)
            prog.insert(rng.randint(0, len(prog) - 1) if len(prog) > 1 else 0, S(G.S_PAT, [0, [base + k for k in range(n)], rhs]))
        else:
            rhs = E(G.E_LIST, [[_lit(rng, "nat") for _ in range(m)]], None, w=0)
            prog.insert(rng.randint(0, len(prog) - 1) if len(prog) > 1 else 0, S(G.S_PAT, [1, [base + k for k in range(n)], rhs]))
        return True
    s = rng.choice(pats)
    if len(s.args[1]) > 1 and rng.random() < 0.5:
        s.args[1].pop()
    else:
        s.args[1].append(max(all_ids(prog)) + 1)
    return True


def m_structure(rng, prog):
    """an expression becomes an index / len / abs / if-expression / list around it"""
    slots = expr_slots(prog)
    if not slots:
        return False
    c, i = rng.choice(slots)
    e = c[i]
    if e.tag in (G.E_RANGE, G.E_TUPLE):
        return False
    k = rng.randint(0, 5)
    if k == 0:
        c[i] = E(G.E_INDEX, [e, _lit(rng, rng.choice(["nat", "neg", "str"]))], None, w=0)
    elif k == 1:
        c[i] = E(G.E_LEN, [e], None, w=0)
    elif k == 2:
        c[i] = E(G.E_ABS, [e], None, w=0)
    elif k == 3:
        c[i] = E(G.E_IF, [_lit(rng, rng.choice(["bool", "nat"])), e, _lit(rng, rng.choice(KINDS))], None, w=0)
    elif k == 4:
        c[i] = E(G.E_LIST, [[e, _lit(rng, rng.choice(KINDS))]], None, w=0)
    else:
        c[i] = E(G.E_UN, [rng.choice([G.UN_NOT, G.UN_NEG, G.UN_INV]), e], None, w=0)
    return True


def m_binder(rng, prog):
    """a binder (parameter, loop variable, defined name) is renamed to another identifier of the program: shadowing of
    an outer variable by a lambda / function parameter, redefinition, a parameter list with a repeated name"""
    ids = all_ids(prog)
    if len(ids) < 2:
        return False
    cands = []
    for s in all_stmts(prog):
        if s.tag in (G.S_FUN, G.S_LAM):
            for p in (s.args[2] if s.tag == G.S_FUN else s.args[1]):
                cands.append((p, 0))
        if s.tag in (G.S_DEF, G.S_FOR, G.S_LAM, G.S_FUN, G.S_MUTDEF):
            cands.append((s.args, 0))
        if s.tag == G.S_UPDATE:
            cands.append((s.args, 1))
    if not cands:
        return False
    c, i = rng.choice(cands)
    others = [x for x in ids if x != c[i]]
    c[i] = rng.choice(others)
    return True


MUTATORS = [("operand-type", m_replace_by_other_type, 5), ("operand-swap", m_swap_operands_across, 3), ("operator", m_operator, 4),
            ("variable", m_variable, 4), ("arity", m_arity, 4), ("callee", m_callee, 3), ("annotation", m_annotation, 3),
            ("statement", m_statement, 3), ("pattern", m_pattern, 1), ("structure", m_structure, 3), ("binder", m_binder, 3)]


def starts_paren(e):
    """twin of NoCrash.Gen.starts_paren: the printed text begins with an opening parenthesis"""
    t, a = e.tag, e.args
    if t in (G.E_BIN, G.E_CMP, G.E_LOGIC):
        return starts_paren(a[1]) if atomic(a[1]) else True
    if t in (G.E_RANGE, G.E_INDEX):
        return starts_paren(a[0]) if atomic(a[0]) else True
    return t == G.E_TUPLE


def fix_block_ends(prog):
    """keep the program syntactically valid after statement mutations: a nested block never ends with a definition,
    an S_EXPR (value of a function body) only stands last in a function body; empty blocks get a print!"""
    def fix(ss, in_fun, top):
        k = 0
        while k < len(ss):
            s = ss[k]
            if s.tag == G.S_EXPR and not (in_fun and k == len(ss) - 1):
                ss[k] = S(G.S_PRINT, [[s.args[0]]]) if not in_fun else S(G.S_ASSERT, [s.args[0]])
            k += 1
        if not top and (not ss or ss[-1].tag in (G.S_DEF, G.S_MUTDEF, G.S_FUN, G.S_LAM, G.S_PAT, G.S_NPAT)):
            ss.append(S(G.S_EXPR, [E(G.E_LIT, [G.L_NAT, 0], G.NAT)]) if in_fun else S(G.S_PRINT, [[E(G.E_LIT, [G.L_NAT, 0], G.NAT)]]))
        for s in ss:
            # statement-level condition / iterable whose text would begin with `(` (`if! (a) and b:` is a call of if!)
            if s.tag in (G.S_IF, G.S_WHILE) and starts_paren(s.args[0]):
                s.args[0] = E(G.E_LOGIC, [0, E(G.E_LIT, [G.L_BOOL, 1], G.BOOL, w=0), s.args[0]], None, w=0)
            if s.tag == G.S_FOR and starts_paren(s.args[1]):
                s.args[1] = E(G.E_LIST, [[s.args[1]]], None, w=0)
            if s.tag == G.S_IF:
                fix(s.args[1], False, False)
                if s.args[2]:
                    fix(s.args[3], False, False)
            elif s.tag == G.S_FOR:
                fix(s.args[2], False, False)
            elif s.tag == G.S_WHILE:
                fix(s.args[1], False, False)
            elif s.tag == G.S_FUN:
                fix(s.args[4], not s.args[1], False)
    fix(prog, False, True)


def clear_static(prog):
    """after a mutation the generator's static information is stale: the wrap codes are set to 0 (they are only
    consumed by CoreErg/Codegen.v, which C07 does not use)"""
    def f(e):
        e.w = 0
    G.walk_exprs(prog, f)
    for s in all_stmts(prog):
        if s.tag == G.S_FUN:
            for p in s.args[2]:
                if p[2] is not None:
                    walk_expr(p[2], f)
    return prog


def mutate(rng, prog, n=None):
    """1..3 ill-typing mutations; returns (new tree, names of the mutators applied)"""
    prog = G.clone(prog)
    n = n or rng.choice([1, 1, 2, 3])
    applied = []
    tries = 0
    while len(applied) < n and tries < 20:
        tries += 1
        name, f, _ = rng.choices(MUTATORS, weights=[w for _, _, w in MUTATORS])[0]
        if f(rng, prog):
            applied.append(name)
    fix_block_ends(prog)
    return prog, applied


# ------------------------------------------------------------------------------------------------ handwritten seeds (tree form)
def seed_programs():
    """small trees that exercise inference on untyped parameters (the known finding and its neighbours)"""
    nat = lambda n: E(G.E_LIT, [G.L_NAT, n], G.NAT)
    var = lambda i: E(G.E_VAR, [i], None, w=0)
    bin_ = lambda op, a, b: E(G.E_BIN, [op, a, b], None, w=0)
    out = []
    # f(a, b) = a * b + 1
    out.append(("untyped-mul-add", [S(G.S_FUN, [1, 0, [[2, G.INT, None], [3, G.INT, None]], G.INT,
                                                  [S(G.S_EXPR, [bin_(0, bin_(2, var(2), var(3)), nat(1))])]]),
                                    S(G.S_PRINT, [[E(G.E_CALL, [1, [nat(2), nat(3)], []], None, w=0)]])], [1, 2, 3]))
    # g = (a, b) -> a * b + 1
    out.append(("untyped-lambda", [S(G.S_LAM, [1, [[2, G.INT], [3, G.INT]], bin_(0, bin_(2, var(2), var(3)), nat(1))]),
                                   S(G.S_PRINT, [[nat(0)]])], [2, 3]))
    # v3 = q + 2 ; f x = x + v3 ; v7 = v3 + 0      (q undefined)
    out.append(("undefined-then-untyped", [S(G.S_DEF, [3, 0, bin_(0, var(99), nat(2))]),
                                           S(G.S_FUN, [6, 0, [[5, G.INT, None]], G.INT, [S(G.S_EXPR, [bin_(0, var(5), var(3))])]]),
                                           S(G.S_DEF, [7, 0, bin_(0, var(3), nat(0))])], [5, 6]))
    return out


# ------------------------------------------------------------------------------------------------ (c) corpus text mutations
KEYWORDS = {"if", "if!", "for!", "while!", "do", "do!", "and", "or", "not", "in", "notin", "is!", "isnot!", "match", "match!",
            "Class", "Trait", "Inherit", "import", "pyimport", "print!", "assert", "return", "then", "else", "True", "False",
            "None", "self", "Self", "as", "ref", "ref!", "with!", "try!", "contains", "dot", "del", "lambda"}
TOKEN = re.compile(r'"(?:[^"\\\n]|\\.)*"|\'(?:[^\'\\\n]|\\.)*\'|\d+\.\d+|\d+|[A-Za-z_][A-Za-z0-9_]*[!?]?|\S')
OPS = ["+", "-", "*", "/", "//", "%", "**", "<", "<=", ">", ">=", "==", "!=", "and", "or", "in", "notin"]


def corpus_files(repo):
    out = []
    for d in ("examples", "tests/should_ok", "tests/should_err"):
        p = os.path.join(repo, d)
        if not os.path.isdir(p):
            continue
        for f in sorted(os.listdir(p)):
            if f.endswith(".er"):
                try:
                    txt = open(os.path.join(p, f), encoding="utf-8").read()
                except (OSError, UnicodeDecodeError):
                    continue
                if len(txt) < 6000 and '"""' not in txt and "#[" not in txt:
                    out.append((d + "/" + f, txt))
    return out


def chunks_of(text):
    """top-level chunks: a line at indentation 0 with the more-indented (or blank) lines that follow it"""
    out = []
    for line in text.split("\n"):
        if line.strip() == "" and out:
            out[-1].append(line)
        elif line[:1] in (" ", "\t") and out:
            out[-1].append(line)
        else:
            out.append([line])
    return out


def join_chunks(chs):
    return "\n".join("\n".join(c) for c in chs).rstrip("\n") + "\n"


def tokens_of_line(line):
    """(start, end, text) of the tokens of a line up to a comment"""
    out = []
    for m in TOKEN.finditer(line):
        if m.group(0) == "#":
            break
        out.append((m.start(), m.end(), m.group(0)))
    return out


def mutate_text(rng, text):
    """one text mutation; returns (new text, name) or (None, name)"""
    chs = chunks_of(text)
    k = rng.random()
    if k < 0.15 and len(chs) > 1:
        del chs[rng.randrange(len(chs))]
        return join_chunks(chs), "chunk-delete"
    if k < 0.27:
        i = rng.randrange(len(chs))
        chs.insert(rng.randint(0, len(chs)), list(chs[i]))
        return join_chunks(chs), "chunk-duplicate"
    if k < 0.40 and len(chs) > 1:
        i = rng.randrange(len(chs))
        c = chs.pop(i)
        chs.insert(rng.randint(0, len(chs)), c)
        return join_chunks(chs), "chunk-reorder"
    if k < 0.47:
        # delete an inner line (keeps indentation structure of the rest)
        lines = text.split("\n")
        inner = [i for i, l in enumerate(lines) if l[:1] == " " and l.strip()]
        if inner:
            del lines[rng.choice(inner)]
            return "\n".join(lines), "line-delete"
    lines = text.split("\n")
    cand = [i for i, l in enumerate(lines) if l.strip() and not l.strip().startswith("#")]
    if not cand:
        return None, "none"
    if k < 0.70:
        # identifier swap: one identifier occurrence becomes another identifier of the file
        idents = sorted(set(t for l in lines for _, _, t in tokens_of_line(l)
                            if re.match(r"^[A-Za-z_]", t) and t not in KEYWORDS))
        for _ in range(10):
            i = rng.choice(cand)
            toks = [t for t in tokens_of_line(lines[i]) if re.match(r"^[A-Za-z_]", t[2]) and t[2] not in KEYWORDS]
            if toks and len(idents) > 1:
                a, b, t = rng.choice(toks)
                new = rng.choice([x for x in idents if x != t])
                lines[i] = lines[i][:a] + new + lines[i][b:]
                return "\n".join(lines), "identifier-swap"
        return None, "identifier-swap"
    if k < 0.88:
        # literal swap
        for _ in range(10):
            i = rng.choice(cand)
            toks = [t for t in tokens_of_line(lines[i]) if re.match(r'^(\d|"|\')', t[2]) or t[2] in ("True", "False", "None")]
            if toks:
                a, b, t = rng.choice(toks)
                new = rng.choice(["0", "1", "-1", "1.5", '"a"', "True", "None", "[1, 2]", "2**64", "18446744073709551615", '""',
                                  "{1, 2}", "{\"a\": 1}", "(1, \"a\")", "1..3", "!1"])
                lines[i] = lines[i][:a] + new + lines[i][b:]
                return "\n".join(lines), "literal-swap"
        return None, "literal-swap"
    # operator swap
    for _ in range(10):
        i = rng.choice(cand)
        toks = [t for t in tokens_of_line(lines[i]) if t[2] in OPS]
        # two-character operators are matched as two \S tokens: rebuild by scanning the text
        ms = list(re.finditer(r"(?<=\s)(\*\*|//|<=|>=|==|!=|\+|-|\*|/|%|<|>|and|or)(?=\s)", lines[i]))
        if ms:
            m = rng.choice(ms)
            new = rng.choice([o for o in OPS if o != m.group(0)])
            lines[i] = lines[i][:m.start()] + new + lines[i][m.end():]
            return "\n".join(lines), "operator-swap"
    return None, "operator-swap"


def shrink_text(text, fails, budget=40):
    """delete top-level chunks, then inner lines, while fails(text) stays true"""
    tests = [0]

    def attempt(t):
        if tests[0] >= budget:
            return False
        tests[0] += 1
        return fails(t)
    chs = chunks_of(text)
    i = 0
    while i < len(chs) and len(chs) > 1:
        cand = chs[:i] + chs[i + 1:]
        if attempt(join_chunks(cand)):
            chs = cand
        else:
            i += 1
    text = join_chunks(chs)
    lines = text.split("\n")
    i = 0
    while i < len(lines):
        if not lines[i].strip():
            i += 1
            continue
        # a line together with the more-indented lines below it
        ind = len(lines[i]) - len(lines[i].lstrip())
        j = i + 1
        while j < len(lines) and (not lines[j].strip() or len(lines[j]) - len(lines[j].lstrip()) > ind):
            j += 1
        cand = lines[:i] + lines[j:]
        if any(l.strip() for l in cand) and attempt("\n".join(cand)):
            lines = cand
        else:
            i += 1
    return "\n".join(lines)
