"""C13: decode .pyc files with the interpreter they were compiled for.  Runs under python 3.7 .. 3.11 (no f-strings needed,
nothing newer than 3.7 syntax).

    pythonX.Y c13_dump.py tables               -> one JSON object: this interpreter's opcode facts
    pythonX.Y c13_dump.py dump f1.pyc f2.pyc   -> one JSON object per file:
        {"file", "magic": [b0, b1], "units": [[opcode, arg], ...] (co_code two bytes at a time, cache entries included),
         "consts": [typed constant, ...], "names": [...], "error": ...}
    typed constants: ["int", n] ["float", bits] ["str", s] ["bool", 0/1] ["none"] ["tuple", [...]] ["code", name] ["other", repr]
"""
import dis
import json
import marshal
import struct
import sys


def tables():
    return {"version": list(sys.version_info[:2]), "opmap": dis.opmap, "hasjrel": sorted(dis.hasjrel),
            "hasjabs": sorted(dis.hasjabs), "have_argument": dis.HAVE_ARGUMENT,
            "cache_entries": dict((str(dis.opmap[k]), v) for k, v in getattr(dis, "_inline_cache_entries", {}).items()
                                  if k in dis.opmap) if isinstance(getattr(dis, "_inline_cache_entries", None), dict) else {}}


def typed_const(c):
    if c is None:
        return ["none"]
    if isinstance(c, bool):
        return ["bool", int(c)]
    if isinstance(c, int):
        return ["int", c]
    if isinstance(c, float):
        return ["float", struct.unpack("<Q", struct.pack("<d", c))[0]]
    if isinstance(c, str):
        return ["str", c]
    if isinstance(c, tuple):
        return ["tuple", [typed_const(x) for x in c]]
    if hasattr(c, "co_code"):
        return ["code", c.co_name]
    return ["other", repr(c)]


def dump_file(path):
    try:
        with open(path, "rb") as f:
            data = f.read()
        co = marshal.loads(data[16:])
        code = co.co_code
        return {"file": path, "magic": [data[0], data[1]],
                "units": [[code[i], code[i + 1]] for i in range(0, len(code), 2)],
                "consts": [typed_const(c) for c in co.co_consts], "names": list(co.co_names)}
    except Exception as e:   # unreadable file: reported, decided by the caller
        return {"file": path, "error": "%s: %s" % (type(e).__name__, e)}


if __name__ == "__main__":
    if sys.argv[1] == "tables":
        sys.stdout.write(json.dumps(tables()) + "\n")
    else:
        for p in sys.argv[2:]:
            sys.stdout.write(json.dumps(dump_file(p)) + "\n")
