"""C14 helpers: compile with erg for a target version, dump code objects with the MATCHING interpreter,
build validator cases, and an independent reference (python) for the correspondence check of the model."""
import json
import os
import subprocess
from concurrent.futures import ThreadPoolExecutor

from lib.vplib import PY_VERSIONS, FrameworkError
from pylib import c14_tables as T


def compile_jobs(erg, env, jobs, workers=14, timeout=120):
    """jobs: list of dict(src=abs path, ver='3.9', magic=int, outdir=abs dir, cwd=dir).  Adds 'pyc' or 'error'."""
    e = dict(os.environ)
    e.update(env)

    def one(j):
        os.makedirs(j["outdir"], exist_ok=True)
        cmd = [erg, "compile", "--py-magic-num", str(j["magic"]), "--output-dir", j["outdir"], j["src"]]
        try:
            p = subprocess.run(cmd, cwd=j["cwd"], env=e, stdout=subprocess.PIPE, stderr=subprocess.PIPE, timeout=j.get("timeout", timeout),
                               text=True, errors="replace", stdin=subprocess.DEVNULL)
        except subprocess.TimeoutExpired:
            j["error"] = "timeout"
            return j
        pyc = os.path.join(j["outdir"], os.path.splitext(os.path.basename(j["src"]))[0] + ".pyc")
        if p.returncode == 0 and os.path.exists(pyc):
            j["pyc"] = pyc
        else:
            txt = (p.stderr + p.stdout)
            j["error"] = "rc=%d %s" % (p.returncode, txt[-600:])
            j["crash"] = ("panicked" in txt) or p.returncode < 0 or p.returncode == 101
        return j
    with ThreadPoolExecutor(workers) as ex:
        return list(ex.map(one, jobs))


def dump_objects(ver, pairs, workdir):
    """pairs: [(pyc, src)] -> list of records (one per code object) from the interpreter of version ver"""
    if not pairs:
        return []
    lf = os.path.join(workdir, "dump-%s.list" % ver)
    with open(lf, "w") as f:
        for pyc, src in pairs:
            f.write("%s\t%s\n" % (pyc, src))
    p = subprocess.run([PY_VERSIONS[ver], T.PROBE, "dump", lf], stdout=subprocess.PIPE, stderr=subprocess.PIPE, text=True)
    if p.returncode != 0:
        raise FrameworkError("dump under %s failed: %s" % (ver, p.stderr[-1500:]))
    return [json.loads(l) for l in p.stdout.splitlines() if l.strip()]


def count_lines(path, cache={}):
    if path not in cache:
        try:
            cache[path] = len(open(path, "rb").read().decode("utf-8", "replace").splitlines())
        except OSError:
            cache[path] = 0
    return cache[path]


def make_case(ver, probe, rec, nlines, mode=0):
    effs = T.split_effects(ver, probe, rec["effects"])
    imprecise = T.imprecise_ops(ver, probe)
    code = rec["code"]
    chk = 1
    if imprecise and any(code[k] in imprecise for k in range(0, len(code), 2)):
        chk = 0
    linked = 1 if any(n.startswith("%v_codegen_") for n in [rec["name"]] + list(rec.get("ancestors", []))) else 0
    return [mode, T.VID[ver], code, rec["stacksize"], rec["nconsts"], rec["nnames"], rec["nlocals"], rec["nfreeidx"],
            rec["firstlineno"], rec["linetable"], nlines, rec["exclen"], chk, effs, linked, entry_depth(ver, rec)]


def entry_depth(ver, rec):
    """operand-stack depth at offset 0.  3.10 only: generator / coroutine / async generator frames are entered with the
    sent value pushed (genobject.c gen_send_ex), which GEN_START pops (compile.c stackdepth(): b_startdepth = 1)"""
    CO_GENERATOR, CO_COROUTINE, CO_ASYNC_GENERATOR = 0x20, 0x80, 0x200
    # 3.11: the frame is resumed after RETURN_GENERATOR with the sent value pushed, which the following POP_TOP pops;
    # dis.stack_effect(RETURN_GENERATOR) is 0 in 3.11 (1 since 3.12), so the push is accounted for at the entry as well
    if ver in ("3.10", "3.11") and rec.get("flags", 0) & (CO_GENERATOR | CO_COROUTINE | CO_ASYNC_GENERATOR):
        return 1
    return 0


# ------------------------------------------------------------------ reference (independent of the Coq model)
def reference(ver, probe, rec):
    """depth analysis over dis.get_instructions' own listing with dis.stack_effect:
    exact sets of reachable depths per instruction (not intervals).  Returns dict(status, maxdepth, where)."""
    ins = rec["ref_instrs"]
    if ins is None:
        return {"status": "dis-failed"}
    ext = probe["extended_arg"]
    effs = {(e[0], e[1]): (e[2], e[3]) for e in T.split_effects(ver, probe, rec["effects"])}
    rows = {r[0]: r for r in T.op_rows(ver, probe)}
    S = rec["stacksize"]
    # logical instructions: skip EXTENDED_ARG prefixes, remember where the chain started
    nodes = []
    start = None
    for off, op, arg, tgt in ins:
        if start is None:
            start = off
        if op == ext:
            continue
        nodes.append([start, off, op, arg, tgt])
        start = None
    if start is not None:
        return {"status": "dangling-extended-arg"}
    starts = {n[0]: k for k, n in enumerate(nodes)}
    if not nodes:
        return {"status": "empty"}
    seen = [set() for _ in nodes]
    work = [(0, entry_depth(ver, rec))]
    maxd = entry_depth(ver, rec)
    while work:
        k, d = work.pop()
        if d in seen[k]:
            continue
        seen[k].add(d)
        st, off, op, arg, tgt = nodes[k]
        row = rows.get(op)
        if row is None:
            return {"status": "unknown-opcode", "where": off}
        _, jmp, flow, _, _, name = row
        a = arg if arg >= 0 else 0
        # dis gives arg=None below HAVE_ARGUMENT; the interpreter (and the dump) use the raw byte
        e = effs.get((op, a))
        if e is None:
            cands = [v for (o, _), v in effs.items() if o == op] if arg < 0 else []
            if len(cands) >= 1 and all(c == cands[0] for c in cands):
                e = cands[0]
            else:
                return {"status": "no-effect", "where": off}
        if flow == 3:
            return {"status": "unsupported", "where": off}
        succ = []
        if flow == 0:
            succ.append((k + 1 if k + 1 < len(nodes) else None, e[0], "fall"))
        elif flow == 2:
            succ.append(("exit", e[0], "exit"))
        if jmp:
            succ.append((starts.get(tgt), e[1], "jump"))
        for s, eff, kind in succ:
            nd = d + eff
            if nd < 0 or nd > S:
                return {"status": "depth", "where": st, "depth": nd}
            maxd = max(maxd, nd)
            if s == "exit":
                continue
            if s is None:
                # successor is not an instruction start: jump clause, not depth; stop following this edge
                continue
            work.append((s, nd))
    return {"status": "ok", "maxdepth": maxd}


def ref_jumps_ok(ver, probe, rec):
    """jump/fall-through targets on instruction starts, from dis' listing"""
    ins = rec["ref_instrs"]
    if ins is None:
        return None
    ext = probe["extended_arg"]
    rows = {r[0]: r for r in T.op_rows(ver, probe)}
    starts = set()
    start = None
    logical = []
    for off, op, arg, tgt in ins:
        if start is None:
            start = off
        if op == ext:
            continue
        starts.add(start)
        logical.append((start, off, op, tgt))
        start = None
    n = len(rec["code"])
    for k, (st, off, op, tgt) in enumerate(logical):
        row = rows.get(op)
        if row is None:
            return False
        if row[1] and not (tgt in starts and 0 <= tgt < n):
            return False
        if row[2] == 0 and k + 1 >= len(logical):
            return False
    return True


def compare(ver, probe, rec, out):
    """model output (mode 0) vs the interpreter's own view.  Returns list of disagreement strings."""
    bad = []
    if out[0] != 1:
        if rec["ref_instrs"] is not None and len(rec["code"]) % 2 == 0:
            r = reference(ver, probe, rec)
            if r["status"] not in ("dangling-extended-arg", "unknown-opcode"):
                bad.append("model cannot decode, dis can")
        return bad
    instrs = out[10]
    ext = probe["extended_arg"]
    if rec["ref_instrs"] is not None:
        ref = [r for r in rec["ref_instrs"] if r[1] != ext]
        mine = [[i[1], i[2], i[3], i[5]] for i in instrs]
        if len(ref) != len(mine):
            bad.append("instruction count: model %d, dis %d" % (len(mine), len(ref)))
        else:
            for m, r in zip(mine, ref):
                if m[0] != r[0] or m[1] != r[1] or (r[2] >= 0 and m[2] != r[2]) or m[3] != r[3]:
                    bad.append("instruction differs: model (opoff, op, arg, target)=%s, dis %s" % (m, r))
                    break
    if rec["ref_lines"] is not None:
        mine = {i[1]: (i[7] if i[6] == 0 else -1 if i[6] == 1 else "bad") for i in instrs}
        for off, line in rec["ref_lines"]:
            if mine.get(off) != line:
                bad.append("line of offset %d: model %s, PyCode_Addr2Line %s" % (off, mine.get(off), line))
                break
    dst = out[3][0]
    if dst != 3:
        r = reference(ver, probe, rec)
        if r["status"] == "ok":
            if dst != 0:
                bad.append("depth: model status %s, reference ok (max %d)" % (out[3], r["maxdepth"]))
            elif out[3][3] != r["maxdepth"]:
                bad.append("max depth: model %d, reference %d" % (out[3][3], r["maxdepth"]))
        elif r["status"] in ("depth", "no-effect", "unsupported"):
            if dst == 0:
                bad.append("depth: model ok, reference %s" % r)
        elif r["status"] != "dis-failed":
            bad.append("reference could not decode: %s" % r)
    rj = ref_jumps_ok(ver, probe, rec)
    if rj is not None and bool(out[4][0]) != rj:
        bad.append("jump clause: model %s, reference %s" % (out[4], rj))
    return bad


def clauses(out):
    """violated clauses of a mode-0 model answer, as (name, detail)"""
    if out[0] != 1:
        return [("decode", "bytecode is not a sequence of known instructions")]
    v = []
    if not out[1]:
        v.append(("decode", "empty code"))
    if not out[2]:
        v.append(("exception-table", "non-empty co_exceptiontable (not modelled)"))
    d = out[3]
    if d[0] == 1:
        v.append(("stacksize", "a path reaches depth %d at/after offset %d" % (d[2], d[1]) if d[2] != -1000000
                  else "no stack effect for the instruction at offset %d" % d[1]))
    elif d[0] == 2:
        v.append(("fuel", "depth iteration ran out of fuel"))
    elif d[0] == 4:
        v.append(("stacksize", "annotation not inductive"))
    if not out[4][0]:
        v.append(("jump", "instruction at offset %s has successor(s) %s, not all instruction starts inside the code" % tuple(out[4][1][:2]) if out[4][1] else "negative offset"))
    if not out[5][0]:
        v.append(("index", "instruction at offset %d: opcode %d arg %d out of range" % tuple(out[5][1])))
    if not out[6][0]:
        b = out[6][1]
        kind = {0: "line %d outside 1..lines(src)" % b[2], 1: "no line", 2: "malformed table"}[b[1]]
        v.append(("line", "instruction at offset %d: %s" % (b[0], kind)))
    return v
