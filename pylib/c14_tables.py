"""C14 translator: the target interpreters' own opcode tables -> coq/gen/PyOps.v  (regenerated on every run).

Source read at run time: `dis.opmap`, `dis.hasjrel/hasjabs/hasconst/hasname/haslocal/hasfree/hascompare`,
`dis.cmp_op`, `dis._inline_cache_entries` (3.11), `dis.stack_effect` of every installed interpreter 3.7 .. 3.11
(pylib/c14_probe.py is executed by each of them).

What is NOT in `dis` and therefore written down here (from CPython's Python/compile.c `stackdepth()` of the
respective version; these lists are the only hand-written interpreter knowledge of the tie):
  * which opcodes never fall through (unconditional jumps, RETURN_VALUE, RAISE_VARARGS, RERAISE);
  * which opcodes transfer control implicitly (BREAK_LOOP, CALL_FINALLY): `unsupported`, never emitted by erg;
  * 3.11: relative jumps whose name contains BACKWARD jump backwards (dis._is_backward_jump), LOAD_GLOBAL's
    name index is arg >> 1;
  * 3.7: `dis.stack_effect` has no `jump=` parameter and returns max(jump, fall-through); the split for the jump
    opcodes is the one of 3.7's compile.c `stack_effect(opcode, oparg, jump)`, cross-checked here against the 3.8
    interpreter for every opcode both versions have, and against 3.7's own maximum.
"""
import json
import os
import subprocess

from lib.vplib import PY_VERSIONS, TieBroken, FrameworkError

VERSIONS = ["3.7", "3.8", "3.9", "3.10", "3.11"]
VID = {"3.7": 37, "3.8": 38, "3.9": 39, "3.10": 310, "3.11": 311}
# magic numbers of the installed interpreters are read from the interpreters; erg is told the version through them
PROBE = os.path.join(os.path.dirname(os.path.abspath(__file__)), "c14_probe.py")

UNCOND = {"JUMP_FORWARD", "JUMP_ABSOLUTE", "JUMP_BACKWARD", "JUMP_BACKWARD_NO_INTERRUPT", "CONTINUE_LOOP"}
TERMINAL = {"RETURN_VALUE", "RAISE_VARARGS", "RERAISE"}
UNSUPPORTED = {"BREAK_LOOP", "CALL_FINALLY"}
# 3.7 compile.c stack_effect(opcode, oparg, jump): (fall-through, jump)
SPLIT37 = {
    "FOR_ITER": (1, -1), "JUMP_IF_TRUE_OR_POP": (-1, 0), "JUMP_IF_FALSE_OR_POP": (-1, 0),
    "SETUP_WITH": (1, 6), "SETUP_ASYNC_WITH": (0, 5), "SETUP_EXCEPT": (0, 6), "SETUP_FINALLY": (0, 6),
    "SETUP_LOOP": (0, 0), "POP_JUMP_IF_FALSE": (-1, -1), "POP_JUMP_IF_TRUE": (-1, -1),
    "JUMP_FORWARD": (0, 0), "JUMP_ABSOLUTE": (0, 0), "CONTINUE_LOOP": (0, 0),
}
# 3.7: opcodes whose single dis.stack_effect number is valid on the exception path only (compile.c: "Pop 6 values
# when an exception was raised", "or 1, depending on TOS", "variable number"): no per-path oracle exists in 3.7
IMPRECISE37 = {"END_FINALLY", "WITH_CLEANUP_START", "WITH_CLEANUP_FINISH", "POP_EXCEPT"}


def probe_all():
    out = {}
    for v in VERSIONS:
        p = subprocess.run([PY_VERSIONS[v], PROBE, "probe"], stdout=subprocess.PIPE, stderr=subprocess.PIPE, text=True)
        if p.returncode != 0:
            raise FrameworkError("interpreter %s cannot be probed: %s" % (v, p.stderr[-500:]))
        d = json.loads(p.stdout)
        d["opname"] = {op: n for n, op in d["opmap"].items()}
        d["caches"] = {int(k): x for k, x in d["caches"].items()}
        m = subprocess.run([PY_VERSIONS[v], "-c", "import importlib.util as u;print(int.from_bytes(u.MAGIC_NUMBER[:2],'little'))"],
                           stdout=subprocess.PIPE, text=True)
        d["magic"] = int(m.stdout)
        out[v] = d
    check_split37(out)
    return out


def check_split37(probes):
    p7, p8 = probes["3.7"], probes["3.8"]
    jumps = set(p7["hasjrel"]) | set(p7["hasjabs"])
    for op in sorted(jumps):
        name = p7["opname"][op]
        if name in UNSUPPORTED:
            continue
        if name not in SPLIT37:
            raise TieBroken("3.7 jump opcode %s has no fall-through/jump split" % name)
        nj, j = SPLIT37[name]
        m = p7["effect_arg0"][name][2]
        if max(nj, j) != m:
            raise TieBroken("3.7 split of %s (%d,%d) disagrees with dis.stack_effect=%s" % (name, nj, j, m))
        if name in p8["opmap"]:
            e8 = p8["effect_arg0"][name]
            if [nj, j] != e8[:2]:
                raise TieBroken("3.7 split of %s (%d,%d) disagrees with the 3.8 interpreter %s" % (name, nj, j, e8))


def split_effects(ver, probe, effs):
    """effects as dumped by c14_probe ([op, arg, nojump, jump, max]) -> [[op, arg, nojump, jump]]"""
    out = []
    if ver != "3.7":
        return [[e[0], e[1], e[2], e[3]] for e in effs]
    jumps = set(probe["hasjrel"]) | set(probe["hasjabs"])
    for op, arg, _, _, m in effs:
        name = probe["opname"][op]
        if op in jumps and name in SPLIT37:
            nj, j = SPLIT37[name]
            if max(nj, j) != m:
                raise TieBroken("3.7 split of %s arg %d disagrees with dis.stack_effect=%s" % (name, arg, m))
            out.append([op, arg, nj, j])
        else:
            out.append([op, arg, m, m])
    return out


def imprecise_ops(ver, probe):
    if ver != "3.7":
        return set()
    return {probe["opmap"][n] for n in IMPRECISE37 if n in probe["opmap"]}


def op_rows(ver, d):
    rows = []
    for name, op in sorted(d["opmap"].items(), key=lambda kv: kv[1]):
        jmp = 0
        if op in d["hasjabs"]:
            jmp = 2
        elif op in d["hasjrel"]:
            jmp = 3 if (ver == "3.11" and "BACKWARD" in name) else 1
        flow = 0
        if name in UNCOND:
            flow = 1
        elif name in TERMINAL:
            flow = 2
        elif name in UNSUPPORTED:
            flow = 3
        if flow == 1 and jmp == 0:
            raise TieBroken("%s: %s is listed as an unconditional jump but is in neither hasjrel nor hasjabs" % (ver, name))
        idx = 0
        if op in d["hasconst"]:
            idx = 1
        elif op in d["hasname"]:
            idx = 6 if (ver == "3.11" and name == "LOAD_GLOBAL") else 2
        elif op in d["haslocal"]:
            idx = 3
        elif op in d["hasfree"]:
            idx = 4
        elif op in d["hascompare"]:
            idx = 5
        cache = d["caches"].get(op, 0)
        if cache and jmp:
            raise TieBroken("%s: jump opcode %s has inline cache entries; jump-target rule of the model does not cover it" % (ver, name))
        rows.append((op, jmp, flow, idx, cache, name))
    return rows


def gen_pyops(probes):
    L = ["(* GENERATED by pylib/c14_tables.py from the installed interpreters' dis module -- do not edit *)",
         "From Coq Require Import ZArith List.", "Import ListNotations.", "Open Scope Z_scope.", "",
         "(* row = (opcode, jump kind 0 none|1 relative forward|2 absolute|3 relative backward,",
         "         flow 0 falls through|1 unconditional jump|2 terminal|3 implicit control (unsupported),",
         "         index class 0 none|1 const|2 name|3 local|4 free/cell|5 compare|6 name (arg>>1),",
         "         inline cache entries) *)", ""]
    for v in VERSIONS:
        d = probes[v]
        vid = VID[v]
        L.append("(* CPython %s, magic %d *)" % (".".join(map(str, d["version"])), d["magic"]))
        L.append("Definition pyops_%d : list (Z * Z * Z * Z * Z) := [" % vid)
        rows = op_rows(v, d)
        L.append(";\n".join("  (%d, %d, %d, %d, %d) (* %s *)" % r for r in rows))
        L.append("].")
        L.append("Definition pyext_%d : Z := %d." % (vid, d["extended_arg"]))
        L.append("Definition pyncmp_%d : Z := %d." % (vid, d["ncmp"]))
        L.append("Definition pymagic_%d : Z := %d." % (vid, d["magic"]))
        L.append("")
    return "\n".join(L) + "\n"
