"""CoreErg: seeded generator of well-typed programs of the Erg fragment the whole-compiler properties talk about,
with THREE printers from the same tree (Erg source, independent Python oracle, sx wire format for coq/CoreErg).

=====================================================================================================================
API (everything a re-user needs)
=====================================================================================================================
    from pylib import coreerg_gen as G

    g    = G.Gen(rng, level=4, expr_only=False, runtime_error=False, max_stmts=12)   # rng: random.Random (ctx.rng)
    prog = g.program()            # list of St (statement nodes); every Ex node carries .ty (static type) and .guard
    G.to_erg(prog)    -> str      # Erg source text (one statement per line, blocks indented by 4 spaces)
    G.to_python(prog) -> str      # stand-alone Python 3 program: the "Python-semantics reading" (NOT erg's transpiler)
    G.to_sx(prog)     -> list     # nested int lists = wire format decoded by coq/CoreErg/Syntax.v (dec_program);
                                  # feed through lib.vplib.sx_dump; strings travel as code point lists, floats as
                                  # IEEE-754 binary64 bit patterns (0 .. 2**64-1)
    G.from_sx(x)      -> prog     # inverse of to_sx (types are not on the wire: .ty is None after from_sx,
                                  # only the wrap code .w survives); used by replay and the shrinker
    G.shrink(prog, fails)         # greedy tree shrinker: delete statements, hoist blocks, replace sub-expressions by
                                  # literals, while fails(candidate) stays true
    G.size(prog)                  # number of nodes
    G.features(prog)              # set of strings (op/statement kinds used) for coverage distributions

  Gen parameters
    level          1: expressions + definitions + print! (+ assert)           (milestone M1)
                   2: + if / if! / for! / while! with mutable counter          (M2)
                   3: + named functions, procedures, lambdas, calls            (M3)
                   4: + lists (literals, index, len, +, for! over list), tuple/list pattern definitions  (M4)
    expr_only      True: only top-level definitions and print! of expressions built from literals, variables,
                   unary/binary/comparison/and/or/not  ==  the fragment of coq/CoreErg/Codegen.v (theorem
                   compile_correct and the bytecode-level tie); implies level 1 and no assert
    runtime_error  True: exactly one statement is inserted whose evaluation raises a *legitimate* run-time error
                   (ZeroDivisionError for // % / by zero, AssertionError); the expected outcome is then
                   that exception class.  False: divisors are non-zero by construction.
    max_stmts      upper bound for the number of statements (nested ones included, <= 15 by the task's rule)

=====================================================================================================================
The fragment (static types mirror what `erg --mode typecheck` infers; probed on the pinned tree)
=====================================================================================================================
  types       Nat Int Float Str Bool NoneType, List(T) with statically known length
  literals    Nat 0 .. 2**64-1 (biased to 2**31, 2**32, 2**63, 2**64 boundaries); negative Int literal -1 .. -2**31
              (the lexer folds a prefix `-` followed by a digit into the literal; Int constants are i32 in erg, a
              Nat >= 2**64 or an Int < -2**31 is a *syntax error* "invalid literal" and therefore outside the
              fragment; larger integers arise only by arithmetic); Float as decimal text without exponent (erg has
              no exponent syntax), incl. 0.0, -0.0 (negative literal token), values needing 17 digits, 1e16..1e23
              written out; Str with quotes, backslashes, newline, non-ASCII/astral characters (no TAB: erg turns
              `\\t` into four spaces by design; no bidi controls: rejected by the lexer); True False None
  unary       -e (Nat->Int, Int->Int, Float->Float)   +e   not(e)   (~e only on Nat/Int)
  binary      + * : Nat<Int<Float join; Str+Str; Str*Nat     - : Nat-Nat is Int     / : Float
              // % : only on Nat/Int operands (result join)   ** : only Nat**Nat with a literal exponent <= 3
              (erg types Int**Nat as Nat and Nat**Int as Nat: see the final report / DESIGN notes)
              < <= > >= on numeric pairs and Str pairs;  == != on {Nat,Int} pairs, Str pairs, Bool pairs
              (Float is not Eq in erg);  and / or on Bool (short-circuit)
  statements  v = e | v: T = e | print!(e, ...) | assert e | if! c: do!: ... [do!: ...] | for! it, v => ...
              | c = !n ; while! do! c < e, do!: ... ; c.inc!() ; c.update!(a -> a + k)
              | f(a: T, b: T := lit): T = block | p!(a: T) = block | g = (a: T) -> e | p!(args) | (u, v) = (e1, e2)
              | [u, v] = list | nested patterns with discards, depth <= 3, tuple and list patterns mixed:
                (a, (_, c)) = (1, (2, 3)) ; [p, [_, q, r]] = [[0, 0, 0], [4, 5, 6]]  (level 4; also in function bodies);
                every bound variable is printed (in a pure function: one of them is the result)
  expressions additionally: if(c, (do: a), (do: b)), f(args, kw := e), len(e), abs(e), l[lit], l + l, [e, ...]

  Erg printer rules (so that parsing precedence, property C11, cannot interfere): every non-atomic operand is
  parenthesised, negative literals in operand position are parenthesised, print! / assert / if-expressions are always
  written as calls `print!(...)`, `assert(...)`, `if(c, (do: a), (do: b))` (`print! (a) + b` would parse as
  `print!(a) + b`, `if c, do: a, do: b` as a one-armed if whose arm is a tuple), `not` is written as a call, blocks are
  always multi-line, a block never ends with a definition (syntax error in Erg), the condition of an if! statement
  never starts with `(` (Gen.stmt_cond).
  Things the generator avoids on purpose (erg rejects or mistypes them; see the C01 report): Float == Float (Float is
  not Eq), list index by a non-literal, `**` with an Int operand, arithmetic on a numeric if-expression or a variable
  bound to one (Gen.noenum / Ex.enum; known finding known_enum_arith), Int/Nat-mixed arms of an if-expression,
  Nat -> Float coercion by annotation or argument passing (erg prints 3.0 where Python prints 3), TAB and bidi
  characters in strings, Nat literals >= 2**64 and Int literals < -2**31 (syntax errors).
  In expr_only programs every variable is used (erg removes unused definitions: optimisation, property C12).

  Wrap code .w of an expression (what codegen.rs emit_expr wraps the value in; used only by Codegen.v):
      0 none  1 Nat  2 Int  3 Float  4 Str  5 Bool  6 List
  Comparisons get a *guard type* in erg (`{x in {...}}`), which is not wrapped: .guard tracks that
  (comparison: guard; not(e): as e; variable: as its unannotated definition; and/or: only if both operands are
  *syntactically* guards (.sguard: comparison, and/or of such, not(such); a variable never is)).
  Other probed typing facts: +(Nat) : Int;  `v: Int = <Nat expr>` keeps v : Nat;  Int**Nat and Nat**Int are typed Nat.

=====================================================================================================================
Wire format (tags) — keep in sync with coq/CoreErg/Syntax.v
=====================================================================================================================
  expr  (0 w kind payload)  literal: kind 0 Nat n | 1 negative Int z | 2 Float bits | 3 Str (cp...) | 4 Bool 0/1 | 5 None 0
        (1 w id) variable   (2 w op e) unary: 0 neg 1 pos 2 not 3 invert
        (3 w op a b) arithmetic: 0 + 1 - 2 * 3 / 4 // 5 % 6 **        (4 w op a b) compare: 0 < 1 <= 2 == 3 != 4 > 5 >=
        (5 w k a b) k=0 and, 1 or     (6 w (e...)) list literal     (7 w a i) index     (8 w c a b) if-expression
        (9 w fid (arg...) ((pid e)...)) call with positional and keyword arguments   (10 w e) len   (11 w e) abs
        (12 w lo hi) right-open range lo..<hi (only as for! iterable)   (13 w (e...)) tuple (only rhs of a tuple pattern)
  stmt  (0 e) final expression of a function body   (1 (e...)) print!   (2 e) assert   (3 id ann e) definition, ann=0|type code
        (4 c (s...) has_else (s...)) if!   (5 id it (s...)) for!   (6 c (s...)) while!   (7 id e) mutable counter `c = !e`
        (8 id) c.inc!()   (9 id pid e) c.update!(pid -> e)   (10 id isproc ((pid ty (default)?)...) retty (s...)) function/procedure
        (11 id ((pid ty)...) e) lambda definition   (12 kind (id...) e) pattern definition kind 0 tuple, 1 list
        (13 fid (arg...)) procedure call statement
        (14 pat e) nested pattern definition; pat ::= (0 id) variable | (1) discard `_` | (2 (pat...)) tuple | (3 (pat...)) list
  type codes: 0 None 1 Nat 2 Int 3 Float 4 Str 5 Bool, (6 t) List
"""
import struct
from decimal import Decimal

NAT, INT, FLOAT, STR, BOOL, NONE = "Nat", "Int", "Float", "Str", "Bool", "None"
SCALARS = [NAT, INT, FLOAT, STR, BOOL]
TYCODE = {NONE: 0, NAT: 1, INT: 2, FLOAT: 3, STR: 4, BOOL: 5}
CODETY = {v: k for k, v in TYCODE.items()}

(E_LIT, E_VAR, E_UN, E_BIN, E_CMP, E_LOGIC, E_LIST, E_INDEX, E_IF, E_CALL, E_LEN, E_ABS, E_RANGE, E_TUPLE) = range(14)
(S_EXPR, S_PRINT, S_ASSERT, S_DEF, S_IF, S_FOR, S_WHILE, S_MUTDEF, S_INC, S_UPDATE, S_FUN, S_LAM, S_PAT, S_PCALL, S_NPAT) = range(15)
(P_VAR, P_DISCARD, P_TUPLE, P_LIST) = range(4)
(L_NAT, L_NEG, L_FLOAT, L_STR, L_BOOL, L_NONE) = range(6)
UN_NEG, UN_POS, UN_NOT, UN_INV = range(4)
ARITH = ["+", "-", "*", "/", "//", "%", "**"]
CMP = ["<", "<=", "==", "!=", ">", ">="]
UNOPS = ["-", "+", "not", "~"]


def TList(t, n=None):
    return ("List", t, n)


def is_list(t):
    return isinstance(t, tuple) and t[0] == "List"


def ty_code(t):
    return [6, ty_code(t[1])] if is_list(t) else TYCODE[t]


def code_ty(c):
    return TList(code_ty(c[1])) if isinstance(c, list) else CODETY[c]


class Ex:
    """expression node: tag, args (list; sub-expressions are Ex), static type ty, guard flag, wrap code w"""
    __slots__ = ("tag", "args", "ty", "guard", "w", "enum", "sguard")

    def __init__(self, tag, args, ty=None, guard=False, w=None, enum=False, sguard=None):
        self.tag, self.args, self.ty, self.guard = tag, list(args), ty, guard
        self.enum = enum
        # guard: the erg type is a guard type (not wrapped in Bool); sguard: the expression is *syntactically* a guard
        # (lower.rs get_guard_type: comparison, and/or of guards, not(guard)) - only that makes an and/or a guard
        self.sguard = (tag == E_CMP) if sguard is None else sguard
        self.w = wrap_code(ty, guard, tag) if w is None else w

    def __repr__(self):
        return "Ex(%d,%r)" % (self.tag, self.args)


class St:
    """statement node: tag, args"""
    __slots__ = ("tag", "args")

    def __init__(self, tag, args):
        self.tag, self.args = tag, list(args)

    def __repr__(self):
        return "St(%d,%r)" % (self.tag, self.args)


def wrap_code(ty, guard, tag):
    if ty is None:
        return 0
    if is_list(ty):
        return 6
    if ty == BOOL:
        return 0 if guard else 5
    if ty == NONE:
        return 0
    return TYCODE[ty]


# ------------------------------------------------------------------------------------------------ float helpers
def f2bits(f):
    return struct.unpack("<Q", struct.pack("<d", f))[0]


def bits2f(b):
    return struct.unpack("<d", struct.pack("<Q", b))[0]


def float_text(f):
    """decimal text without exponent that rust's str::parse::<f64> and python's float() both round to f (f >= 0 or -0.0 handled by caller)"""
    r = repr(f)
    if "e" in r or "E" in r:
        r = format(Decimal(f), "f")
    if "." not in r:
        r += ".0"
    return r


# ------------------------------------------------------------------------------------------------ generator
NAT_EDGES = [0, 1, 2, 3, 7, 10, 255, 256, 65535, 65536, 2**31 - 1, 2**31, 2**31 + 1, 2**32 - 1, 2**32, 2**32 + 1,
             2**53, 2**53 + 1, 2**63 - 1, 2**63, 2**63 + 1, 2**64 - 1, 3000000000, 4294967296123]
NAT_SMALL_EDGES = [n for n in NAT_EDGES if n < 2**31]
NEG_EDGES = [-1, -2, -3, -7, -10, -128, -129, -32768, -32769, -2**31, -2**31 + 1, -123456789]
FLOAT_EDGES = [0.0, -0.0, 1.0, -1.0, 0.5, 1.5, -1.5, 0.1, 0.2, 0.3, 2.5, 3.5, 3.14159, 1e15, 1e16, 1e17, 1e22, 1e23,
               123456789.12345679, 0.0001, 0.00001, 0.000123, 9007199254740992.0, 9007199254740994.0, 1e-7,
               4.35, 0.7, 2.675, 1e21, 123456.0, 100.0, -100.25, 5e-10, 1.7976931348623157e308, 2.2250738585072014e-308]
STR_CHARS = list("abcXYZ019 _-.,:;!?()[]#%&*+/<=>@^|~$") + ['"', "'", "\\", "\n", "{", "}", "é", "ß", "Ω", "日", "本", "😀", "𝔘", " "]


class Info:
    def __init__(self, kind, ty=None, guard=False, params=None, ret=None, isproc=False, enum=False):
        self.kind, self.ty, self.guard, self.params, self.ret, self.isproc = kind, ty, guard, params, ret, isproc
        self.enum = enum    # erg type is a multi-valued enum {a, b} (from an if-expression): see Gen.noenum
        self.const = False  # erg knows the value at compile time (singleton type): defined by a literal / a const variable
        self.cval = None    # that value


class Gen:
    def __init__(self, rng, level=4, expr_only=False, runtime_error=False, max_stmts=12):
        self.rng = rng
        self.level = 1 if expr_only else level
        self.expr_only = expr_only
        self.runtime_error = runtime_error
        self.max_stmts = min(max_stmts, 15)
        self.next_id = 0
        self.info = {}
        self.scope = []
        self.budget = 0
        self.in_func = False      # inside a pure function body / lambda: no print!, no procedures, no counters
        self.no_singleton = set() # ids whose erg type is not a singleton (parameters, loop variables)
        self.big = rng.random() < 0.5   # this program may contain Nat literals >= 2**31
        # erg mistypes arithmetic whose operand has a multi-valued enum type ({256, 3} - 300 : Nat, -({256, 3}) : Nat,
        # {256, 3} / 2 : Nat; a type-checker defect outside C01's anchors, recorded as a known finding): while
        # noenum > 0 no numeric if-expression / variable bound to one is produced
        self.noenum = 0
        self.allow_enum_arith = False
        # the variable of a for! loop / of a list pattern has no fixed type in erg: mixed arithmetic or a comparison with a
        # Float operand unifies it with Float and later uses print 3.0 (known finding known_float_unify): while nofree > 0
        # such variables are not produced
        self.nofree = 0
        self.free_vars = set()

    # ---- names
    def fresh(self, info):
        self.next_id += 1
        self.info[self.next_id] = info
        return self.next_id

    def bind(self, i):
        self.scope.append(i)

    def vars_of(self, ty, exact=False):
        out = []
        for i in self.scope:
            inf = self.info[i]
            if inf.kind != "var":
                continue
            if inf.enum and self.noenum > 0:
                continue
            if self.nofree > 0 and i in self.free_vars:
                continue
            if inf.ty == ty or (not exact and ty == INT and inf.ty == NAT):
                out.append(i)
            elif is_list(ty) and is_list(inf.ty) and inf.ty[1] == ty[1]:
                out.append(i)
        return out

    def funs_ret(self, ty, proc=False):
        return [i for i in self.scope if self.info[i].kind in ("fun", "lam") and self.info[i].isproc == proc
                and (proc or self.info[i].ret == ty)]

    # ---- literals
    def lit(self, ty):
        r = self.rng
        if ty == INT:
            if r.random() < 0.75:
                z = r.choice(NEG_EDGES) if r.random() < 0.5 else -r.randint(1, r.choice([10, 1000, 2**31]))
                return Ex(E_LIT, [L_NEG, z], INT)
            ty = NAT
        if ty == NAT:
            k = r.random()
            if k < 0.45:
                n = r.randint(0, 12)
            elif k < 0.8:
                n = r.choice(NAT_EDGES if self.big else NAT_SMALL_EDGES)
            else:
                n = r.randint(0, 2 ** r.choice([8, 16, 31, 32, 33, 53, 63, 64] if self.big else [8, 16, 24, 31]) - 1)
            return Ex(E_LIT, [L_NAT, n], NAT)
        if ty == FLOAT:
            k = r.random()
            if k < 0.6:
                f = r.choice(FLOAT_EDGES)
            elif k < 0.8:
                f = r.randint(-2000, 2000) / r.choice([1, 2, 4, 8, 10, 100, 1000])
            else:
                f = bits2f((r.getrandbits(1) << 63) | (r.randint(1023 - 40, 1023 + 70) << 52) | r.getrandbits(52))
            return Ex(E_LIT, [L_FLOAT, f2bits(float(f))], FLOAT)
        if ty == STR:
            n = r.choice([0, 1, 1, 2, 3, 4, 6])
            return Ex(E_LIT, [L_STR, "".join(r.choice(STR_CHARS) for _ in range(n))], STR)
        if ty == BOOL:
            return Ex(E_LIT, [L_BOOL, r.randint(0, 1)], BOOL)
        if ty == NONE:
            return Ex(E_LIT, [L_NONE, 0], NONE)
        if is_list(ty):
            n = ty[2] if ty[2] is not None else r.randint(1, 3)
            return Ex(E_LIST, [[self.lit(ty[1]) for _ in range(n)]], TList(ty[1], n))
        raise ValueError(ty)

    def small_nat(self, lo, hi):
        return Ex(E_LIT, [L_NAT, self.rng.randint(lo, hi)], NAT)

    def var(self, i):
        inf = self.info[i]
        return Ex(E_VAR, [i], inf.ty, guard=inf.guard, enum=inf.enum)

    # ---- typing rules mirrored from erg
    @staticmethod
    def join(a, b):
        order = {NAT: 0, INT: 1, FLOAT: 2}
        return a if order[a] >= order[b] else b

    def nonzero(self, ty, d):
        """expression of numeric type ty whose value is never zero"""
        r = self.rng
        if ty == FLOAT:
            while True:
                e = self.lit(FLOAT)
                if bits2f(e.args[1]) != 0.0:
                    return e
        if ty == INT and r.random() < 0.5:
            return Ex(E_LIT, [L_NEG, -r.randint(1, 9)], INT)
        if d > 0 and r.random() < 0.3:
            return Ex(E_BIN, [0, self.operand(NAT, d - 1), self.small_nat(1, 5)], NAT)
        return self.small_nat(1, 9)

    def operand(self, ty, d):
        """operand of an arithmetic / unary operator: not enum-typed"""
        if self.allow_enum_arith:
            return self.expr(ty, d)
        self.noenum += 1
        try:
            return self.expr(ty, d)
        finally:
            self.noenum -= 1

    def expr(self, ty, d):
        """expression whose static type is ty or (for Int) the subtype Nat"""
        r = self.rng
        prods = [(3, lambda: self.lit(ty))]
        vs = self.vars_of(ty)
        if vs:
            prods.append((5, lambda: self.var(r.choice(vs))))
        if ty == INT:
            prods.append((2, lambda: self.expr(NAT, d)))
        if d > 0:
            num = ty in (NAT, INT, FLOAT)
            if ty == NAT:
                prods += [(4, lambda: self.arith(r.choice([0, 2]), NAT, NAT, d)),
                          (2, lambda: self.arith(r.choice([4, 5]), NAT, NAT, d)),
                          (1, lambda: Ex(E_BIN, [6, self.operand(NAT, d - 1), self.small_nat(0, 3)], NAT)),
                          ]
                if self.level >= 4 and not self.expr_only:
                    prods.append((1, lambda: self.len_of(d)))
                    prods.append((1, lambda: Ex(E_ABS, [self.operand(INT, d - 1)], NAT)))
            if ty == INT:
                prods += [(4, lambda: self.arith(r.choice([0, 1, 1, 2]), r.choice([NAT, INT]), r.choice([NAT, INT]), d, want=INT)),
                          (2, lambda: self.arith(r.choice([4, 5]), r.choice([NAT, INT]), r.choice([NAT, INT]), d, want=INT)),
                          (2, lambda: Ex(E_UN, [UN_NEG, self.operand(r.choice([NAT, INT]), d - 1)], INT)),
                          (1, lambda: Ex(E_UN, [UN_INV, self.operand(r.choice([NAT, INT]), d - 1)], INT)),
                          (1, lambda: self.pos_int(d))]
            if ty == FLOAT:
                prods += [(4, lambda: self.arith(r.choice([0, 1, 2]), FLOAT, r.choice([NAT, INT, FLOAT]), d, want=FLOAT)),
                          (3, lambda: self.arith(3, r.choice([NAT, INT, FLOAT]), r.choice([NAT, INT, FLOAT]), d)),
                          (1, lambda: Ex(E_UN, [r.choice([UN_NEG, UN_POS]), self.operand(FLOAT, d - 1)], FLOAT))]
            if ty == STR:
                prods += [(3, lambda: Ex(E_BIN, [0, self.expr(STR, d - 1), self.expr(STR, d - 1)], STR)),
                          (1, lambda: Ex(E_BIN, [2, self.expr(STR, d - 1), self.small_nat(0, 3)], STR))]
            if ty == BOOL:
                prods += [(5, lambda: self.cmp(d)),
                          (3, lambda: self.logic(d)),
                          (2, lambda: self.not_(d))]
            if is_list(ty) and self.level >= 4:
                prods.append((2, lambda: self.concat(ty, d)))
            if self.level >= 2 and not self.expr_only and not is_list(ty) and ty != NONE and \
                    not (self.noenum > 0 and ty in (NAT, INT, FLOAT)):
                prods.append((1, lambda: self.if_expr(ty, d)))
            if self.level >= 3 and not self.expr_only:
                fs = self.funs_ret(ty)
                if fs:
                    prods.append((4, lambda: self.call(r.choice(fs), d)))
            if self.level >= 4 and not self.expr_only and not is_list(ty) and ty != NONE:
                ls = [i for i in self.vars_of(TList(ty)) if self.info[i].ty[2]]
                if ls:
                    prods.append((2, lambda: self.index(r.choice(ls))))
        tot = sum(w for w, _ in prods)
        k = r.random() * tot
        for w, f in prods:
            k -= w
            if k <= 0:
                return f()
        return prods[-1][1]()

    def arith(self, op, ta, tb, d, want=None):
        r = self.rng
        if want is not None and r.random() < 0.5:
            ta, tb = tb, ta
        if want == FLOAT and FLOAT not in (ta, tb):
            ta = FLOAT
        mixed = FLOAT in (ta, tb) and ta != tb
        self.nofree += mixed
        try:
            a = self.operand(ta, d - 1)
            if op in (3, 4, 5):
                b = self.nonzero(tb, d - 1)
            else:
                b = self.operand(tb, d - 1)
        finally:
            self.nofree -= mixed
        return Ex(E_BIN, [op, a, b], self.arith_ty(op, a.ty, b.ty))

    def pos_int(self, d):
        a = self.operand(INT, d - 1)
        return Ex(E_UN, [UN_POS, a], INT)     # erg: +(Nat) : Int

    def arith_ty(self, op, ta, tb):
        if op == 3:
            return FLOAT
        if ta == STR:
            return STR
        t = self.join(ta, tb)
        if op == 1 and t == NAT:
            return INT
        return t

    def is_const(self, e):
        """erg can evaluate e at compile time (lower.rs get_bin_guard_type -> expr_to_value / expr_to_tp): every variable
        in it has a singleton type and the constant evaluator (ty/value.rs try_add ...) does not give up: ValueObj holds
        a Nat as u64 and an Int as i32, so an intermediate result outside those ranges makes the evaluation fail"""
        return self.const_eval(e) is not None

    def is_const_tp(self, e):
        stack = [e]
        while stack:
            x = stack.pop()
            if x.tag == E_VAR and not self.info[x.args[0]].const:
                return False
            if x.tag in (E_CALL, E_INDEX, E_LEN, E_ABS, E_IF, E_LIST):
                return False
            stack += sub_exprs(x)
        return True

    def const_eval(self, e):
        """python value of e as erg's constant evaluator computes it, or None when it gives up"""
        t, a = e.tag, e.args

        def fit(v, ty):
            # ValueObj::int_op: exact in i128, representable as Int(i32) or Nat(u64)
            if isinstance(v, bool) or v is None:
                return v
            if isinstance(v, int):
                return v if -2**31 <= v < 2**64 else None
            return v
        if t == E_LIT:
            k, v = a
            if k == L_FLOAT:
                return bits2f(v)
            if k == L_BOOL:
                return bool(v)
            if k == L_NONE:
                return None
            return v
        if t == E_VAR:
            inf = self.info[a[0]]
            return inf.cval if inf.const else None
        if t == E_UN:
            v = self.const_eval(a[1])
            if v is None or a[0] == UN_INV:
                return None
            if a[0] == UN_NOT:
                return not v
            return fit(-v if a[0] == UN_NEG else v, e.ty)
        if t in (E_BIN, E_CMP, E_LOGIC):
            x, y = self.const_eval(a[1]), self.const_eval(a[2])
            if x is None or y is None:
                return None
            try:
                if t == E_BIN:
                    op = a[0]
                    if isinstance(x, str) or isinstance(y, str):
                        return x + y if op == 0 else x * y
                    v = [lambda: x + y, lambda: x - y, lambda: x * y, lambda: x / y, lambda: x // y, lambda: x % y,
                         lambda: x ** y][op]()
                    return fit(v, e.ty)
                if t == E_CMP:
                    if isinstance(x, str) and a[0] not in (2, 3):
                        return None        # the constant evaluator does not order strings (ValueObj::try_cmp)
                    return [x < y, x <= y, x == y, x != y, x > y, x >= y][a[0]]
                return (x or y) if a[0] else (x and y)
            except (ZeroDivisionError, OverflowError, TypeError):
                return None
        return None

    def cmp(self, d):
        r = self.rng
        k = r.random()
        if k < 0.55:
            ta, tb = r.choice([NAT, INT, FLOAT]), r.choice([NAT, INT, FLOAT])
            op = r.choice([0, 1, 4, 5])
            if FLOAT not in (ta, tb) and r.random() < 0.5:
                op = r.choice([2, 3])
        elif k < 0.75:
            ta = tb = STR
            op = r.randint(0, 5)
        elif k < 0.85:
            ta = tb = BOOL
            op = r.choice([2, 3])
        else:
            ta, tb = r.choice([NAT, INT]), r.choice([NAT, INT])
            op = r.choice([2, 3])
        mixed = FLOAT in (ta, tb) and ta != tb
        self.nofree += mixed
        try:
            # an ordering guard on an enum-typed variable casts it to Float (known finding known_enum_guard)
            self.noenum += op in (0, 1, 4, 5)
            try:
                # == / != with a compound Bool expression on the left registers an expression-target guard that
                # mistypes equal expressions in the branch (known finding known_expr_guard_cast): atomic left operand
                a = self.expr(ta, 0 if (ta == BOOL and op in (2, 3)) else d - 1)
            finally:
                self.noenum -= op in (0, 1, 4, 5)
            b = self.expr(tb, d - 1)
        finally:
            self.nofree -= mixed
        # lower.rs get_bin_guard_type: == != need the *value* of the right operand (expr_to_value), the orderings only a
        # type parameter (expr_to_tp: may stay symbolic, so it only fails on a variable that is not a constant)
        g = self.is_const(b) if op in (2, 3) else self.is_const_tp(b)
        return Ex(E_CMP, [op, a, b], BOOL, guard=g, sguard=g)

    def logic(self, d):
        a, b = self.expr(BOOL, d - 1), self.expr(BOOL, d - 1)
        g = a.sguard and b.sguard
        return Ex(E_LOGIC, [self.rng.randint(0, 1), a, b], BOOL, guard=g, sguard=g)

    def not_(self, d):
        a = self.expr(BOOL, d - 1)
        return Ex(E_UN, [UN_NOT, a], BOOL, guard=a.guard, sguard=a.sguard)

    def if_expr(self, ty, d):
        c = self.expr(BOOL, d - 1)
        for _ in range(20):
            a, b = self.expr(ty, d - 1), self.expr(ty, d - 1)
            if a.ty == b.ty:      # erg has no common Output for e.g. ({-678} or Nat)
                break
        else:
            a, b = self.lit(ty), self.lit(ty)
            if a.ty != b.ty:
                b = a
        return Ex(E_IF, [c, a, b], a.ty, enum=a.ty in (NAT, INT, FLOAT))

    def len_of(self, d):
        ls = [i for i in self.scope if self.info[i].kind == "var" and (is_list(self.info[i].ty) or self.info[i].ty == STR)]
        if ls:
            return Ex(E_LEN, [self.var(self.rng.choice(ls))], NAT)
        return Ex(E_LEN, [self.expr(STR, d - 1)], NAT)

    def concat(self, ty, d):
        a, b = self.expr(ty, d - 1), self.expr(ty, d - 1)
        n = a.ty[2] + b.ty[2] if a.ty[2] is not None and b.ty[2] is not None else None
        return Ex(E_BIN, [0, a, b], TList(ty[1], n))

    def index(self, lid):
        t = self.info[lid].ty
        n = t[2]
        i = self.rng.randint(0, n - 1)
        idx = Ex(E_LIT, [L_NAT, i], NAT) if self.rng.random() < 0.8 else Ex(E_LIT, [L_NEG, i - n], INT)
        return Ex(E_INDEX, [self.var(lid), idx], t[1])

    def call(self, fid, d):
        inf = self.info[fid]
        pos, kw = [], []
        r = self.rng
        for pid, pty, default in inf.params:
            if default is not None and r.random() < 0.5:
                if r.random() < 0.5:
                    kw.append([pid, self.expr(pty, max(d - 1, 0))])
                continue
            if kw:   # positional after keyword is not allowed
                kw.append([pid, self.expr(pty, max(d - 1, 0))])
            else:
                pos.append(self.expr(pty, max(d - 1, 0)))
        return Ex(E_CALL, [fid, pos, kw], inf.ret)

    # ---- statements
    def take(self, n=1):
        if self.budget < n:
            return False
        self.budget -= n
        return True

    def scalar_ty(self):
        return self.rng.choices(SCALARS, weights=[5, 4, 4, 3, 3])[0]

    def s_def(self, d=2):
        r = self.rng
        if self.level >= 4 and r.random() < 0.18:
            ty = TList(self.rng.choice([NAT, INT, FLOAT, STR, BOOL]))
            e = self.expr(ty, 1) if r.random() < 0.3 and self.vars_of(ty) else self.lit(ty)
        else:
            ty = self.scalar_ty()
            e = self.expr(ty, r.choice([0, 1, 2, 2, 3]) if d else 0)
        ann = 0
        vty, guard = e.ty, e.guard
        if not is_list(e.ty) and r.random() < 0.2:
            ann = TYCODE[e.ty]
            if e.ty == NAT and r.random() < 0.3:
                ann = TYCODE[INT]        # the variable keeps the type of its initialiser (erg wraps it in Nat)
        i = self.fresh(Info("var", vty, guard, enum=e.enum and not ann))
        # a variable is a compile-time constant iff it is defined by a literal or by a constant variable
        # (`v = not(False)` has the type {True} but its value is not known to the evaluator: probed)
        self.info[i].const = (e.tag == E_LIT or (e.tag == E_VAR and self.info[e.args[0]].const))
        if self.info[i].const:
            self.info[i].cval = self.const_eval(e)
            if self.info[i].cval is None and not (e.tag == E_LIT and e.args[0] == L_NONE):
                self.info[i].const = False
        st = St(S_DEF, [i, ann, e])
        self.bind(i)
        return st

    def s_print(self):
        r = self.rng
        n = r.choice([1, 1, 1, 2, 2, 3])
        es = []
        for _ in range(n):
            k = r.random()
            if self.level >= 4 and k < 0.15:
                ty = TList(r.choice([NAT, INT, FLOAT, STR, BOOL]))
                es.append(self.expr(ty, 1))
            elif k < 0.18:
                es.append(self.lit(NONE))
            else:
                muts = [i for i in self.scope if self.info[i].kind == "mut"]
                if muts and r.random() < 0.3:
                    es.append(Ex(E_VAR, [r.choice(muts)], NAT, w=0))
                else:
                    es.append(self.expr(self.scalar_ty(), r.choice([0, 1, 2, 3])))
        return St(S_PRINT, [es])

    def block(self, n, need_print=True):
        """n statements in a fresh scope"""
        mark = len(self.scope)
        out = []
        for _ in range(n):
            out += self.stmt(nested=True)
        if need_print and not any(s.tag in (S_PRINT, S_PCALL) for s in out) and not self.in_func:
            out.append(self.s_print())
        if not out or out[-1].tag in (S_DEF, S_MUTDEF, S_FUN, S_LAM, S_PAT):
            # an Erg block cannot end with a definition (syntax error)
            out.append(self.s_print() if not self.in_func else St(S_EXPR, [self.expr(self.scalar_ty(), 1)]))
        del self.scope[mark:]
        return out

    def stmt_cond(self):
        """condition of an if! statement: its Erg text must not begin with `(` (`if! (a) and b:` parses as a call
        of if!), so the leftmost operand is atomic"""
        r = self.rng
        k = r.random()
        if k < 0.3:
            return self.not_(3)
        if k < 0.4:
            vs = self.vars_of(BOOL)
            return self.var(r.choice(vs)) if vs else self.lit(BOOL)
        for _ in range(20):
            c = self.cmp(2) if k < 0.8 else self.logic(2)
            if erg_atomic(c.args[1]):
                return c
        return self.lit(BOOL)

    def s_if(self):
        c = self.stmt_cond()
        then = self.block(self.rng.randint(1, 2))
        has_else = self.rng.random() < 0.6
        els = self.block(self.rng.randint(1, 2)) if has_else else []
        return St(S_IF, [c, then, 1 if has_else else 0, els])

    def s_for(self):
        r = self.rng
        lists = [i for i in self.scope if self.info[i].kind == "var" and is_list(self.info[i].ty)] if self.level >= 4 else []
        if lists and r.random() < 0.5:
            it = self.var(r.choice(lists))
            ety = it.ty[1]
        elif self.level >= 4 and r.random() < 0.4:
            ety = r.choice([NAT, STR, FLOAT])
            it = self.lit(TList(ety))
        else:
            lo = r.randint(0, 3)
            it = Ex(E_RANGE, [self.small_nat(lo, lo), self.small_nat(lo, lo + 3)], TList(NAT))
            ety = NAT
        # the variable of a loop over a range has an interval type {lo..hi-1}: like an enum type it is mistyped by
        # arithmetic (-(v) : Nat), see Gen.noenum
        i = self.fresh(Info("var", ety, enum=(it.tag == E_RANGE)))
        self.no_singleton.add(i)
        self.free_vars.add(i)
        mark = len(self.scope)
        self.bind(i)
        body = self.block(r.randint(1, 2))
        del self.scope[mark:]
        return St(S_FOR, [i, it, body])

    def s_while(self):
        r = self.rng
        c = self.fresh(Info("mut", NAT))
        init = self.small_nat(0, 2)
        out = [St(S_MUTDEF, [c, init])]
        self.bind(c)
        bound = self.small_nat(0, 4)
        cond = Ex(E_CMP, [r.choice([0, 1]), Ex(E_VAR, [c], NAT, w=0), bound], BOOL, guard=True)
        body = self.block(r.randint(0, 1))
        if r.random() < 0.5:
            body.append(St(S_INC, [c]))
        else:
            p = self.fresh(Info("var", NAT))
            body.append(St(S_UPDATE, [c, p, Ex(E_BIN, [0, Ex(E_VAR, [p], NAT), self.small_nat(1, 3)], NAT)]))
        out.append(St(S_WHILE, [cond, body]))
        return out

    def params(self, n):
        ps = []
        seen_default = False
        for _ in range(n):
            ty = self.scalar_ty()
            default = None
            if seen_default or self.rng.random() < 0.3:
                default = self.lit(ty)
                seen_default = True
            pid = self.fresh(Info("var", ty))
            self.no_singleton.add(pid)
            ps.append([pid, ty, default])
        return ps

    def s_fun(self, isproc):
        r = self.rng
        ps = self.params(r.randint(0 if isproc else 1, 3))
        mark = len(self.scope)
        saved = self.in_func
        # a function body sees the enclosing immutable variables and its parameters; not counters, not procedures
        inner = [i for i in self.scope if self.info[i].kind == "var" or (self.info[i].kind in ("fun", "lam") and not self.info[i].isproc)]
        if isproc:
            inner = list(self.scope)
        outer_scope = self.scope
        self.scope = inner + [p[0] for p in ps]
        self.in_func = not isproc
        if isproc:
            body = self.block(r.randint(1, 2))
            ret = NONE
        else:
            body = []
            for _ in range(r.choice([0, 0, 1, 2])):
                if self.take():
                    body.append(self.s_def())
            ret = self.scalar_ty()
            e = self.expr(ret, 2)
            if self.level >= 4 and r.random() < 0.3:
                # a nested pattern inside the function body; one of its scalar variables is the result
                st, ids = self.s_npat()
                scal = [i for i in ids if not is_list(self.info[i].ty)]
                if scal:
                    body.append(st)
                    e = self.var(r.choice(scal))
            body.append(St(S_EXPR, [e]))
            ret = e.ty
        self.scope = outer_scope
        del self.scope[mark:]
        self.in_func = saved
        fid = self.fresh(Info("fun", params=ps, ret=ret, isproc=isproc))
        self.bind(fid)
        return St(S_FUN, [fid, 1 if isproc else 0, ps, ret, body])

    def s_lam(self):
        ps = [[p[0], p[1], None] for p in self.params(self.rng.randint(1, 2))]
        for p in ps:
            p[2] = None
        outer_scope = self.scope
        self.scope = [i for i in self.scope if self.info[i].kind == "var"] + [p[0] for p in ps]
        saved = self.in_func
        self.in_func = True
        e = self.expr(self.scalar_ty(), 2)
        self.in_func = saved
        self.scope = outer_scope
        fid = self.fresh(Info("lam", params=ps, ret=e.ty))
        self.bind(fid)
        return St(S_LAM, [fid, [[p[0], p[1]] for p in ps], e])

    def s_pat(self):
        r = self.rng
        if r.random() < 0.5:
            n = r.randint(2, 3)
            es = [self.expr(self.scalar_ty(), 1) for _ in range(n)]
            ids = []
            for e in es:
                i = self.fresh(Info("var", e.ty, e.guard, enum=e.enum))
                ids.append(i)
            for i in ids:
                self.bind(i)
            return St(S_PAT, [0, ids, Ex(E_TUPLE, [es], None, w=0)])
        ety = r.choice([NAT, INT, FLOAT, STR])
        lists = [i for i in self.vars_of(TList(ety)) if self.info[i].ty[2]]
        if lists and r.random() < 0.5:
            e = self.var(r.choice(lists))
        else:
            e = self.lit(TList(ety, r.randint(1, 3)))
        ids = [self.fresh(Info("var", ety)) for _ in range(e.ty[2])]
        for i in ids:
            self.no_singleton.add(i)
            self.free_vars.add(i)
            self.bind(i)
        return St(S_PAT, [1, ids, e])

    def npat(self, depth, kind=None):
        """(pattern, value expression, [bound ids]) : a nested pattern with `_` discards at any position and a literal
        value of the same shape.  Tuple patterns take scalars, tuples and lists; a list pattern is homogeneous: scalars of
        one type, or lists of equal length of one scalar type (then an element is a variable bound to the inner list, a
        discard or a nested list pattern)."""
        r = self.rng
        kind = kind or r.choice([P_TUPLE, P_LIST])
        n = r.randint(2, 3)
        pats, vals, ids = [], [], []

        def leaf(ty, val):
            if r.random() < 0.4:
                return [P_DISCARD]
            i = self.fresh(Info("var", ty))
            self.no_singleton.add(i)
            self.free_vars.add(i)
            ids.append(i)
            return [P_VAR, i]
        if kind == P_TUPLE:
            for _ in range(n):
                k = r.random()
                if depth > 1 and k < 0.45:
                    q, v, sub = self.npat(depth - 1)
                    pats.append(q); vals.append(v); ids += sub
                else:
                    ty = r.choice([NAT, INT, FLOAT, STR, BOOL])
                    v = self.lit(ty)
                    pats.append(leaf(v.ty, v)); vals.append(v)
            return [P_TUPLE, pats], Ex(E_TUPLE, [vals], None, w=0), ids
        ety = r.choice([NAT, INT, FLOAT, STR])
        if depth > 1 and r.random() < 0.5:
            m = r.randint(2, 3)
            for _ in range(n):
                inner = self.lit(TList(ety, m))
                if r.random() < 0.5:
                    sub_p, sub_ids = [], []
                    for x in inner.args[0]:
                        sub_p.append(leaf(ety, x))
                    pats.append([P_LIST, sub_p])
                else:
                    pats.append(leaf(TList(ety, m), inner))
                vals.append(inner)
            return [P_LIST, pats], Ex(E_LIST, [vals], TList(TList(ety, m), n)), ids
        for _ in range(n):
            v = self.lit(ety)
            pats.append(leaf(ety, v)); vals.append(v)
        return [P_LIST, pats], Ex(E_LIST, [vals], TList(ety, n)), ids

    def s_npat(self):
        for _ in range(20):
            mark = self.next_id
            p, v, ids = self.npat(self.rng.randint(2, 3))
            if ids:
                break
        for i in ids:
            self.bind(i)
        return St(S_NPAT, [p, v]), ids

    def s_pcall(self):
        ps = self.funs_ret(None, proc=True)
        inf = self.info[self.rng.choice(ps)]
        fid = [i for i in ps if self.info[i] is inf][0]
        c = self.call(fid, 2)
        return St(S_PCALL, [fid, c.args[1]])

    def stmt(self, nested=False):
        """returns a list of statements (a while! comes with its counter definition)"""
        r = self.rng
        if not self.take():
            return []
        kinds = [("def", 30), ("print", 0 if self.in_func else 28)]
        if not self.expr_only and not self.in_func:
            kinds.append(("assert", 4))
            if self.level >= 2:
                kinds += [("if", 8), ("for", 6), ("while", 5)]
            if self.level >= 3:
                kinds += [("lam", 4)]
                if not nested:
                    kinds += [("fun", 7), ("proc", 4)]
                if self.funs_ret(None, proc=True):
                    kinds.append(("pcall", 5))
            if self.level >= 4:
                kinds.append(("pat", 5))
        k = r.choices([a for a, _ in kinds], weights=[b for _, b in kinds])[0]
        if k == "def":
            return [self.s_def()]
        if k == "print":
            return [self.s_print()]
        if k == "assert":
            return [St(S_ASSERT, [self.true_cond()])]
        if k == "if":
            return [self.s_if()]
        if k == "for":
            return [self.s_for()]
        if k == "while":
            return self.s_while()
        if k == "fun":
            return [self.s_fun(False)]
        if k == "proc":
            return [self.s_fun(True)]
        if k == "lam":
            return [self.s_lam()]
        if k == "pat":
            # the bound variables are printed: otherwise a wrong destructuring would go unobserved (found by mutation testing)
            if self.rng.random() < 0.5:
                st, ids = self.s_npat()
                return [st, St(S_PRINT, [[self.var(i) for i in ids]])]
            st = self.s_pat()
            return [st, St(S_PRINT, [[self.var(i) for i in st.args[1]]])]
        if k == "pcall":
            return [self.s_pcall()]
        raise AssertionError(k)

    def true_cond(self):
        """a condition that holds: e == e is avoided (erg narrows types on ==); use literal comparisons / or True"""
        r = self.rng
        a = r.randint(0, 50)
        forms = [Ex(E_CMP, [0, self.small_nat(a, a), self.small_nat(a + 1, a + 9)], BOOL, guard=True),
                 Ex(E_CMP, [5, self.small_nat(a, a), self.small_nat(0, a)], BOOL, guard=True),
                 Ex(E_LOGIC, [1, self.expr(BOOL, 1), Ex(E_LIT, [L_BOOL, 1], BOOL)], BOOL, sguard=False)]
        return r.choice(forms)

    def error_stmt(self):
        r = self.rng
        k = r.random()
        if k < 0.25:
            a = r.randint(0, 50)
            return St(S_ASSERT, [Ex(E_CMP, [0, self.small_nat(a + 1, a + 5), self.small_nat(0, a)], BOOL, guard=True)])
        op = r.choice([3, 4, 5])
        a = self.expr(r.choice([NAT, INT]), 1)
        zs = [i for i in self.vars_of(NAT, exact=True)]
        if k < 0.6 or not zs:
            z = Ex(E_LIT, [L_NAT, 0], NAT)
        else:
            v = r.choice(zs)
            z = Ex(E_BIN, [1, self.var(v), self.var(v)], INT)
        return St(S_PRINT, [[Ex(E_BIN, [op, a, z], FLOAT if op == 3 else self.join(a.ty, z.ty))]])

    def program(self):
        r = self.rng
        self.budget = r.randint(3, self.max_stmts)
        prog = []
        while self.budget > 0:
            prog += self.stmt()
        if not any(s.tag == S_PRINT for s in prog[-2:]):
            self.budget = 1
            prog.append(self.s_print())
        if self.expr_only:
            # erg removes unused definitions (optimisation, property C12): in the stream that is compared with the
            # model of codegen.rs instruction by instruction every variable is used
            used = set()
            walk_exprs(prog, lambda e: used.add(e.args[0]) if e.tag == E_VAR else None)
            unused = [s.args[0] for s in prog if s.tag == S_DEF and s.args[0] not in used]
            for k in range(0, len(unused), 4):
                prog.append(St(S_PRINT, [[self.var(i) for i in unused[k:k + 4]]]))
        if self.runtime_error:
            pos = r.randint(0, len(prog))
            # the inserted statement may only use variables visible at top level at that point: build it in a scope
            # containing the top-level definitions that precede pos
            saved = self.scope
            self.scope = []
            for s in prog[:pos]:
                if s.tag == S_DEF and self.info[s.args[0]].kind == "var":
                    self.scope.append(s.args[0])
            lvl, self.level = self.level, 1
            prog.insert(pos, self.error_stmt())
            self.level = lvl
            self.scope = saved
        return prog


# ------------------------------------------------------------------------------------------------ printers: Erg
def erg_str(s):
    out = ['"']
    for ch in s:
        if ch == '"':
            out.append('\\"')
        elif ch == "\\":
            out.append("\\\\")
        elif ch == "\n":
            out.append("\\n")
        else:
            out.append(ch)
    out.append('"')
    return "".join(out)


def erg_ty(t):
    if is_list(t):
        return "List(%s)" % erg_ty(t[1])
    return "NoneType" if t == NONE else t


def vname(i):
    return "v%d" % i


def erg_lit(e):
    k, v = e.args
    if k == L_NAT:
        return str(v)
    if k == L_NEG:
        return str(v)
    if k == L_FLOAT:
        f = bits2f(v)
        neg = (v >> 63) == 1
        return ("-" if neg else "") + float_text(abs(f))
    if k == L_STR:
        return erg_str(v)
    if k == L_BOOL:
        return "True" if v else "False"
    return "None"


def erg_atomic(e):
    if e.tag == E_LIT:
        k, v = e.args
        return not (k == L_NEG or (k == L_FLOAT and (v >> 63) == 1))
    if e.tag == E_UN and e.args[0] == UN_NOT:
        return True      # written as a call not(...)
    return e.tag in (E_VAR, E_LIST, E_CALL, E_LEN, E_ABS, E_INDEX, E_IF)


def erg_op(e, names):
    """operand position: parenthesise everything that is not atomic"""
    s = erg_expr(e, names)
    return s if erg_atomic(e) else "(" + s + ")"


def erg_expr(e, names):
    t, a = e.tag, e.args
    if t == E_LIT:
        return erg_lit(e)
    if t == E_VAR:
        return names(a[0])
    if t == E_UN:
        if a[0] == UN_NOT:
            return "not(%s)" % erg_expr(a[1], names)
        return "%s(%s)" % (UNOPS[a[0]], erg_expr(a[1], names))
    if t == E_BIN:
        return "%s %s %s" % (erg_op(a[1], names), ARITH[a[0]], erg_op(a[2], names))
    if t == E_CMP:
        return "%s %s %s" % (erg_op(a[1], names), CMP[a[0]], erg_op(a[2], names))
    if t == E_LOGIC:
        return "%s %s %s" % (erg_op(a[1], names), ["and", "or"][a[0]], erg_op(a[2], names))
    if t == E_LIST:
        return "[" + ", ".join(erg_expr(x, names) for x in a[0]) + "]"
    if t == E_TUPLE:
        return "(" + ", ".join(erg_expr(x, names) for x in a[0]) + ")"
    if t == E_INDEX:
        return "%s[%s]" % (erg_op(a[0], names), erg_expr(a[1], names))
    if t == E_IF:
        return "if(%s, (do: %s), (do: %s))" % (erg_expr(a[0], names), erg_expr(a[1], names), erg_expr(a[2], names))
    if t == E_CALL:
        args = [erg_expr(x, names) for x in a[1]] + ["%s := %s" % (names(p), erg_expr(x, names)) for p, x in a[2]]
        return "%s(%s)" % (names(a[0]), ", ".join(args))
    if t == E_LEN:
        return "len(%s)" % erg_expr(a[0], names)
    if t == E_ABS:
        return "abs(%s)" % erg_expr(a[0], names)
    if t == E_RANGE:
        return "%s..<%s" % (erg_op(a[0], names), erg_op(a[1], names))
    raise ValueError(t)


def proc_ids(prog):
    out = set()

    def walk(ss):
        for s in ss:
            if s.tag == S_FUN:
                if s.args[1]:
                    out.add(s.args[0])
                walk(s.args[4])
            elif s.tag == S_IF:
                walk(s.args[1]); walk(s.args[3])
            elif s.tag == S_FOR:
                walk(s.args[2])
            elif s.tag == S_WHILE:
                walk(s.args[1])
    walk(prog)
    return out


def erg_pat(p, names):
    if p[0] == P_VAR:
        return names(p[1])
    if p[0] == P_DISCARD:
        return "_"
    inner = ", ".join(erg_pat(q, names) for q in p[1])
    return "(%s)" % inner if p[0] == P_TUPLE else "[%s]" % inner


def py_pat(p):
    if p[0] == P_VAR:
        return "v%d" % p[1]
    if p[0] == P_DISCARD:
        return "_"
    inner = ", ".join(py_pat(q) for q in p[1])
    return "(%s,)" % inner if p[0] == P_TUPLE else "[%s]" % inner


def pat_ids(p):
    if p[0] == P_VAR:
        return [p[1]]
    if p[0] == P_DISCARD:
        return []
    return [i for q in p[1] for i in pat_ids(q)]


def to_erg(prog):
    procs = proc_ids(prog)

    def names(i):
        return "p%d!" % i if i in procs else "v%d" % i
    lines = []

    def blk(ss, ind):
        for s in ss:
            st(s, ind)

    def st(s, ind):
        p = "    " * ind
        t, a = s.tag, s.args
        if t == S_EXPR:
            lines.append(p + erg_expr(a[0], names))
        elif t == S_PRINT:
            lines.append(p + "print!(%s)" % ", ".join(erg_expr(e, names) for e in a[0]))
        elif t == S_ASSERT:
            lines.append(p + "assert(%s)" % erg_expr(a[0], names))
        elif t == S_DEF:
            ann = ": %s" % erg_ty(code_ty(a[1])) if a[1] else ""
            lines.append(p + "%s%s = %s" % (names(a[0]), ann, erg_expr(a[2], names)))
        elif t == S_IF:
            if a[2]:
                lines.append(p + "if! %s:" % erg_expr(a[0], names))
                lines.append(p + "    do!:")
                blk(a[1], ind + 2)
                lines.append(p + "    do!:")
                blk(a[3], ind + 2)
            else:
                lines.append(p + "if! %s, do!:" % erg_expr(a[0], names))
                blk(a[1], ind + 1)
        elif t == S_FOR:
            lines.append(p + "for! %s, %s =>" % (erg_expr(a[1], names), names(a[0])))
            blk(a[2], ind + 1)
        elif t == S_WHILE:
            lines.append(p + "while! do! %s, do!:" % erg_expr(a[0], names))
            blk(a[1], ind + 1)
        elif t == S_MUTDEF:
            lines.append(p + "%s = !%s" % (names(a[0]), erg_op(a[1], names)))
        elif t == S_INC:
            lines.append(p + "%s.inc!()" % names(a[0]))
        elif t == S_UPDATE:
            lines.append(p + "%s.update!(%s -> %s)" % (names(a[0]), names(a[1]), erg_expr(a[2], names)))
        elif t == S_FUN:
            ps = []
            for pid, ty, default in a[2]:
                ps.append("%s: %s%s" % (names(pid), erg_ty(ty), " := %s" % erg_op(default, names) if default is not None else ""))
            ret = "" if a[1] else ": %s" % erg_ty(a[3])
            lines.append(p + "%s(%s)%s =" % (names(a[0]), ", ".join(ps), ret))
            blk(a[4], ind + 1)
        elif t == S_LAM:
            ps = ", ".join("%s: %s" % (names(pid), erg_ty(ty)) for pid, ty in a[1])
            lines.append(p + "%s = (%s) -> %s" % (names(a[0]), ps, erg_expr(a[2], names)))
        elif t == S_PAT:
            ids = ", ".join(names(i) for i in a[1])
            lines.append(p + ("(%s) = %s" if a[0] == 0 else "[%s] = %s") % (ids, erg_expr(a[2], names)))
        elif t == S_PCALL:
            lines.append(p + "%s(%s)" % (names(a[0]), ", ".join(erg_expr(x, names) for x in a[1])))
        elif t == S_NPAT:
            lines.append(p + "%s = %s" % (erg_pat(a[0], names), erg_expr(a[1], names)))
        else:
            raise ValueError(t)
    blk(prog, 0)
    return "\n".join(lines) + "\n"


# ------------------------------------------------------------------------------------------------ printers: Python oracle
def py_float(bits):
    f = bits2f(bits)
    if f != f:
        return "float('nan')"
    if f in (float("inf"), float("-inf")):
        return "float('%sinf')" % ("-" if f < 0 else "")
    return "float.fromhex(%r)" % f.hex()


def py_expr(e):
    t, a = e.tag, e.args
    if t == E_LIT:
        k, v = a
        if k in (L_NAT, L_NEG):
            return "(%d)" % v
        if k == L_FLOAT:
            return py_float(v)
        if k == L_STR:
            return repr(v)
        if k == L_BOOL:
            return "True" if v else "False"
        return "None"
    if t == E_VAR:
        return "v%d" % a[0]
    if t == E_UN:
        return "(%s %s)" % (UNOPS[a[0]], py_expr(a[1]))
    if t == E_BIN:
        return "(%s %s %s)" % (py_expr(a[1]), ARITH[a[0]], py_expr(a[2]))
    if t == E_CMP:
        return "(%s %s %s)" % (py_expr(a[1]), CMP[a[0]], py_expr(a[2]))
    if t == E_LOGIC:
        return "(%s %s %s)" % (py_expr(a[1]), ["and", "or"][a[0]], py_expr(a[2]))
    if t == E_LIST:
        return "[" + ", ".join(py_expr(x) for x in a[0]) + "]"
    if t == E_TUPLE:
        return "(" + ", ".join(py_expr(x) for x in a[0]) + ",)"
    if t == E_INDEX:
        return "%s[%s]" % (py_expr(a[0]), py_expr(a[1]))
    if t == E_IF:
        return "(%s if %s else %s)" % (py_expr(a[1]), py_expr(a[0]), py_expr(a[2]))
    if t == E_CALL:
        args = [py_expr(x) for x in a[1]] + ["v%d=%s" % (p, py_expr(x)) for p, x in a[2]]
        return "v%d(%s)" % (a[0], ", ".join(args))
    if t == E_LEN:
        return "len(%s)" % py_expr(a[0])
    if t == E_ABS:
        return "abs(%s)" % py_expr(a[0])
    if t == E_RANGE:
        return "range(%s, %s)" % (py_expr(a[0]), py_expr(a[1]))
    raise ValueError(t)


def to_python(prog):
    lines = ["import sys", "sys.stdout.reconfigure(encoding='utf-8', newline='\\n')"]

    def blk(ss, ind, ret=False):
        if not ss:
            lines.append("    " * ind + "pass")
        for s in ss:
            st(s, ind)

    def st(s, ind):
        p = "    " * ind
        t, a = s.tag, s.args
        if t == S_EXPR:
            lines.append(p + "return " + py_expr(a[0]))
        elif t == S_PRINT:
            lines.append(p + "print(%s)" % ", ".join(py_expr(e) for e in a[0]))
        elif t == S_ASSERT:
            lines.append(p + "assert " + py_expr(a[0]))
        elif t == S_DEF:
            lines.append(p + "v%d = %s" % (a[0], py_expr(a[2])))
        elif t == S_IF:
            lines.append(p + "if %s:" % py_expr(a[0]))
            blk(a[1], ind + 1)
            if a[2]:
                lines.append(p + "else:")
                blk(a[3], ind + 1)
        elif t == S_FOR:
            lines.append(p + "for v%d in %s:" % (a[0], py_expr(a[1])))
            blk(a[2], ind + 1)
        elif t == S_WHILE:
            lines.append(p + "while %s:" % py_expr(a[0]))
            blk(a[1], ind + 1)
        elif t == S_MUTDEF:
            lines.append(p + "v%d = %s" % (a[0], py_expr(a[1])))
        elif t == S_INC:
            lines.append(p + "v%d = v%d + 1" % (a[0], a[0]))
        elif t == S_UPDATE:
            lines.append(p + "v%d = (lambda v%d: %s)(v%d)" % (a[0], a[1], py_expr(a[2]), a[0]))
        elif t == S_FUN:
            ps = ", ".join("v%d%s" % (pid, "=" + py_expr(d) if d is not None else "") for pid, ty, d in a[2])
            lines.append(p + "def v%d(%s):" % (a[0], ps))
            blk(a[4], ind + 1)
        elif t == S_LAM:
            lines.append(p + "v%d = lambda %s: %s" % (a[0], ", ".join("v%d" % pid for pid, ty in a[1]), py_expr(a[2])))
        elif t == S_PAT:
            ids = ", ".join("v%d" % i for i in a[1])
            lines.append(p + ("(%s,) = %s" if a[0] == 0 else "[%s] = %s") % (ids, py_expr(a[2])))
        elif t == S_PCALL:
            lines.append(p + "v%d(%s)" % (a[0], ", ".join(py_expr(x) for x in a[1])))
        elif t == S_NPAT:
            lines.append(p + "%s = %s" % (py_pat(a[0]), py_expr(a[1])))
        else:
            raise ValueError(t)
    blk(prog, 0)
    return "\n".join(lines) + "\n"


# ------------------------------------------------------------------------------------------------ printers: sx
def sx_expr(e):
    t, a, w = e.tag, e.args, e.w
    if t == E_LIT:
        return [t, w, a[0], a[1]]          # a Str payload stays a python str: sx_dump turns it into code points
    if t == E_VAR:
        return [t, w, a[0]]
    if t == E_UN:
        return [t, w, a[0], sx_expr(a[1])]
    if t in (E_BIN, E_CMP, E_LOGIC):
        return [t, w, a[0], sx_expr(a[1]), sx_expr(a[2])]
    if t in (E_LIST, E_TUPLE):
        return [t, w, [sx_expr(x) for x in a[0]]]
    if t == E_INDEX:
        return [t, w, sx_expr(a[0]), sx_expr(a[1])]
    if t == E_IF:
        return [t, w, sx_expr(a[0]), sx_expr(a[1]), sx_expr(a[2])]
    if t == E_CALL:
        return [t, w, a[0], [sx_expr(x) for x in a[1]], [[p, sx_expr(x)] for p, x in a[2]]]
    if t in (E_LEN, E_ABS):
        return [t, w, sx_expr(a[0])]
    if t == E_RANGE:
        return [t, w, sx_expr(a[0]), sx_expr(a[1])]
    raise ValueError(t)


def sx_stmt(s):
    t, a = s.tag, s.args
    if t in (S_EXPR, S_ASSERT):
        return [t, sx_expr(a[0])]
    if t == S_PRINT:
        return [t, [sx_expr(e) for e in a[0]]]
    if t == S_DEF:
        return [t, a[0], a[1], sx_expr(a[2])]
    if t == S_IF:
        return [t, sx_expr(a[0]), [sx_stmt(x) for x in a[1]], a[2], [sx_stmt(x) for x in a[3]]]
    if t == S_FOR:
        return [t, a[0], sx_expr(a[1]), [sx_stmt(x) for x in a[2]]]
    if t == S_WHILE:
        return [t, sx_expr(a[0]), [sx_stmt(x) for x in a[1]]]
    if t == S_MUTDEF:
        return [t, a[0], sx_expr(a[1])]
    if t == S_INC:
        return [t, a[0]]
    if t == S_UPDATE:
        return [t, a[0], a[1], sx_expr(a[2])]
    if t == S_FUN:
        return [t, a[0], a[1], [[pid, ty_code(ty), [sx_expr(d)] if d is not None else []] for pid, ty, d in a[2]],
                ty_code(a[3]), [sx_stmt(x) for x in a[4]]]
    if t == S_LAM:
        return [t, a[0], [[pid, ty_code(ty)] for pid, ty in a[1]], sx_expr(a[2])]
    if t == S_PAT:
        return [t, a[0], list(a[1]), sx_expr(a[2])]
    if t == S_PCALL:
        return [t, a[0], [sx_expr(x) for x in a[1]]]
    if t == S_NPAT:
        return [t, clone(a[0]), sx_expr(a[1])]
    raise ValueError(t)


def to_sx(prog):
    return [sx_stmt(s) for s in prog]


def _str_payload(v):
    return v if isinstance(v, str) else "".join(chr(c) for c in v)


def ex_from_sx(x):
    t, w = x[0], x[1]
    a = x[2:]
    if t == E_LIT:
        v = _str_payload(a[1]) if a[0] == L_STR else a[1]
        return Ex(t, [a[0], v], None, w=w)
    if t == E_VAR:
        return Ex(t, [a[0]], None, w=w)
    if t == E_UN:
        return Ex(t, [a[0], ex_from_sx(a[1])], None, w=w)
    if t in (E_BIN, E_CMP, E_LOGIC):
        return Ex(t, [a[0], ex_from_sx(a[1]), ex_from_sx(a[2])], None, w=w)
    if t in (E_LIST, E_TUPLE):
        return Ex(t, [[ex_from_sx(y) for y in a[0]]], None, w=w)
    if t in (E_INDEX, E_RANGE):
        return Ex(t, [ex_from_sx(a[0]), ex_from_sx(a[1])], None, w=w)
    if t == E_IF:
        return Ex(t, [ex_from_sx(a[0]), ex_from_sx(a[1]), ex_from_sx(a[2])], None, w=w)
    if t == E_CALL:
        return Ex(t, [a[0], [ex_from_sx(y) for y in a[1]], [[p, ex_from_sx(y)] for p, y in a[2]]], None, w=w)
    if t in (E_LEN, E_ABS):
        return Ex(t, [ex_from_sx(a[0])], None, w=w)
    raise ValueError(t)


def st_from_sx(x):
    t, a = x[0], x[1:]
    if t in (S_EXPR, S_ASSERT):
        return St(t, [ex_from_sx(a[0])])
    if t == S_PRINT:
        return St(t, [[ex_from_sx(e) for e in a[0]]])
    if t == S_DEF:
        return St(t, [a[0], a[1], ex_from_sx(a[2])])
    if t == S_IF:
        return St(t, [ex_from_sx(a[0]), [st_from_sx(y) for y in a[1]], a[2], [st_from_sx(y) for y in a[3]]])
    if t == S_FOR:
        return St(t, [a[0], ex_from_sx(a[1]), [st_from_sx(y) for y in a[2]]])
    if t == S_WHILE:
        return St(t, [ex_from_sx(a[0]), [st_from_sx(y) for y in a[1]]])
    if t == S_MUTDEF:
        return St(t, [a[0], ex_from_sx(a[1])])
    if t == S_INC:
        return St(t, [a[0]])
    if t == S_UPDATE:
        return St(t, [a[0], a[1], ex_from_sx(a[2])])
    if t == S_FUN:
        return St(t, [a[0], a[1], [[p[0], code_ty(p[1]), ex_from_sx(p[2][0]) if p[2] else None] for p in a[2]],
                      code_ty(a[3]), [st_from_sx(y) for y in a[4]]])
    if t == S_LAM:
        return St(t, [a[0], [[p[0], code_ty(p[1])] for p in a[1]], ex_from_sx(a[2])])
    if t == S_PAT:
        return St(t, [a[0], list(a[1]), ex_from_sx(a[2])])
    if t == S_PCALL:
        return St(t, [a[0], [ex_from_sx(y) for y in a[1]]])
    if t == S_NPAT:
        return St(t, [clone(a[0]), ex_from_sx(a[1])])
    raise ValueError(t)


def from_sx(x):
    return [st_from_sx(s) for s in x]


def to_json(prog):
    """json-serialisable form of to_sx (Str payloads as python strings)"""
    return to_sx(prog)


# ------------------------------------------------------------------------------------------------ traversal, shrinking
def sub_exprs(e):
    out = []
    for x in e.args:
        if isinstance(x, Ex):
            out.append(x)
        elif isinstance(x, list):
            for y in x:
                if isinstance(y, Ex):
                    out.append(y)
                elif isinstance(y, list):
                    out += [z for z in y if isinstance(z, Ex)]
    return out


def walk_exprs(prog, f):
    def we(e):
        f(e)
        for x in sub_exprs(e):
            we(x)

    def ws(s):
        for x in s.args:
            if isinstance(x, Ex):
                we(x)
            elif isinstance(x, list):
                for y in x:
                    if isinstance(y, Ex):
                        we(y)
                    elif isinstance(y, St):
                        ws(y)
                    elif isinstance(y, list):
                        for z in y:
                            if isinstance(z, Ex):
                                we(z)
    for s in prog:
        ws(s)


def size(prog):
    n = [0]

    def f(e):
        n[0] += 1
    walk_exprs(prog, f)
    return n[0]


def features(prog):
    out = set()

    def f(e):
        if e.tag == E_LIT:
            k, v = e.args
            out.add("lit:" + ["Nat", "NegInt", "Float", "Str", "Bool", "None"][k])
            if k == L_NAT and v >= 2**31:
                out.add("lit:Nat>=2**31")
            if k == L_NAT and v >= 2**63:
                out.add("lit:Nat>=2**63")
            if k == L_FLOAT and v in (0, 1 << 63):
                out.add("lit:signed-zero")
            if k == L_STR and any(ord(c) > 127 for c in v):
                out.add("lit:Str-nonascii")
            if k == L_STR and any(c in "\"'\\" for c in v):
                out.add("lit:Str-quote/backslash")
        elif e.tag == E_UN:
            out.add("unary:" + UNOPS[e.args[0]])
        elif e.tag == E_BIN:
            out.add("bin:" + ARITH[e.args[0]])
        elif e.tag == E_CMP:
            out.add("cmp:" + CMP[e.args[0]])
        elif e.tag == E_LOGIC:
            out.add("logic:" + ["and", "or"][e.args[0]])
        else:
            out.add(["", "var", "", "", "", "", "list", "index", "if-expr", "call", "len", "abs", "range", "tuple"][e.tag])
    walk_exprs(prog, f)

    def ws(ss):
        for s in ss:
            out.add("stmt:" + ["expr", "print", "assert", "def", "if!", "for!", "while!", "mutdef", "inc!", "update!", "fun", "lambda",
                               "pattern", "proc-call", "nested-pattern"][s.tag])
            if s.tag == S_NPAT and "[1]" in repr(s.args[0]):
                out.add("pattern:discard")
            if s.tag == S_FUN and s.args[1]:
                out.add("stmt:proc")
            for x in s.args:
                if isinstance(x, list) and x and isinstance(x[0], St):
                    ws(x)
    ws(prog)
    return out


def default_lit(e):
    """a literal to replace e by (shrinking): by wrap code / static type"""
    ty = e.ty
    if ty is None:
        ty = {1: NAT, 2: INT, 3: FLOAT, 4: STR, 5: BOOL}.get(e.w)
    if e.tag in (E_CMP, E_LOGIC) or (e.tag == E_UN and e.args[0] == UN_NOT):
        ty = BOOL
    if ty == NAT:
        return Ex(E_LIT, [L_NAT, 1], NAT)
    if ty == INT:
        return Ex(E_LIT, [L_NEG, -1], INT)
    if ty == FLOAT:
        return Ex(E_LIT, [L_FLOAT, f2bits(1.5)], FLOAT)
    if ty == STR:
        return Ex(E_LIT, [L_STR, "a"], STR)
    if ty == BOOL:
        return Ex(E_LIT, [L_BOOL, 1], BOOL)
    return None


def clone(x):
    if isinstance(x, Ex):
        return Ex(x.tag, [clone(y) for y in x.args], x.ty, x.guard, w=x.w, enum=x.enum, sguard=x.sguard)
    if isinstance(x, St):
        return St(x.tag, [clone(y) for y in x.args])
    if isinstance(x, list):
        return [clone(y) for y in x]
    return x


def _stmt_lists(prog):
    """all statement lists (the program itself and nested blocks), as (owner_list) references"""
    out = [prog]

    def ws(ss):
        for s in ss:
            for x in s.args:
                if isinstance(x, list) and x and isinstance(x[0], St):
                    out.append(x)
                    ws(x)
    ws(prog)
    return out


def _expr_slots(prog):
    """(container, index) pairs at which an Ex sits"""
    out = []

    def visit(container):
        for i, x in enumerate(container):
            if isinstance(x, Ex):
                out.append((container, i))
                visit(x.args)
            elif isinstance(x, St):
                visit(x.args)
            elif isinstance(x, list):
                visit(x)
    visit(prog)
    return out


def shrink(prog, fails, budget=250):
    """greedy: (1) delete statements (any nesting level), (2) replace a block statement by its body,
    (3) replace sub-expressions by a literal / by one of their operands; keep a candidate when fails(candidate)"""
    cur = clone(prog)
    tests = [0]

    def attempt(cand):
        if tests[0] >= budget:
            return False
        tests[0] += 1
        try:
            return bool(fails(cand))
        except Exception:
            return False
    progress = True
    while progress and tests[0] < budget:
        progress = False
        # 1 delete statements
        k = 0
        while True:
            lists = _stmt_lists(cur)
            flat = [(li, si) for li, l in enumerate(lists) for si in range(len(l))]
            if k >= len(flat):
                break
            li, si = flat[k]
            cand = clone(cur)
            cl = _stmt_lists(cand)[li]
            if len(cl) == 1 and li != 0:
                k += 1
                continue
            del cl[si]
            if cand and attempt(cand):
                cur = cand
                progress = True
            else:
                k += 1
        # 2 hoist bodies of if!/for! into the enclosing list
        k = 0
        while True:
            lists = _stmt_lists(cur)
            flat = [(li, si) for li, l in enumerate(lists) for si, s in enumerate(l) if s.tag in (S_IF, S_FOR)]
            if k >= len(flat):
                break
            li, si = flat[k]
            cand = clone(cur)
            cl = _stmt_lists(cand)[li]
            s = cl[si]
            body = s.args[1] if s.tag == S_IF else s.args[2]
            cl[si:si + 1] = body
            if attempt(cand):
                cur = cand
                progress = True
            else:
                k += 1
        # 3 simplify expressions
        k = 0
        while True:
            slots = _expr_slots(cur)
            if k >= len(slots):
                break
            c, i = slots[k]
            e = c[i]
            repls = []
            if e.tag != E_LIT:
                d = default_lit(e)
                if d is not None:
                    repls.append(d)
                repls += [x for x in sub_exprs(e) if x.w == e.w]
            elif e.args[0] == L_STR and len(e.args[1]) > 1:
                repls.append(Ex(E_LIT, [L_STR, e.args[1][:len(e.args[1]) // 2]], e.ty, w=e.w))
            done = False
            for rpl in repls:
                cand = clone(cur)
                cs = _expr_slots(cand)
                cc, ci = cs[k]
                cc[ci] = clone(rpl)
                if attempt(cand):
                    cur = cand
                    progress = True
                    done = True
                    break
            if not done:
                k += 1
    return cur
