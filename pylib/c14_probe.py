"""Run BY EACH TARGET INTERPRETER (3.7 .. 3.11).  Two modes:

  probe                      -> one JSON object on stdout: the interpreter's own opcode tables
  dump <listfile>            -> for every .pyc named in <listfile> (one path per line; "path<TAB>srcpath"),
                                one JSON line per code object (recursively through co_consts) with the raw
                                fields, dis.stack_effect for exactly the (opcode, arg) pairs that occur, and the
                                interpreter's own view (dis.get_instructions, PyCode_Addr2Line) as reference.

Only the standard library of the running interpreter is used; nothing here is shared with the Coq model.
"""
import dis
import json
import marshal
import sys

VER = sys.version_info[:2]
EXT = dis.opmap["EXTENDED_ARG"]


def probe():
    caches = {}
    if VER >= (3, 11):
        caches = {op: n for op, n in enumerate(dis._inline_cache_entries) if n}
    out = {
        "version": list(sys.version_info[:3]),
        "opmap": dis.opmap,
        "have_argument": dis.HAVE_ARGUMENT,
        "extended_arg": EXT,
        "hasjrel": sorted(dis.hasjrel), "hasjabs": sorted(dis.hasjabs),
        "hasconst": sorted(dis.hasconst), "hasname": sorted(dis.hasname), "haslocal": sorted(dis.haslocal),
        "hasfree": sorted(dis.hasfree), "hascompare": sorted(dis.hascompare),
        "ncmp": len(dis.cmp_op),
        "caches": caches,
        "stack_effect_has_jump": VER >= (3, 8),
    }
    # arg-independent part of dis.stack_effect (arg 0 for opcodes with an argument), informational + 3.7 split check
    se = {}
    for name, op in dis.opmap.items():
        se[name] = effect(op, 0)
    out["effect_arg0"] = se
    json.dump(out, sys.stdout)


def effect(op, arg):
    """(nojump, jump, max) as given by this interpreter's dis.stack_effect; None when it raises"""
    a = arg if op >= dis.HAVE_ARGUMENT else None
    try:
        m = dis.stack_effect(op, a)
    except ValueError:
        return None
    if VER >= (3, 8):
        return [dis.stack_effect(op, a, jump=False), dis.stack_effect(op, a, jump=True), m]
    return [None, None, m]


def units(code):
    """logical instructions as the evaluation loop sees them: (start, opoff, op, arg) with EXTENDED_ARG folded"""
    out = []
    ext = 0
    start = None
    i = 0
    n = len(code)
    while i + 1 < n:
        op = code[i]
        arg = code[i + 1] | ext
        if start is None:
            start = i
        if op == EXT:
            ext = arg << 8
            i += 2
            continue
        out.append((start, i, op, arg))
        ext = 0
        start = None
        i += 2
        if VER >= (3, 11):
            i += 2 * dis._inline_cache_entries[op]
    return out


def addr2line_safe(co, tab):
    """is it safe to call the C decoder on this table (it does not bounds-check malformed input)?"""
    if VER < (3, 10):
        return True
    if VER == (3, 10):
        if len(tab) % 2:
            return False
        return len(tab) == 0 or tab[-2] != 0
    # 3.11: entries start at bytes with bit 7 set (the first byte is taken as a head regardless); codes 13/14 read a varint
    i = 0
    n = len(tab)
    first = True
    while i < n:
        b = tab[i]
        if first or b & 128:
            first = False
            code = (b >> 3) & 15
            if code in (13, 14):
                j = i + 1
                while True:
                    if j >= n:
                        return False
                    if not (tab[j] & 64):
                        break
                    j += 1
        i += 1
    return True


def dump_code(co, path, src, qual, out, anc=()):
    code = co.co_code
    tab = co.co_linetable if VER >= (3, 10) else co.co_lnotab
    us = units(code)
    pairs = sorted(set((op, arg) for (_, _, op, arg) in us))
    effs = []
    for op, arg in pairs:
        e = effect(op, arg)
        if e is not None:
            effs.append([op, arg] + e)
    # the interpreter's own decoding: dis
    ref_instrs = []
    try:
        for ins in dis.get_instructions(co):
            tgt = -1
            if ins.opcode in dis.hasjrel or ins.opcode in dis.hasjabs:
                tgt = ins.argval
            ref_instrs.append([ins.offset, ins.opcode, -1 if ins.arg is None else ins.arg, tgt])
        dis_err = None
    except Exception as e:  # dis itself chokes on out-of-range indices: that is an observation, not an error here
        dis_err = "%s: %s" % (type(e).__name__, e)
        ref_instrs = None
    # the interpreter's own line lookup (what tracebacks use)
    ref_lines = None
    if addr2line_safe(co, tab):
        import ctypes
        f = ctypes.pythonapi.PyCode_Addr2Line
        f.argtypes = [ctypes.py_object, ctypes.c_int]
        f.restype = ctypes.c_int
        ref_lines = [[opoff, f(co, opoff)] for (_, opoff, _, _) in us]
    if VER >= (3, 11):
        nlocalsplus = len(co.co_varnames) + len([c for c in co.co_cellvars if c not in co.co_varnames]) + len(co.co_freevars)
        # 3.11: LOAD_FAST/STORE_FAST/LOAD_DEREF/... all index the frame's localsplus array
        nfreeidx = nlocalsplus
        nlocalidx = nlocalsplus
        exc = len(co.co_exceptiontable)
    else:
        nfreeidx = len(co.co_cellvars) + len(co.co_freevars)
        nlocalidx = len(co.co_varnames)
        exc = 0
    rec = {
        "pyc": path, "src": src, "qual": qual, "name": co.co_name, "filename": co.co_filename, "ancestors": list(anc),
        "code": list(code), "stacksize": co.co_stacksize, "nconsts": len(co.co_consts), "nnames": len(co.co_names),
        "nlocals": nlocalidx, "co_nlocals": co.co_nlocals, "nfreeidx": nfreeidx,
        "firstlineno": co.co_firstlineno, "linetable": list(tab), "exclen": exc, "effects": effs, "flags": co.co_flags,
        "ref_instrs": ref_instrs, "dis_error": dis_err, "ref_lines": ref_lines,
    }
    out.write(json.dumps(rec) + "\n")
    k = 0
    for c in co.co_consts:
        if hasattr(c, "co_code"):
            dump_code(c, path, src, qual + [k], out, tuple(anc) + (co.co_name,))
        k += 1


def dump(listfile):
    out = sys.stdout
    for line in open(listfile):
        line = line.rstrip("\n")
        if not line:
            continue
        path, _, src = line.partition("\t")
        try:
            data = open(path, "rb").read()
            co = marshal.loads(data[16:])
        except Exception as e:
            out.write(json.dumps({"pyc": path, "src": src, "load_error": "%s: %s" % (type(e).__name__, e)}) + "\n")
            continue
        dump_code(co, path, src, [], out)


def fuzzlines(jsonfile):
    """model validation on arbitrary line tables: [[firstlineno, [bytes], [addr, ...]], ...] -> PyCode_Addr2Line per addr
    (None where the C decoder cannot be called safely).  Needs code.replace (3.8+)."""
    import ctypes
    f = ctypes.pythonapi.PyCode_Addr2Line
    f.argtypes = [ctypes.py_object, ctypes.c_int]
    f.restype = ctypes.c_int
    base = (lambda: 0).__code__
    out = []
    for first, tab, addrs in json.load(open(jsonfile)):
        tab = bytes(tab)
        n = (max(addrs) + 2) if addrs else 2
        kw = {"co_code": bytes([9, 0]) * (n // 2 + 1), "co_firstlineno": first}
        kw["co_linetable" if VER >= (3, 10) else "co_lnotab"] = tab
        co = base.replace(**kw)
        if not addr2line_safe(co, tab):
            out.append(None)
        else:
            out.append([f(co, a) for a in addrs])
    json.dump(out, sys.stdout)


def pycompile(listfile):
    """compile python sources with this interpreter's own compiler: lines 'src<TAB>dst'"""
    import py_compile
    for line in open(listfile):
        src, _, dst = line.rstrip("\n").partition("\t")
        try:
            py_compile.compile(src, cfile=dst, doraise=True)
        except Exception:
            pass


if __name__ == "__main__":
    if sys.argv[1] == "probe":
        probe()
    elif sys.argv[1] == "fuzzlines":
        fuzzlines(sys.argv[2])
    elif sys.argv[1] == "pycompile":
        pycompile(sys.argv[2])
    else:
        dump(sys.argv[2])
