"""vp.py setup: build everything the checks need from files on disk (offline)."""
import os
import sys
from lib.vplib import *


def main():
    ctx = Ctx("SETUP", "quick", 0)
    rc = 0
    # 1. Coq development (full .vo build)
    for theme in sorted(os.listdir(COQ)):
        td = os.path.join(COQ, theme)
        if not os.path.isdir(td):
            continue
        vs = [theme + "/" + f[:-2] + ".vo" for f in sorted(os.listdir(td)) if f.endswith(".v") and not f.startswith("Extract")]
        if not vs:
            continue
        p = coq_make(vs, timeout=3000)
        ctx.log("coq theme %s rc=%d" % (theme, p.returncode))
        if p.returncode != 0:
            print((p.stderr + p.stdout)[-1500:])
            rc += 1
    # 2. harness crates + erg binary
    for pkg in sorted(os.listdir(os.path.join(VERIF, "harness"))):
        if os.path.exists(os.path.join(VERIF, "harness", pkg, "Cargo.toml")):
            try:
                ctx.harness(pkg)
            except Exception as e:
                print(e)
                rc = 1
    for kw in (dict(), dict(features=[])):
        try:
            ctx.erg_bin(**kw)
        except Exception as e:
            print(e)
            rc = 1
    # release builds used by C04 (wrapping arithmetic) and C09 (release stack budget)
    for pkg in ("consteval", "parsedepth"):
        try:
            ctx.harness(pkg, release=True)
        except Exception as e:
            print(e)
            rc += 1
    # 3. extracted models
    for theme in sorted(os.listdir(COQ)):
        if os.path.exists(os.path.join(COQ, theme, "Extract.v")):
            try:
                ctx.model(theme)
            except Exception as e:
                print(e)
                rc = 1
    print("setup done; problems=%d (a problem in one theme does not stop the others: every check rebuilds what it needs)" % rc)
    return 0
