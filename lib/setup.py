"""vp.py setup: build everything the checks need from files on disk (offline)."""
import os
import sys
from lib.vplib import *


def main():
    ctx = Ctx("SETUP", "quick", 0)
    rc = 0
    # 1. Coq development (full .vo build)
    with Lock("coq"):
        ensure_coq_makefile()
        p = sh(["timeout", "5400", "make", "-j16", "-k"], cwd=COQ)
        ctx.log("coq make all rc=%d" % p.returncode)
        if p.returncode != 0:
            print((p.stderr + p.stdout)[-3000:])
            rc = 1
    # 2. harness crates + erg binary
    for pkg in sorted(os.listdir(os.path.join(VERIF, "harness"))):
        if os.path.exists(os.path.join(VERIF, "harness", pkg, "Cargo.toml")):
            try:
                ctx.harness(pkg)
            except Exception as e:
                print(e)
                rc = 1
    try:
        ctx.erg_bin()
    except Exception as e:
        print(e)
        rc = 1
    # 3. extracted models
    for theme in sorted(os.listdir(COQ)):
        if os.path.exists(os.path.join(COQ, theme, "Extract.v")):
            try:
                ctx.model(theme)
            except Exception as e:
                print(e)
                rc = 1
    print("setup done; problems=%d (a problem in one theme does not stop the others: every check rebuilds what it needs)" % rc)
    return 0
