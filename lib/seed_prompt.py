"""prints the prompt for a seeded-breakage sub-agent: python3 lib/seed_prompt.py C21 [n]"""
import json, sys
pid = sys.argv[1]
tag = sys.argv[2] if len(sys.argv) > 2 else "a"
p = [json.loads(l) for l in open("/verif/properties.jsonl") if json.loads(l)["id"] == pid][0]
wt = "/tmp/seed-%s-%s" % (pid, tag)
print(f"""You are a careful adversarial engineer working on the erg compiler (Rust + Python runtime). Your scratch git worktree is {wt} — create it first with `git -C /repo worktree add {wt} HEAD` and work ONLY inside it (never edit /repo itself, never look into /verif — it is off limits for this task, your work must be independent of it). Offline sandbox: use `cargo ... --offline`; python interpreters are at /root/.pyenv/versions/*/bin/python3.X; run erg with `ERG_PATH={wt}/crates/erg_compiler`.

Here is a semantic property of erg that should hold:

  id: {p['id']} — {p['title']}
  statement: {p['statement']}
  quantifier: {p['quantifier']['text']}
  anchored in: {', '.join(p['anchors']['files'])}
  mechanisms: {'; '.join(m.get('name','') + ' @ ' + m.get('where','') for m in p['anchors'].get('mechanism', []))}

Task: produce ONE realistic change to erg (the kind of bug a maintainer could plausibly introduce in a refactor, optimisation or feature commit; 1–25 changed lines; no comments announcing it) that BREAKS this property while the project still compiles and the whole existing test suite still passes (`cd {wt} && cargo test --workspace --offline 2>&1 | tail -20` must show no failures: 230 tests). The breakage must need something specific to manifest — an unusual input, a particular multi-step sequence of operations, a boundary value, two cooperating sites that each look fine alone — NOT something ordinary use would expose at once. Then write a demonstration (a small Rust test file, a python script, or a shell script + .er program) that FAILS with your change and PASSES without it (verify both: use `git stash` / `git diff > patch.diff; git checkout .` inside your worktree to run it on the unchanged code, then re-apply).

Deliver in the directory {wt}/_seed/ : `patch.diff` (output of `git diff` for the source change only, applicable with `git apply` on the original HEAD), the demonstration file(s) with a `run_demo.sh` that exits 0 when the property holds and non-zero when it is violated (it may assume it is run from the worktree root with the patch applied or not), and `meta.json` = {{"property": "{pid}", "summary": one sentence, "needs": what specific input/sequence/boundary is needed to manifest it, "files_changed": [...], "test_suite": "N passed / 0 failed with patch", "demo_without_patch": "passes", "demo_with_patch": "fails"}}. Leave the worktree in place with the patch APPLIED (uncommitted) when you finish. Final message: the summary, the `needs`, and confirmation of the three runs (suite with patch, demo with patch, demo without patch). If after serious effort a change of that kind is impossible for this property (everything that breaks it also breaks a test), say so and explain the closest you got.""")
