"""prints the prompt for a seeded-breakage sub-agent: python3 lib/seed_prompt.py C21 [tag] [count]"""
import json, sys
pid = sys.argv[1]
tag = sys.argv[2] if len(sys.argv) > 2 else "a"
count = int(sys.argv[3]) if len(sys.argv) > 3 else 2
p = [json.loads(l) for l in open("/verif/properties.jsonl") if json.loads(l)["id"] == pid][0]
wt = "/tmp/seed-%s-%s" % (pid, tag)
dirs = " and ".join("%s/_seed/%d/" % (wt, i + 1) for i in range(count))
print(f"""You are a careful adversarial engineer working on the erg compiler (Rust + Python runtime). Your scratch git worktree is {wt} — create it first with `git -C /repo worktree add {wt} HEAD` and work ONLY inside it (never edit /repo itself, never look into /verif — it is off limits for this task, your work must be independent of it). Offline sandbox: use `cargo ... --offline`; python interpreters are at /root/.pyenv/versions/*/bin/python3.X (3.7.16, 3.8.18, 3.9.18, 3.10.13, 3.11.7 default, 3.12.1, 3.13.0; call them by absolute path); run erg with `ERG_PATH={wt}/crates/erg_compiler` so the runtime library of your worktree is used. The machine is shared and heavily loaded: builds are slow, use generous timeouts (the first `cargo test` build may take 15+ minutes); three tests are known to flake under load even on unmodified code (els test_tolerant_completion / test_completion_retrigger / test_dependents_check, occasionally exec_operators, exec_tuple): re-run a failing test alone before concluding anything.

Here is a semantic property of erg that should hold:

  id: {p['id']} — {p['title']}
  statement: {p['statement']}
  quantifier: {p['quantifier']['text']}
  anchored in: {', '.join(p['anchors']['files'])}
  mechanisms: {'; '.join(m.get('name','') + ' @ ' + m.get('where','') for m in p['anchors'].get('mechanism', []))}

Task: produce {count} different realistic change(s) to erg (each the kind of bug a maintainer could plausibly introduce in a refactor, optimisation or feature commit; 1–25 changed lines; no comments announcing it), each of which BREAKS this property while the project still compiles and the whole existing test suite still passes (`cd {wt} && cargo test --workspace --offline --no-fail-fast 2>&1 | grep -E "^test result|FAILED|failed" ` must show no real failures). Each breakage must need something specific to manifest — an unusual input, a particular multi-step sequence of operations, a boundary value, a particular target version, two cooperating sites that each look fine alone — NOT something ordinary use would expose at once. Make the changes different in kind from each other (different function / different mechanism). For each, write a demonstration (a shell script driving the erg binary on a small .er program, a python script, or a small Rust crate outside the workspace with path dependencies) that FAILS with your change and PASSES without it (verify both: `git diff > patch.diff; git checkout .` inside your worktree to run it on the unchanged code, then re-apply).

Deliver in {dirs}: `patch.diff` (output of `git diff` for the source change only, applicable with `git apply` on the original HEAD), the demonstration file(s) with a `run_demo.sh` that exits 0 when the property holds and non-zero when it is violated (run from the worktree root, patch applied or not; it must build what it needs from the worktree), and `meta.json` = {{"property": "{pid}", "summary": one sentence, "needs": what specific input/sequence/boundary is needed to manifest it, "files_changed": [...], "test_suite": "N passed / 0 failed with patch", "demo_without_patch": "passes", "demo_with_patch": "fails"}}. Leave the worktree with NO patch applied (clean `git status` apart from _seed/) when you finish. Final message: for each change the summary, the `needs`, and confirmation of the three runs (suite with patch, demo with patch, demo without patch). If after serious effort a change of that kind is impossible (everything that breaks the property also breaks a test), say so and explain the closest you got.""")
