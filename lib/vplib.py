"""Shared machinery for the /verif checks.

A check module (checks/cXX.py) exposes `run(ctx)`.  It uses the Ctx below to
 * build the Rust harness / the erg binary from /repo's *current* working tree
 * (re)generate coq/gen tables, build the property's Coq targets, audit axioms
 * run the extracted Gallina model on cases (s-expression wire format)
 * record coverage, violations, known findings
Ctx.finish() writes evidence/<id>.json, prints VIOLATION / KNOWN-FINDING lines and
returns the exit status.
"""
import fcntl
import hashlib
import json
import os
import random
import re
import shutil
import subprocess
import sys
import time

VERIF = os.path.dirname(os.path.dirname(os.path.abspath(__file__)))
REPO = os.environ.get("VERIF_REPO", "/repo")
# VERIF_REPO=/tmp/some-worktree runs a check against a scratch copy of erg (mutation testing) without touching
# /repo, /verif/coq/gen, /verif/evidence or /verif/replays: everything mutable then lives under /tmp/vcache-<hash>.
ALT = os.path.realpath(REPO) != "/repo"
if ALT:
    CACHE = "/tmp/vcache-" + hashlib.sha1(os.path.realpath(REPO).encode()).hexdigest()[:8]
    COQ = os.path.join(CACHE, "coq")
    OUT = CACHE
else:
    CACHE = os.path.join(VERIF, ".cache")
    COQ = os.path.join(VERIF, "coq")
    OUT = VERIF
GUARD = "erg_verif"
PY_VERSIONS = {
    "3.7": "/root/.pyenv/versions/3.7.16/bin/python3.7",
    "3.8": "/root/.pyenv/versions/3.8.18/bin/python3.8",
    "3.9": "/root/.pyenv/versions/3.9.18/bin/python3.9",
    "3.10": "/root/.pyenv/versions/3.10.13/bin/python3.10",
    "3.11": "/root/.pyenv/versions/3.11.7/bin/python3.11",
    "3.12": "/root/.pyenv/versions/3.12.1/bin/python3.12",
    "3.13": "/root/.pyenv/versions/3.13.0/bin/python3.13",
}
FORBIDDEN = re.compile(
    r"\b(Admitted|admit|Axiom|Axioms|Parameter|Parameters|Conjecture|Admit Obligations|"
    r"bypass_check|Unset Guard Checking|Unset Positivity Checking|Unset Universe Checking|"
    r"type-in-type|impredicative-set)\b")
# axioms a theorem may depend on (all declared by Coq's standard library)
AXIOM_ALLOW = {
    "functional_extensionality_dep",
    "FunctionalExtensionality.functional_extensionality_dep",
}


class FrameworkError(Exception):
    """The machinery itself is broken (cannot build, cannot run): exit 2."""


class TieBroken(Exception):
    """/repo compiles but the harness/translator no longer fits it: the model/code tie is broken.
    Reported as a violation with no-failing-input-found (the property is no longer shown to hold)."""


def sh(cmd, cwd=None, env=None, timeout=None, inp=None, check=False):
    e = dict(os.environ)
    if env:
        e.update(env)
    p = subprocess.run(cmd, cwd=cwd, env=e, timeout=timeout, input=inp,
                       stdout=subprocess.PIPE, stderr=subprocess.PIPE,
                       shell=isinstance(cmd, str), text=True, errors="replace")
    if check and p.returncode != 0:
        raise FrameworkError("command failed (%s): %s\n%s\n%s" % (p.returncode, cmd, p.stdout[-4000:], p.stderr[-4000:]))
    return p


class Lock:
    def __init__(self, name):
        os.makedirs(CACHE, exist_ok=True)
        self.path = os.path.join(CACHE, "lock-" + name)

    def __enter__(self):
        self.f = open(self.path, "w")
        fcntl.flock(self.f, fcntl.LOCK_EX)
        return self

    def __exit__(self, *a):
        fcntl.flock(self.f, fcntl.LOCK_UN)
        self.f.close()


# ---------------------------------------------------------------- s-expressions
def sx_dump(x):
    """python int / list (nested)  ->  text"""
    if isinstance(x, bool):
        return "1" if x else "0"
    if isinstance(x, int):
        return str(x)
    if isinstance(x, str):  # strings travel as lists of code points
        return "(" + " ".join(str(ord(c)) for c in x) + ")"
    if isinstance(x, bytes):
        return "(" + " ".join(str(c) for c in x) + ")"
    return "(" + " ".join(sx_dump(y) for y in x) + ")"


def sx_load(s):
    toks = re.findall(r"\(|\)|-?\d+", s)
    pos = 0

    def rd():
        nonlocal pos
        t = toks[pos]
        pos += 1
        if t == "(":
            out = []
            while toks[pos] != ")":
                out.append(rd())
            pos += 1
            return out
        return int(t)
    v = rd()
    return v


def sx_str(l):
    return "".join(chr(c) for c in l)


# ---------------------------------------------------------------- Ctx
class ProofStatus:
    def __init__(self):
        self.ok = True
        self.obligations = []      # theorem names in Props file(s)
        self.discharged = []
        self.broken = []           # (what, detail)
        self.assumptions = {}      # theorem -> list of axioms
        self.cmds = []

    def summary(self):
        return "; ".join("%s: %s" % b for b in self.broken)


class Ctx:
    def __init__(self, pid, tier, seed):
        self.pid = pid
        self.tier = tier
        self.seed = seed
        self.rng = random.Random(seed)
        self.t0 = time.time()
        self.violations = []       # dict(replay=..., no_input=bool, what=...)
        self.known_lines = []
        self.notes = []
        self.cov = {"evaluations": 0, "rule": "", "samples": [], "obligations": 0, "discharged": 0,
                    "checker_cmd": "", "trusted_base": [], "distribution": {}}
        self.nontrivial = set()
        self.assumptions = []
        self.level = "proof"
        self.proof = None
        self._known = None
        os.makedirs(CACHE, exist_ok=True)
        os.makedirs(os.path.join(OUT, "evidence"), exist_ok=True)
        os.makedirs(os.path.join(OUT, "replays"), exist_ok=True)
        if ALT:
            with Lock("coq"):
                sh(["rsync", "-a", "--delete", os.path.join(VERIF, "coq") + "/", COQ + "/"], check=True)

    # ---- logging
    def log(self, *a):
        print("[%s %6.1fs]" % (self.pid, time.time() - self.t0), *a, flush=True)

    @property
    def thorough(self):
        return self.tier == "thorough"

    def scale(self, quick, thorough):
        return thorough if self.thorough else quick

    # ---- builds
    def cargo_env(self):
        return {"CARGO_NET_OFFLINE": "true", "RUSTFLAGS": "--cfg %s --check-cfg cfg(%s)" % (GUARD, GUARD),
                "CARGO_TARGET_DIR": os.path.join(CACHE, "target"), "CARGO_TERM_COLOR": "never"}

    def harness(self, pkg, release=False, extra_rustflags=""):
        """cargo build of the crate /verif/harness/<pkg> (binary ergv-<pkg>) against /repo's working tree;
        all harness crates share one target dir, so the erg crates are compiled once; returns binary path"""
        d = os.path.join(VERIF, "harness", pkg)
        if ALT:
            hs = os.path.join(CACHE, "harness")
            sh(["rsync", "-a", "--delete", "--exclude", "Cargo.lock", os.path.join(VERIF, "harness") + "/", hs + "/"], check=True)
            d = os.path.join(hs, pkg)
            ct = open(os.path.join(d, "Cargo.toml")).read().replace('"/repo/', '"%s/' % os.path.realpath(REPO))
            open(os.path.join(d, "Cargo.toml"), "w").write(ct)
        lock = os.path.join(d, "Cargo.lock")
        # lock file always follows /repo's (it may change with the tree)
        src_lock = os.path.join(REPO, "Cargo.lock")
        env = self.cargo_env()
        env["CARGO_TARGET_DIR"] = os.path.join(CACHE, "target-h")
        if extra_rustflags:
            env["RUSTFLAGS"] += " " + extra_rustflags
        with Lock("cargo-h"):
            if not os.path.exists(lock):
                shutil.copy(src_lock, lock)
            cmd = ["cargo", "build", "--offline", "--quiet"] + (["--release"] if release else [])
            t = time.time()
            p = sh(cmd, cwd=d, env=env, timeout=3000)
            if p.returncode != 0:
                # retry once with a fresh copy of the lock file
                shutil.copy(src_lock, lock)
                p = sh(cmd, cwd=d, env=env, timeout=3000)
            if p.returncode != 0:
                if re.search(r"could not compile `(erg_|els)", p.stderr):
                    raise FrameworkError("/repo itself does not compile:\n%s" % p.stderr[-6000:])
                raise TieBroken("harness %s no longer builds against /repo (API it drives changed):\n%s" % (pkg, p.stderr[-3000:]))
            self.log("harness %s built in %.1fs" % (pkg, time.time() - t))
        return os.path.join(env["CARGO_TARGET_DIR"], "release" if release else "debug", "ergv-" + pkg)

    def erg_bin(self, release=False, features=None):
        """the erg CLI built from /repo's working tree (hooks on)"""
        env = self.cargo_env()
        tag = "erg" + ("-" + "-".join(features) if features is not None else "")
        env["CARGO_TARGET_DIR"] = os.path.join(CACHE, "target-" + tag)
        cmd = ["cargo", "build", "--offline", "--quiet", "--bin", "erg"] + (["--release"] if release else [])
        if features is not None:
            cmd += ["--no-default-features"] + (["--features", ",".join(features)] if features else [])
        with Lock("cargo-" + tag):
            t = time.time()
            p = sh(cmd, cwd=REPO, env=env, timeout=3000)
            if p.returncode != 0:
                raise FrameworkError("erg does not build:\n" + p.stderr[-6000:])
            self.log("erg built in %.1fs" % (time.time() - t))
        return os.path.join(env["CARGO_TARGET_DIR"], "release" if release else "debug", "erg")

    def erg_env(self):
        # python3 resolved directly (the pyenv shim adds >100 ms per call, seconds under load)
        return {"ERG_PATH": os.path.join(REPO, "crates", "erg_compiler"), "NO_COLOR": "1",
                "PATH": "/root/.pyenv/versions/3.11.7/bin:" + os.environ.get("PATH", "")}

    # ---- Coq
    def write_gen(self, name, text):
        """write coq/gen/<name>.v only if changed (keeps make's cache valid)"""
        p = os.path.join(COQ, "gen", name + ".v")
        old = open(p).read() if os.path.exists(p) else None
        if old != text:
            with open(p, "w") as f:
                f.write(text)
            self.log("gen/%s.v regenerated (changed)" % name)
        return p

    def coq(self, props_files, allow_axioms=(), timeout=1500):
        """Build the given Props_*.v (paths relative to coq/) with their dependencies,
        audit the development, run Print Assumptions on every theorem in them."""
        st = ProofStatus()
        self.proof = st
        if True:
            targets = [p[:-2] + ".vo" for p in props_files]
            st.cmds.append("cd coq && make -f Makefile.%s %s" % (targets[0].split("/")[0], " ".join(targets)))
            t = time.time()
            p = coq_make(targets, timeout=timeout)
            self.log("coq make %s: rc=%d in %.1fs" % (" ".join(targets), p.returncode, time.time() - t))
            thms = {}
            for pf in props_files:
                src = open(os.path.join(COQ, pf)).read()
                names = re.findall(r"^\s*(?:Theorem|Lemma|Corollary)\s+([A-Za-z0-9_']+)", src, re.M)
                thms[pf] = names
                st.obligations += names
            if p.returncode != 0:
                st.ok = False
                err = (p.stderr + p.stdout)
                m = re.search(r'File "([^"]+)", line (\d+), characters [^\n]*\n((?:.*\n){0,12})', err)
                where = "%s:%s %s" % (m.group(1), m.group(2), m.group(3).strip()[:600]) if m else err[-800:]
                st.broken.append(("coq-build", where))
                # which Props files still built?
                for pf in props_files:
                    vo = os.path.join(COQ, pf[:-2] + ".vo")
                    q = coq_make([pf[:-2] + ".vo"], question=True)
                    if os.path.exists(vo) and q.returncode == 0:
                        st.discharged += thms[pf]
            else:
                st.discharged = list(st.obligations)
            # forbidden constructs anywhere in the development (comments stripped)
            bad = audit_sources(props_files)
            self.cov["audited_files"] = coq_closure(props_files)
            if bad:
                st.ok = False
                st.broken.append(("forbidden-construct", "; ".join(bad[:5])))
            # Print Assumptions
            if p.returncode == 0 and st.obligations:
                q = os.path.join(CACHE, "assume")
                os.makedirs(q, exist_ok=True)
                f = os.path.join(q, "A_%s.v" % self.pid)
                lines = []
                for pf in props_files:
                    mod = "ErgV." + pf[:-2].replace("/", ".")
                    lines.append("Require Import %s." % mod)
                    for n in thms[pf]:
                        lines.append('Goal True. idtac "@@THM %s". exact I. Qed.' % n)
                        lines.append("Print Assumptions %s.%s." % (mod, n))
                open(f, "w").write("\n".join(lines) + "\n")
                r = sh(["timeout", "600", "coqc", "-noglob", "-Q", COQ, "ErgV", "-o", f + "o", f], cwd=q)
                st.cmds.append("coqc Print Assumptions <each theorem>")
                if r.returncode != 0:
                    st.ok = False
                    st.broken.append(("print-assumptions", (r.stderr + r.stdout)[-800:]))
                else:
                    cur = None
                    for line in r.stdout.splitlines():
                        m = re.match(r"@@THM (\S+)", line)
                        if m:
                            cur = m.group(1)
                            st.assumptions[cur] = []
                            continue
                        if cur is None or "Closed under the global context" in line or line.startswith("Axioms:"):
                            continue
                        m = re.match(r"^([A-Za-z_][\w.']*)\s*:", line)
                        if m:
                            st.assumptions[cur].append(m.group(1))
                    for n, axs in st.assumptions.items():
                        for a in axs:
                            base = a.split(".")[-1]
                            if a not in AXIOM_ALLOW and base not in AXIOM_ALLOW and a not in allow_axioms \
                                    and base not in allow_axioms and not a.startswith("PrimFloat") \
                                    and not a.startswith("Uint63") and not a.startswith("PrimInt63") \
                                    and not a.startswith("FloatOps") and not a.startswith("Sint63"):
                                st.ok = False
                                st.broken.append(("axiom", "%s depends on %s" % (n, a)))
        self.cov["obligations"] = len(st.obligations)
        self.cov["discharged"] = len(st.discharged) if st.ok else min(len(st.discharged), len(st.obligations) - 1 if st.broken else len(st.discharged))
        self.cov["checker_cmd"] = " && ".join(st.cmds)
        self.cov["theorems"] = list(st.obligations)
        self.cov["axioms_per_theorem"] = {k: v for k, v in st.assumptions.items() if v}
        if self.thorough and st.ok:
            self.coqchk(props_files)
        return st

    def coqchk(self, props_files):
        mods = ["ErgV." + pf[:-2].replace("/", ".") for pf in props_files]
        t = time.time()
        r = sh(["timeout", "1500", "coqchk", "-o", "-silent", "-Q", COQ, "ErgV"] + mods, cwd=COQ)
        self.log("coqchk rc=%d in %.1fs" % (r.returncode, time.time() - t))
        out = r.stdout + r.stderr
        self.cov["coqchk"] = out[-1500:]
        if r.returncode != 0:
            self.proof.ok = False
            self.proof.broken.append(("coqchk", out[-800:]))

    def model(self, theme):
        """extract coq/<theme>/Extract.v to OCaml and build the model runner; returns Model"""
        return Model(self, theme)

    def coq_eval(self, name, requires, exprs, timeout=600):
        """Evaluate Gallina expressions with vm_compute in one coqc call. Each expr must have a type that
        prints on one line reasonably; returns raw text chunks (one per expr)."""
        q = os.path.join(CACHE, "eval")
        os.makedirs(q, exist_ok=True)
        f = os.path.join(q, "E_%s_%s.v" % (self.pid, name))
        lines = ["Require Import %s." % r for r in requires]
        lines.append("Set Printing Width 100000. Set Printing Depth 100000.")
        for i, e in enumerate(exprs):
            lines.append('Goal True. idtac "@@CASE %d". exact I. Qed.' % i)
            lines.append("Eval vm_compute in (%s)." % e)
        open(f, "w").write("\n".join(lines) + "\n")
        r = sh(["timeout", str(timeout), "coqc", "-noglob", "-Q", COQ, "ErgV", "-o", f + "o", f], cwd=q)
        if r.returncode != 0:
            raise FrameworkError("coq_eval failed: " + (r.stderr + r.stdout)[-3000:])
        chunks = re.split(r"@@CASE \d+\n", r.stdout)[1:]
        return [c.strip() for c in chunks]

    # ---- coverage
    def count(self, key, n=1):
        d = self.cov["distribution"]
        d[key] = d.get(key, 0) + n

    def case(self, canon, nontrivial=True, sample=None):
        """register one explored case; canon is any hashable/serialisable canonical form"""
        self.cov["evaluations"] += 1
        if nontrivial:
            h = hashlib.sha1(json.dumps(canon, sort_keys=True, default=str).encode()).hexdigest()
            self.nontrivial.add(h)
        if sample is not None and len(self.cov["samples"]) < 6:
            self.cov["samples"].append(sample)

    # ---- known findings
    def known(self):
        if self._known is None:
            p = os.path.join(VERIF, "known_findings.json")
            self._known = json.load(open(p)) if os.path.exists(p) else []
            kd = os.path.join(VERIF, "known")
            if os.path.isdir(kd):
                for f in sorted(os.listdir(kd)):
                    if f.endswith(".json"):
                        try:
                            j = json.load(open(os.path.join(kd, f)))
                        except Exception:
                            continue
                        if isinstance(j, list):
                            self._known += [k for k in j if isinstance(k, dict)]
        return [k for k in self._known if isinstance(k, dict) and k.get("property") == self.pid and k.get("status") == "finding"]

    def known_finding(self, entry, what=None):
        line = "KNOWN-FINDING: property=%s %s" % (self.pid, what or entry.get("what", entry.get("id")))
        if line not in self.known_lines:
            self.known_lines.append(line)

    # ---- violations
    def violation(self, kind, what, case=None, impl=None, model=None, judge=None, theorem=None, no_input=False):
        n = len(self.violations)
        path = os.path.join(OUT, "replays", "%s-%d-%d.json" % (self.pid, self.seed, n))
        obj = {"property": self.pid, "kind": kind, "what": what, "case": case, "impl_observation": impl,
               "model_observation": model, "judge_verdict": judge, "theorem": theorem, "seed": self.seed,
               "tier": self.tier}
        with open(path, "w") as f:
            json.dump(obj, f, indent=1, default=str)
        self.violations.append({"replay": path, "no_input": no_input, "what": what})
        self.log("VIOLATION candidate:", kind, what[:300])

    def finish(self):
        wall = time.time() - self.t0
        cov = dict(self.cov)
        cov["distinct_nontrivial"] = len(self.nontrivial)
        if not cov["samples"]:
            cov["samples"] = ["(no case samples recorded)"]
        ev = {"property_id": self.pid, "tier": self.tier, "seed": self.seed, "level": self.level,
              "coverage": cov, "assumptions": self.assumptions, "wall_s": round(wall, 2),
              "violations": len(self.violations), "notes": self.notes,
              "known_findings_reported": self.known_lines}
        if not getattr(self, "no_evidence", False):
            with open(os.path.join(OUT, "evidence", self.pid + ".json"), "w") as f:
                json.dump(ev, f, indent=1, default=str)
        for l in self.known_lines:
            print(l)
        for v in self.violations[:5]:
            print("VIOLATION property=%s replay=%s%s" % (self.pid, v["replay"], " no-failing-input-found" if v["no_input"] else ""))
        if self.violations:
            return 1
        if getattr(self, "framework_error", False):
            return 2
        print("OK property=%s tier=%s evaluations=%d distinct_nontrivial=%d obligations=%d discharged=%d wall=%.1fs" % (
            self.pid, self.tier, cov["evaluations"], cov["distinct_nontrivial"], cov["obligations"], cov["discharged"], wall))
        return 0


def strip_coq_comments(s):
    out = []
    depth = 0
    i = 0
    while i < len(s):
        if s.startswith("(*", i):
            depth += 1
            i += 2
        elif s.startswith("*)", i) and depth > 0:
            depth -= 1
            i += 2
        else:
            if depth == 0:
                out.append(s[i])
            elif s[i] == "\n":
                out.append("\n")
            i += 1
    return "".join(out)


def coq_sources():
    out = []
    for root, dirs, files in os.walk(COQ):
        for f in files:
            if f.endswith(".v"):
                out.append(os.path.join(root, f))
    return sorted(out)


def coq_closure(rel_files):
    """the given coq/-relative .v files plus everything they (transitively) Require from ErgV"""
    seen = []
    todo = list(rel_files)
    while todo:
        f = todo.pop()
        if f in seen or not os.path.exists(os.path.join(COQ, f)):
            continue
        seen.append(f)
        txt = strip_coq_comments(open(os.path.join(COQ, f)).read())
        for m in re.finditer(r"From\s+ErgV\s+Require\s+(?:Import\s+|Export\s+)?(.*?)\.(?:\s|$)", txt, re.S):
            for name in m.group(1).split():
                todo.append(name.replace(".", "/") + ".v")
        for m in re.finditer(r"ErgV\.([A-Za-z_][\w.]*)", txt):
            todo.append(m.group(1).replace(".", "/") + ".v")
    return sorted(seen)


def audit_sources(rel_files=None):
    bad = []
    files = coq_sources() if rel_files is None else [os.path.join(COQ, f) for f in coq_closure(rel_files)]
    for f in files:
        txt = strip_coq_comments(open(f).read())
        # strings may mention words: drop string literals
        txt = re.sub(r'"[^"]*"', '""', txt)
        for i, line in enumerate(txt.splitlines(), 1):
            m = FORBIDDEN.search(line)
            if m:
                bad.append("%s:%d: %s" % (os.path.relpath(f, COQ), i, m.group(0)))
            if re.match(r"\s*(Variable|Variables|Hypothesis|Hypotheses|Context)\b", line):
                # allowed only inside a Section: checked coarsely by counting open sections
                pre = "\n".join(txt.splitlines()[:i])
                opens = len(re.findall(r"^\s*Section\s", pre, re.M))
                closes = len(re.findall(r"^\s*End\s", pre, re.M)) - len(re.findall(r"^\s*Module\s", pre, re.M))
                if opens - max(closes, 0) <= 0:
                    bad.append("%s:%d: %s outside a Section" % (os.path.relpath(f, COQ), i, line.strip()[:40]))
    return bad


def coq_make(targets, timeout=1500, quiet=True, question=False):
    """make the given coq/-relative .vo targets with a per-theme Makefile (Makefile.<Theme>, own dependency file)
    under a per-theme lock, so that themes do not block or disturb each other. The project of a theme lists the
    theme's own files plus the dependency closure of the targets."""
    theme = targets[0].split("/")[0]
    rels = [t[:-3] + ".v" for t in targets]
    files = set(coq_closure(rels))
    td = os.path.join(COQ, theme)
    for f in sorted(os.listdir(td)):
        if f.endswith(".v") and not f.startswith("Extract"):
            files.add(theme + "/" + f)
    files = sorted(f for f in files if not os.path.basename(f).startswith("Extract"))
    txt = "-Q . ErgV\n-arg -w -arg -notation-overridden,-deprecated-hint-without-locality,-deprecated-instance-without-locality\n" + "\n".join(files) + "\n"
    proj = "_CoqProject." + theme
    mk = "Makefile." + theme
    with Lock("coq-" + theme):
        old = open(os.path.join(COQ, proj)).read() if os.path.exists(os.path.join(COQ, proj)) else None
        if old != txt or not os.path.exists(os.path.join(COQ, mk)):
            open(os.path.join(COQ, proj), "w").write(txt)
            sh(["coq_makefile", "-f", proj, "-o", mk], cwd=COQ, check=True)
        cmd = ["timeout", str(timeout), "make", "-f", mk] + (["-q"] if question else ["-j8"]) + list(targets)
        if quiet:
            return sh(cmd, cwd=COQ)
        return subprocess.run(cmd, cwd=COQ)


def ensure_coq_makefile():
    """(re)generate coq/_CoqProject + Makefile when the set of .v files changed (caller holds the coq lock)"""
    files = []
    for f in coq_sources():
        rel = os.path.relpath(f, COQ)
        if os.path.basename(rel).startswith("Extract"):
            continue   # extraction entry points are compiled separately
        files.append(rel)
    txt = "-Q . ErgV\n-arg -w -arg -notation-overridden,-deprecated-hint-without-locality,-deprecated-instance-without-locality\n" + "\n".join(files) + "\n"
    proj = os.path.join(COQ, "_CoqProject")
    old = open(proj).read() if os.path.exists(proj) else None
    if old != txt or not os.path.exists(os.path.join(COQ, "Makefile")):
        open(proj, "w").write(txt)
        sh(["coq_makefile", "-f", "_CoqProject", "-o", "Makefile"], cwd=COQ, check=True)


class Model:
    """extracted Gallina model: coq/<Theme>/Extract.v must define `run : sx -> sx` and extract it to model.ml"""

    def __init__(self, ctx, theme):
        self.ctx = ctx
        self.theme = theme
        d = os.path.join(CACHE, "extract", theme)
        os.makedirs(d, exist_ok=True)
        self.bin = os.path.join(d, "modelrun")
        src = os.path.join(COQ, theme, "Extract.v")
        if True:
            # dependencies of Extract.v: everything it Requires from ErgV must be built
            txt = open(src).read()
            rel = os.path.relpath(src, COQ)
            targets = sorted(f[:-2] + ".vo" for f in coq_closure([rel]) if f != rel)
            own = [t for t in targets if t.startswith(theme + "/")] + [t for t in targets if not t.startswith(theme + "/")]
            p = coq_make(own, timeout=1500)
            if p.returncode != 0:
                raise FrameworkError("model %s does not build: %s" % (theme, (p.stderr + p.stdout)[-3000:]))
            stamp = os.path.join(d, "stamp")
            h = hashlib.sha1()
            for t in targets:
                h.update(open(os.path.join(COQ, t), "rb").read())
            h.update(txt.encode())
            h.update(open(os.path.join(VERIF, "extract", "driver.ml"), "rb").read())
            key = h.hexdigest()
            if not (os.path.exists(stamp) and open(stamp).read() == key and os.path.exists(self.bin)):
                t0 = time.time()
                sh(["timeout", "900", "coqc", "-noglob", "-Q", COQ, "ErgV", "-o", os.path.join(d, "Extract.vo"), src], cwd=d, check=True)
                shutil.copy(os.path.join(VERIF, "extract", "driver.ml"), os.path.join(d, "driver.ml"))
                if os.path.exists(os.path.join(d, "model.mli")):
                    os.remove(os.path.join(d, "model.mli"))   # avoid interface/impl ordering issues
                sh(["ocamlfind", "ocamlopt", "-w", "-a", "-package", "zarith", "-linkpkg",
                    "model.ml", "driver.ml", "-o", "modelrun"], cwd=d, check=True)
                open(stamp, "w").write(key)
                ctx.log("model %s extracted+compiled in %.1fs" % (theme, time.time() - t0))

    def run(self, cases, timeout=1200):
        """cases: list of python values (ints / nested lists / str); returns list of decoded results"""
        inp = "\n".join(sx_dump(c) for c in cases) + "\n"
        p = sh(["bash", "-c", "ulimit -s unlimited 2>/dev/null; exec %s" % self.bin], inp=inp, timeout=timeout)
        if p.returncode != 0:
            raise FrameworkError("model runner %s failed: %s" % (self.theme, p.stderr[-2000:]))
        out = [sx_load(l) for l in p.stdout.splitlines() if l.strip()]
        if len(out) != len(cases):
            raise FrameworkError("model runner %s: %d results for %d cases" % (self.theme, len(out), len(cases)))
        return out


def main(argv):
    import argparse
    import importlib
    ap = argparse.ArgumentParser()
    ap.add_argument("cmd", choices=["check", "replay", "setup", "coqmake"])
    ap.add_argument("pid", nargs="?")
    ap.add_argument("rest", nargs="*")
    ap.add_argument("--tier", default=os.environ.get("VERIF_TIER", "quick"))
    ap.add_argument("--replay", default=None)
    a = ap.parse_args(argv)
    sys.path.insert(0, VERIF)
    if a.cmd == "setup":
        from lib import setup
        return setup.main()
    if a.cmd == "coqmake":
        # python3 vp.py coqmake Graph/Proofs.vo [more targets]: make under the shared coq lock
        p = coq_make([a.pid] + a.rest, timeout=3000, quiet=False)
        return p.returncode
    seed = int(os.environ.get("VERIF_SEED", "20260921"))
    tier = a.tier if a.tier in ("quick", "thorough") else "quick"
    ctx = Ctx(a.pid, tier, seed)
    mod = importlib.import_module("checks." + a.pid.lower())
    try:
        if a.cmd == "replay":
            ctx.no_evidence = True
            mod.replay(ctx, a.replay)
        else:
            mod.run(ctx)
    except TieBroken as e:
        ctx.violation("broken-correspondence", str(e), no_input=True)
    except FrameworkError as e:
        print("FRAMEWORK-ERROR property=%s: %s" % (a.pid, e))
        ctx.notes.append("framework error: %s" % e)
        ctx.framework_error = True
        ctx.finish()
        return 2
    return ctx.finish()


def shrink_list(items, fails, budget=300):
    """greedy delta-debugging: smallest sub-list (order kept) for which fails(sub) is still true"""
    items = list(items)
    n = 2
    tests = 0
    while len(items) >= 2 and tests < budget:
        chunk = max(1, len(items) // n)
        reduced = False
        for i in range(0, len(items), chunk):
            cand = items[:i] + items[i + chunk:]
            tests += 1
            if cand and fails(cand):
                items = cand
                n = max(n - 1, 2)
                reduced = True
                break
            if tests >= budget:
                break
        if not reduced:
            if chunk == 1:
                break
            n = min(len(items), n * 2)
    return items


class Harness:
    """line-oriented client for `ergv <theme>` (one s-expression in, one out)"""

    def __init__(self, ctx, pkg, release=False, env=None, args=()):
        self.bin = ctx.harness(pkg, release=release)
        self.args = list(args)
        self.env = env or {}

    def run(self, cases, timeout=1200):
        inp = "\n".join(sx_dump(c) for c in cases) + "\n"
        p = sh([self.bin] + self.args, inp=inp, timeout=timeout, env=self.env)
        lines = [l for l in p.stdout.splitlines() if l.strip()]
        if p.returncode != 0 or len(lines) != len(cases):
            # a hard crash (abort/stack overflow) kills the process: find the culprit by bisection
            out = []
            for c in cases:
                q = sh([self.bin] + self.args, inp=sx_dump(c) + "\n", timeout=timeout, env=self.env)
                l = [x for x in q.stdout.splitlines() if x.strip()]
                out.append(sx_load(l[0]) if (q.returncode == 0 and l) else [-997, q.returncode])
            return out
        return [sx_load(l) for l in lines]
