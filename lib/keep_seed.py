"""python3 lib/keep_seed.py C11 /tmp/seed-C11-a 1 "verdict text" [check ids run]"""
import json, os, shutil, sys
pid, wt, n, verdict = sys.argv[1:5]
ran = sys.argv[5] if len(sys.argv) > 5 else pid
src = os.path.join(wt, "_seed", n)
dst = "/verif/seeded/%s-%s" % (pid, n)
if os.path.exists(dst):
    shutil.rmtree(dst)
shutil.copytree(src, dst, ignore=shutil.ignore_patterns("target", "*.pyc", "__pycache__"))
m = os.path.join(dst, "meta.json")
j = json.load(open(m)) if os.path.exists(m) else {"property": pid}
j["property"] = pid
j["verdict"] = verdict
j["ran"] = ("integrator: `lib/run_seed.sh %s _seed/%s/patch.diff %s` (patch applied in the scratch worktree, check run with VERIF_REPO, "
            "patch reverted); seeding agent: full test suite with patch, run_demo.sh with and without patch" % (wt, n, ran))
json.dump(j, open(m, "w"), indent=1)
print("kept", dst)
