import json, os, sys
sys.path.insert(0, os.path.dirname(os.path.dirname(os.path.abspath(__file__))))
import importlib
from checks.registry import NOT_APPLICABLE, ENABLED
CHECKS = {}
for f in sorted(os.listdir("/verif/checks")):
    if f.startswith("c") and f.endswith(".py") and f[1:-3].isdigit():
        pid = f[:-3].upper()
        if pid not in ENABLED:
            continue
        mod = importlib.import_module("checks." + f[:-3])
        if hasattr(mod, "REGISTRY"):
            CHECKS[pid] = mod.REGISTRY
props = [json.loads(l)["id"] for l in open("/verif/properties.jsonl")]
m = {
    "version": 1,
    "setup_cmd": "python3 /verif/vp.py setup",
    "hooks": {
        "guard": "erg_verif",
        "enable": "RUSTFLAGS=\"--cfg erg_verif\" cargo build --offline (set by lib/vplib.py for the harness crates and the erg binary)",
        "baseline_off_cmd": "cd /repo && cargo test --workspace --no-fail-fast --offline",
        "source_commits": [l.split()[0] for l in open("/verif/hooks_commits.txt") if l.strip()] if os.path.exists("/verif/hooks_commits.txt") else [],
        "add_only": True,
    },
    "engines": [
        {"name": "coq", "path": "/verif/coq", "serves_properties": sorted(CHECKS), "kind_free_text": "Coq 8.16.1 development ErgV: hand-written models, theorems, generated tables (coq/gen)"},
        {"name": "ergv", "path": "/verif/harness/ergv", "serves_properties": sorted(CHECKS), "kind_free_text": "Rust harness linked against /repo crates; implementation side of the correspondence"},
        {"name": "modelrun", "path": "/verif/extract/driver.ml", "serves_properties": sorted(CHECKS), "kind_free_text": "generic OCaml driver for extracted Gallina models"},
    ],
    "checks": [],
    "not_applicable": [],
    "notes": "Every check: (1) rebuilds the harness/erg from /repo's working tree, (2) regenerates coq/gen tables and re-checks the property theorems (+ Print Assumptions audit, forbidden-construct grep), (3) runs the model/implementation correspondence, (4) on any break searches for a failing input with the extracted judge. See DESIGN.md.",
}
CATS = ["exploration", "fault_enumeration", "model_checking", "proof", "translation_validation", "other"]
def cat(c):
    k = c["category"].strip().lower()
    for x in CATS:
        if k == x:
            return x
    return "proof" if k.startswith("proof") else "other"
for pid in props:
    if pid in CHECKS:
        c = CHECKS[pid]
        m["checks"].append({
            "property_id": pid,
            "quick_cmd": "python3 /verif/vp.py check %s --tier quick" % pid,
            "thorough_cmd": "python3 /verif/vp.py check %s --tier thorough" % pid,
            "evidence_file": "/verif/evidence/%s.json" % pid,
            "replay_cmd_template": "python3 /verif/vp.py replay %s --replay {path}" % pid,
            "engine": "coq",
            "level_claimed": {"category": cat(c), "text": (c["text"] if cat(c) == c["category"] else "[%s] %s" % (c["category"], c["text"])), "design_ref": c.get("design", "DESIGN.md")},
            "level_note": c["note"],
            "technique": c["technique"],
        })
    else:
        m["not_applicable"].append({"property_id": pid, "reason": NOT_APPLICABLE.get(pid, "not yet decided by the machinery (work in progress; see DESIGN.md section 7)")})
json.dump(m, open("/verif/MANIFEST.json", "w"), indent=1)
print("MANIFEST.json: %d checks, %d not_applicable" % (len(m["checks"]), len(m["not_applicable"])))
