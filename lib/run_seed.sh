#!/bin/bash
# usage: run_seed.sh <worktree> <patch.diff> <Cxx> [more Cxx]   — applies the patch in the scratch worktree, runs the checks against it, reverts
WT=$1; PATCH=$2; shift 2
cd $WT && git checkout -q -- . && git apply $PATCH || { echo "patch does not apply"; exit 3; }
for P in "$@"; do
  echo "=== $P on $PATCH"
  VERIF_REPO=$WT python3 /verif/vp.py check $P 2>&1 | tail -6
  echo "rc=$?"
done
cd $WT && git checkout -q -- .
