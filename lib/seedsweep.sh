#!/bin/bash
# usage: seedsweep.sh <seed> [ids...]  — runs the enabled checks with VERIF_SEED=<seed>, one line per check in /tmp/sweep-<seed>.log
SEED=$1; shift
IDS="$@"
if [ -z "$IDS" ]; then IDS=$(python3 -c "import sys; sys.path.insert(0,'/verif'); from checks.registry import ENABLED; print(' '.join(sorted(ENABLED)))"); fi
for P in $IDS; do
  OUT=$(VERIF_SEED=$SEED nice -n 5 python3 /verif/vp.py check $P 2>&1)
  RC=$?
  echo "$P seed=$SEED rc=$RC $(echo "$OUT" | grep -E '^(OK|VIOLATION|FRAMEWORK)' | head -3 | tr '\n' ' ' | cut -c1-400)" >> /tmp/sweep-$SEED.log
  if [ $RC -ne 0 ]; then echo "$OUT" | tail -30 > /tmp/sweep-$SEED-$P.out; fi
done
echo "DONE" >> /tmp/sweep-$SEED.log
