#!/bin/bash
# runs every enabled check once (default seed), LANES at a time; one line per check in ${LOG:-/tmp/final.log}
LANES=${1:-4}
rm -f ${LOG:-/tmp/final.log}
IDS=$(python3 -c "import sys; sys.path.insert(0,'/verif'); from checks.registry import ENABLED; print(' '.join(sorted(ENABLED)))")
run1() {
  P=$1
  OUT=$(python3 /verif/vp.py check $P 2>&1); RC=$?
  echo "$P rc=$RC $(echo "$OUT" | grep -E '^(OK|VIOLATION|FRAMEWORK)' | head -3 | tr '\n' ' ' | cut -c1-300)" >> ${LOG:-/tmp/final.log}
  if [ $RC -ne 0 ]; then echo "$OUT" | tail -40 > ${LOG:-/tmp/final.log}-$P.out; fi
}
export -f run1
echo $IDS | tr ' ' '\n' | xargs -P $LANES -I{} bash -c 'run1 {}'
echo DONE >> ${LOG:-/tmp/final.log}
