#!/usr/bin/env python3
import os, sys
sys.path.insert(0, os.path.dirname(os.path.abspath(__file__)))
from lib.vplib import main
sys.exit(main(sys.argv[1:]))
