"""C15 oracle side: run under each target interpreter (3.7 .. 3.11).  One hex string per input line; prints the
canonical form of marshal.loads(bytes) as JSON:
  [0,int] [2,float bits] [3,[code points]] [4,0|1] [5] [6,[items]] [8,[code fields]] [10,[bytes]] | [-1,"ExcName"]
Type is part of the form (bool is not int, tuple is not list); floats are compared by bit pattern."""
import json
import marshal
import struct
import sys
import types


def canon(o):
    if o is None:
        return [5]
    if o is True or o is False:
        return [4, 1 if o else 0]
    t = type(o)
    if t is int:
        return [0, o]
    if t is float:
        return [2, struct.unpack("<Q", struct.pack("<d", o))[0]]
    if t is str:
        return [3, [ord(c) for c in o]]
    if t is bytes:
        return [10, list(o)]
    if t is tuple:
        return [6, [canon(x) for x in o]]
    if t is types.CodeType:
        v = sys.version_info
        strs = lambda l: [[ord(c) for c in s] for s in l]
        return [8, [o.co_argcount, getattr(o, "co_posonlyargcount", 0), o.co_kwonlyargcount, o.co_nlocals, o.co_stacksize,
                    o.co_flags if v >= (3, 11) else o.co_flags & ~0x40, list(o.co_code), [canon(x) for x in o.co_consts], strs(o.co_names), strs(o.co_varnames),
                    strs(o.co_freevars), strs(o.co_cellvars), [ord(c) for c in o.co_filename], [ord(c) for c in o.co_name],
                    [ord(c) for c in o.co_qualname] if v >= (3, 11) else [], o.co_firstlineno,
                    list(o.co_linetable if v >= (3, 10) else o.co_lnotab),
                    list(o.co_exceptiontable) if v >= (3, 11) else []]]
    return [-2, t.__name__]


def main():
    sys.setrecursionlimit(20000)
    out = sys.stdout
    for line in sys.stdin:
        line = line.strip()
        try:
            r = canon(marshal.loads(bytes.fromhex(line)))
        except Exception as e:  # ValueError, EOFError, TypeError, UnicodeDecodeError, SystemError, MemoryError
            r = [-1, type(e).__name__]
        out.write(json.dumps(r, separators=(",", ":")) + "\n")
    out.flush()


main()
