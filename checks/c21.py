"""C21 — module dependency graph operations match a reference graph.

proof:          coq/Graph/Props_C21.v over the model coq/Graph/Model.v (transcription of
                crates/erg_compiler/module/graph.rs + crates/erg_common/tsort.rs)
correspondence: every step of every generated history is executed by ModuleGraph (harness `ergv graph`)
                and by the extracted model *from the implementation's own pre-state* (step-wise simulation),
                and compared on result code, node vector, index (observed through get_node) and all queries
judge:          the reference graph of coq/Graph/Spec.v (extracted) run on the same history
"""
from lib.vplib import *

U = [1, 2, 3, 4, 5, 6]

REGISTRY = dict(
    category="proof",
    text="Coq model of ModuleGraph+tsort (coq/Graph/Model.v) with theorems over all operation histories, tied to the Rust "
         "code by step-wise simulation of generated histories from the implementation's own state; a plain reference "
         "graph (coq/Graph/Spec.v, extracted) judges every answer.",
    note="Trusted: Coq kernel, extraction (ExtrOcamlBasic) + generic OCaml driver, harness/graph. FxHash Set/Dict "
         "modelled as duplicate-free lists; rename only to a fresh path; is_dir() false.",
    technique="Coq proof over hand model + step-wise correspondence (extracted model vs ModuleGraph) + extracted reference-graph judge",
    design="DESIGN.md §4 C21")


def gen_history(rng, maxlen, universe):
    ops = []
    V = set()
    n = rng.randint(1, maxlen)
    # per-history weights so that some histories are dense in edges, others in removals
    w = [rng.choice([1, 2, 4]), rng.choice([4, 8, 12]), rng.choice([0, 1, 2]), rng.choice([0, 1, 2]), rng.choice([0, 1, 2])]
    for _ in range(n):
        k = rng.choices([0, 1, 2, 3, 4], weights=w)[0]
        if k == 0:
            p = rng.choice(universe)
            ops.append([0, p]); V.add(p)
        elif k == 1:
            r, d = rng.choice(universe), rng.choice(universe)
            ops.append([1, r, d]); V.add(r)
        elif k == 2:
            p = rng.choice(universe)
            ops.append([2, p]); V.discard(p)
        elif k == 3:
            fresh = [x for x in universe if x not in V]
            if not fresh:
                continue
            old = rng.choice(universe)
            new = rng.choice(fresh)
            if new == old:
                continue
            ops.append([3, old, new])
            if old in V:
                V.discard(old); V.add(new)
        else:
            ops.append([4])
    return ops


def all_histories(universe, maxlen):
    """every history up to maxlen over a small universe (rename target must be fresh w.r.t. the reference V)"""
    base = [[0, p] for p in universe] + [[1, r, d] for r in universe for d in universe] + \
           [[2, p] for p in universe] + [[3, a, b] for a in universe for b in universe if a != b] + [[4]]
    out = []

    def refV(ops):
        V = set()
        for o in ops:
            if o[0] == 0: V.add(o[1])
            elif o[0] == 1: V.add(o[1])
            elif o[0] == 2: V.discard(o[1])
            elif o[0] == 3 and o[1] in V: V.discard(o[1]); V.add(o[2])
        return V

    def rec(prefix):
        if prefix:
            out.append(list(prefix))
        if len(prefix) == maxlen:
            return
        V = refV(prefix)
        for o in base:
            if o[0] == 3 and o[2] in V:
                continue
            rec(prefix + [o])
    rec([])
    return out


def canon_state(st):
    """node vector order kept, dependency sets sorted, index sorted"""
    nodes, index = st
    return [[n[0], sorted(n[1])] for n in nodes], sorted(index)


def canon_queries(q):
    if not isinstance(q, list):
        return q
    dep, deep, ch, par, anc = q
    return [dep, deep, [sorted(x) for x in ch], [sorted(x) if isinstance(x, list) else x for x in par],
            [sorted(x) if isinstance(x, list) else x for x in anc]]


def batch_check(items, model):
    """items: list of (universe, ops, impl_steps); three batched model calls for all of them"""
    refs = model.run([[1, u, ops] for u, ops, _ in items])
    sort_cases, step_cases = [], []
    for (u, ops, steps), ref in zip(items, refs):
        prev = [[], []]
        for i, o in enumerate(ops):
            if i >= len(steps) or steps[i][0] == -999:
                break
            if o[0] == 4:
                sort_cases.append([2, ref[i][1], steps[i][0], [n[0] for n in steps[i][1][0]]])
            step_cases.append([0, u, prev, o])
            prev = steps[i][1]
    sort_out = iter(model.run(sort_cases) if sort_cases else [])
    step_out = iter(model.run(step_cases) if step_cases else [])
    res = []
    for (u, ops, steps), ref in zip(items, refs):
        nst = 0
        for i, o in enumerate(ops):
            if i >= len(steps) or steps[i][0] == -999:
                break
            nst += 1
        so = [next(sort_out) for i in range(nst) if ops[i][0] == 4]
        mo = [next(step_out) for i in range(nst)]
        res.append(check_history(u, ops, steps, None, pre=(ref, so, mo)))
    return res


def check_history(universe, ops, impl_steps, model, judge_only=False, pre=None):
    """returns (corr_mismatch or None, judge_failure or None); both are dicts with step index"""
    corr = None
    jf = None
    if pre is None:
        return batch_check([(universe, ops, impl_steps)], model)[0]
    ref, sort_out, outs = pre
    sort_out = iter(sort_out)
    for i, (o, r) in enumerate(zip(ops, ref)):
        if i >= len(impl_steps) or impl_steps[i][0] == -999:
            jf = {"step": i, "op": o, "why": "implementation panicked"}
            break
        ires, ist, iq = impl_steps[i]
        rres, rst, rq = r[0], r[1], r[2]
        ids = [n[0] for n in ist[0]]
        iE = sorted([n[0], d] for n in ist[0] for d in n[1])
        why = None
        if o[0] == 4:
            ok = next(sort_out)
            if ok != 1:
                why = "sort answered %s with order %s; reference graph: cycle=%s closed=%s" % (ires, ids, r[3], r[4])
        elif ires != rres:
            why = "result %s, reference %s" % (ires, rres)
        if why is None and (sorted(ids) != sorted(rst[0]) or len(ids) != len(set(ids))):
            why = "node set %s, reference %s" % (ids, sorted(rst[0]))
        if why is None and iE != sorted(rst[1]):
            why = "edges %s, reference %s" % (iE, sorted(rst[1]))
        if why is None and canon_queries(iq) != canon_queries(rq):
            names = ["depends_on", "deep_depends_on", "children", "parents", "ancestors"]
            cq, cr = canon_queries(iq), canon_queries(rq)
            bad = [names[j] for j in range(5) if not isinstance(cq, list) or cq[j] != cr[j]]
            why = "queries %s differ from the reference graph" % bad
        if why:
            jf = {"step": i, "op": o, "why": why}
            break
    # ---- step-wise correspondence with the model
    for i, m in enumerate(outs):
        im = impl_steps[i]
        if m[0] in (-999, -998):
            corr = {"step": i, "op": ops[i], "model": m, "impl": im[0]}
            break
        exp = [m[0], canon_state(m[1]), canon_queries(m[2])]
        got = [im[0], canon_state(im[1]), canon_queries(im[2])]
        if ops[i][0] == 4 and [n[0] for n in m[1][0]] != [n[0] for n in im[1][0]]:
            corr = {"step": i, "op": ops[i], "model_order": [n[0] for n in m[1][0]], "impl_order": [n[0] for n in im[1][0]]}
            break
        if exp != got:
            corr = {"step": i, "op": ops[i], "model": exp, "impl": got}
            break
    if corr is None and len(impl_steps) < len(ops):
        corr = {"step": len(impl_steps) - 1, "op": ops[len(impl_steps) - 1], "impl": "panic", "model": "no panic"}
    return corr, jf


def run(ctx):
    ctx.cov["rule"] = ("operation histories (add, inc_ref, remove, rename-to-fresh, sort) over a universe of 6 paths, length<=40, "
                       "from the seeded PRNG with per-history op weights; thorough adds every history of length<=3 over 3 paths; "
                       "non-trivial = distinct history that contains at least one inc_ref creating an edge")
    ctx.cov["trusted_base"] = ["Coq 8.16.1 kernel", "extraction (ExtrOcamlBasic only) + extract/driver.ml",
                               "harness/ergv/src/graph.rs (drives ModuleGraph through its public API)",
                               "modelled, not verified: FxHash Set/Dict semantics (as duplicate-free lists), Vec::remove, sort_by_key stability"]
    ctx.assumptions = ["rename_path is only called with a new path that is not a registered module (els file rename)",
                       "is_dir() is false for all paths (debug build panics otherwise by design)"]
    proof = ctx.coq(["Graph/Props_C21.v"])
    h = Harness(ctx, "graph")
    model = ctx.model("Graph")
    hist = []
    corpus = os.path.join(VERIF, "corpus", "C21")
    if os.path.isdir(corpus):
        for f in sorted(os.listdir(corpus)):
            hist.append((U, json.load(open(os.path.join(corpus, f)))["ops"]))
    n = ctx.scale(1500, 30000)
    for _ in range(n):
        hist.append((U, gen_history(ctx.rng, 40, U)))
    if ctx.thorough:
        ex = all_histories([1, 2, 3], 3)
        ctx.cov["exhaustive_small_scope"] = "all %d histories of length<=3 over 3 paths" % len(ex)
        hist += [([1, 2, 3], o) for o in ex]
    impl = h.run([[u, ops] for u, ops in hist])
    n_corr = n_judge = 0
    first_corr = None
    results = batch_check([(u, ops, steps) for (u, ops), steps in zip(hist, impl)], model)
    for ((u, ops), steps), (corr, jf) in zip(zip(hist, impl), results):
        for o in ops:
            ctx.count("op%d" % o[0])
        ctx.count("len<=10" if len(ops) <= 10 else "len<=25" if len(ops) <= 25 else "len<=40")
        edges = any(len(s) > 1 and any(n[1] for n in s[1][0]) for s in steps)
        ctx.case(ops, nontrivial=edges, sample={"universe": u, "ops": ops})
        for s, o in zip(steps, ops):
            if o[0] == 1 and s[0] == 1: ctx.count("inc_ref refused (cycle)")
            if o[0] == 4: ctx.count("sort result %s" % s[0])
        if jf:
            n_judge += 1
            if n_judge <= 3:
                def fails(sub, u=u):
                    st = h.run([[u, sub]])[0]
                    return check_history(u, sub, st, model, judge_only=True)[1] is not None
                small = shrink_list(ops[:jf["step"] + 1], fails)
                st = h.run([[u, small]])[0]
                _, jf2 = check_history(u, small, st, model, judge_only=True)
                ctx.violation("failing-input", "history on which ModuleGraph differs from the reference graph: %s" % (jf2 or jf)["why"],
                              case={"universe": u, "ops": small, "op_encoding": "0 add p | 1 inc_ref referrer dep | 2 remove p | 3 rename old new | 4 sort"},
                              impl=st, judge=jf2 or jf)
        elif corr:
            n_corr += 1
            first_corr = first_corr or {"universe": u, "ops": ops[:corr["step"] + 1], "detail": corr}
    ctx.cov["traces_validated_against_impl"] = len(hist)
    if n_judge == 0 and (n_corr or not proof.ok):
        # model and implementation disagree (or a theorem broke) but no history fails the reference-graph judge
        what = []
        if not proof.ok:
            what.append("theorem(s) no longer check: " + proof.summary())
        if n_corr:
            what.append("%d histories on which model and ModuleGraph differ step-wise" % n_corr)
        ctx.violation("broken-correspondence" if n_corr else "broken-theorem", "; ".join(what), case=first_corr,
                      theorem=proof.summary() or None, no_input=True)


def replay(ctx, path):
    r = json.load(open(path))
    h = Harness(ctx, "graph")
    model = ctx.model("Graph")
    u, ops = r["case"]["universe"], r["case"]["ops"]
    st = h.run([[u, ops]])[0]
    corr, jf = check_history(u, ops, st, model)
    print("impl:", st)
    print("correspondence:", corr)
    print("judge:", jf)
    if jf:
        ctx.violation("failing-input", jf["why"], case=r["case"], impl=st, judge=jf)
