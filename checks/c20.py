"""C20 — multi-module analysis terminates and resolves every import graph.

proof:          coq/Build/Props_C20.v over coq/Build/Model.v (transcription of build_package.rs resolve/register/
                execute/build_deps_and_module/build_inlined_module/start_analysis_process and of promise.rs join as a
                transition system), re-using C21's graph model and theorems
correspondence: generated projects are built and run by the real `erg` (hooks on): the graph snapshot after
                resolution, the order in which build_deps_and_module starts/marks modules (from the implementation's
                own snapshot and ancestor orders) and every join decision are compared with the model; the whole
                trace is replayed through the transition system
judge:          Build/Spec.v judge_C20 (extracted) on what was observed: terminated, compiled, one analysis per
                module, each marker once, every cross-module value as intended
"""
import json
import os

from lib.vplib import *
from pylib import c20_gen as G
from pylib import c20_run as R

REGISTRY = dict(
    category="proof",
    text="Coq model of dependency resolution, build_deps_and_module and the promise join protocol (coq/Build/Model.v, on top of "
         "C21's graph model) with theorems: resolution yields a DAG and inlines the module that closes a cycle, the start loop "
         "terminates within a bound and starts each module once after its dependencies, the wait-for relation is inside the "
         "dependency relation and there is no deadlock; tied to erg by hook traces of real builds of generated projects "
         "(graph snapshot, start order, join decisions replayed through the model); the property's observables (termination, "
         "one analysis per module, markers, cross-module values) are judged on every build and run.",
    note="proof (partial): the theorems are about the hand model; well-formedness of the resolution result is proved for all "
         "projects of <= 3 modules and checked on every observed snapshot; OS scheduling and safe_yield latency cannot be "
         "exhibited. Known findings: entry module on an import cycle, inlined module with a second importer, variable read "
         "across the cycle-closing import.",
    technique="Coq proof over hand model + trace correspondence (real erg builds vs extracted model) + extracted judge on observed runs",
    design="DESIGN.md §4 C20")

KINDS_QUICK = ["dag", "diamond", "self", "cycle2", "cycle3", "chain", "random", "cycle-tail", "cycle2", "shared-cycle", "entry-cycle"]


def load_known(ctx):
    return ctx.known()


def classify(model_out):
    """known-class flags from the model (mode 0 output)"""
    if model_out[0] != 0:
        return {"K1": bool(model_out[1]), "K2": False, "known": True}
    return {"K1": bool(model_out[8]), "K2": bool(model_out[9]), "known": bool(model_out[10])}


def check_one(ctx, model, proj, res, obs, m0):
    """correspondence of one project: returns list of mismatch descriptions (empty = conforms)"""
    bad = []
    tr = res["run"]["trace"]
    snap = R.snapshot(tr)
    if snap is None:
        return ["no GRAPH record in the trace (hook not reached)"], None
    # ---- resolution: model's own result vs the snapshot (sets; orders are hash orders)
    if m0[0] == 0:
        mnodes = sorted([n[0], sorted(n[1])] for n in m0[1])
        inodes = sorted([n[0], sorted(n[1])] for n in snap["nodes"])
        if mnodes != inodes:
            bad.append("graph after resolution: model %s, erg %s" % (mnodes, inodes))
        if sorted(m0[2]) != sorted(snap["inlines"]):
            bad.append("inlines: model %s, erg %s" % (sorted(m0[2]), sorted(snap["inlines"])))
        if sorted(m0[3]) != sorted(snap["asts"]):
            bad.append("asts: model %s, erg %s" % (sorted(m0[3]), sorted(snap["asts"])))
    else:
        bad.append("model resolution ended with code %s" % m0[0])
    return bad, snap


def run_batch(ctx, erg, env, model, projs, seeds, modes=("run",)):
    results = R.pmap(lambda a: R.run_project(erg, env, a[0], seed=a[1], modes=modes), list(zip(projs, seeds)),
                     workers=ctx.scale(6, 8))
    obs = [R.observe(p, r) for p, r in zip(projs, results)]
    # model, mode 0: resolution + execute with the observed ancestor orders
    c0 = []
    for p, r in zip(projs, results):
        _, ords = R.main_events(r["run"]["trace"])
        c0.append([0, 0, R.sx_project(p), ords, 1 if p.get("backvar") else 0])
    m0 = model.run(c0)
    out = []
    c1, c2, idx = [], [], []
    for i, (p, r, o, m) in enumerate(zip(projs, results, obs, m0)):
        bad, snap = check_one(ctx, model, p, r, o, m)
        ev, ords = R.main_events(r["run"]["trace"])
        out.append({"proj": p, "res": r, "obs": o, "m0": m, "bad": bad, "snap": snap, "ev": ev})
        if snap is not None:
            sc, labels = R.script_and_labels(r["run"]["trace"], snap)
            E = [[n[0], d] for n in snap["nodes"] for d in n[1]]
            c1.append([1, snap["root"], snap["nodes"], snap["inlines"], snap["asts"], ords])
            c2.append([2, snap["root"], E, snap["inlines"], sc, labels])
            idx.append(i)
            out[i]["labels"] = labels
            out[i]["script"] = sc
    m1 = model.run(c1) if c1 else []
    m2 = model.run(c2) if c2 else []
    for i, a, b in zip(idx, m1, m2):
        x = out[i]
        x["m1"], x["m2"] = a, b
        complete = x["obs"]["terminated"] and any(t[0] == "DEPS-LEAVE" for t in x["res"]["run"]["trace"])
        if a[0] != 1:
            x["bad"].append("observed resolution result is not well-formed (wf_resb false)")
        if a[1] != 1:
            x["bad"].append("observed graph after resolution has a cycle")
        if isinstance(a[2], list) and complete:
            mev = R.model_events(a[2][0])
            if mev != x["ev"]:
                x["bad"].append("build_deps_and_module: model events %s, erg %s" % (mev, x["ev"]))
        elif complete:
            x["bad"].append("model execute from the observed snapshot ended with code %s" % a[2])
        if complete and x["obs"]["compiled"]:
            if b[0] != -1:
                x["bad"].append("trace leaves the transition system at label %d %s" % (b[0], x["labels"][b[0]] if b[0] < len(x["labels"]) else "?"))
            elif b[1] != 1:
                x["bad"].append("trace ends with unfinished threads in the transition system")
            if b[2] != 1:
                x["bad"].append("main thread's script is not enabled step by step (script_okb false): %s" % x["script"])
            if b[4] != 1 or b[5] != 1:
                x["bad"].append("observed graph: acyclic=%s no-edge-into-entry=%s" % (b[4], b[5]))
    # judge
    jc = [[3, o["mods"], o["analysed"], o["markers"], int(o["terminated"]), int(o["compiled"]), int(o["values_ok"])] for o in obs]
    jv = model.run(jc)
    for x, v in zip(out, jv):
        x["judge"] = (v == 1)
    return out


def describe(x):
    o = x["obs"]
    why = []
    if not o["terminated"]:
        why.append("did not terminate within %d s" % R.RETRY_S)
    if not o["compiled"]:
        why.append("build/run failed (rc=%s): %s" % (o["rc"], "; ".join(o["errors"][:3])))
    if sorted(o["analysed"]) != sorted(o["mods"]):
        why.append("analysed %s, modules %s" % (sorted(o["analysed"]), o["mods"]))
    if sorted(o["markers"]) != sorted(o["mods"]):
        why.append("markers printed %s, expected each of %s once" % (sorted(o["markers"]), o["mods"]))
    if not o["values_ok"]:
        why.append("printed values %s, intended %s" % (o["got"], o["want"]))
    return "; ".join(why)


def sample_of(p):
    return {"kind": p["kind"], "imports": p["imports"], "consts": p["consts"], "backvar": bool(p.get("backvar")),
            "lazy_entry": bool(p.get("lazy_entry"))}


def known_symptom(x):
    """the known classes fail with a diagnostic or a Python exception; a hang or a panic of the compiler is never one of them"""
    o = x["obs"]
    if not o["terminated"]:
        return False
    err = x["res"]["run"]["err"]
    return not ("panicked" in err or "unreachable" in err or "RUST_BACKTRACE" in err)


def run(ctx):
    ctx.cov["rule"] = ("generated projects of <= 8 modules m0..m7 (entry m0): random DAGs, chains, diamonds, self-imports, 2- and 3-cycles, "
                       "cycles with a third importer, cycles through the entry, arbitrary graphs; typed public bindings, every importer "
                       "uses the imported names with their declared types, every module prints a marker; each built and run once by erg "
                       "with a seeded schedule perturbation; non-trivial = distinct project with >= 2 reachable modules that compiled")
    ctx.cov["trusted_base"] = ["Coq 8.16.1 kernel", "extraction (ExtrOcamlBasic only) + extract/driver.ml",
                               "hooks erg_common::verif (trace/jitter) and their call sites", "pylib/c20_gen.py (generator, intended semantics), pylib/c20_run.py (trace -> model inputs)",
                               "modelled, not verified: std::thread, JoinHandle::is_finished, FxHash Set/Dict, the lowerer and the linker (observed only)"]
    ctx.assumptions = ["flat projects (no foo/bar package imports), Erg modules only (no .d.er / pyimport)",
                       "a build that needs more than %d s on this machine is a hang" % R.RETRY_S]
    proof = ctx.coq(["Build/Props_C20.v"])
    model = ctx.model("Build")
    erg = ctx.erg_bin()
    env = ctx.erg_env()
    projs = []
    cdir = os.path.join(VERIF, "corpus", "C20")
    if os.path.isdir(cdir):
        for f in sorted(os.listdir(cdir)):
            projs.append(json.load(open(os.path.join(cdir, f)))["project"])
    n = ctx.scale(26, 600)
    for i in range(n):
        kind = KINDS_QUICK[i % len(KINDS_QUICK)] if not ctx.thorough else ctx.rng.choice(G.KINDS)
        p = G.gen_project(ctx.rng, kind, nmax=8 if ctx.rng.random() < 0.5 else 5)
        if kind in ("cycle2", "cycle3") and ctx.rng.random() < 0.15:
            p["backvar"] = True
        if kind in ("dag", "diamond", "chain") and ctx.rng.random() < 0.3:
            p["lazy_entry"] = True
        projs.append(p)
    seeds = [ctx.rng.randrange(1, 10 ** 6) for _ in projs]
    out = run_batch(ctx, erg, env, model, projs, seeds, modes=("run",))
    known = load_known(ctx)
    n_viol = 0
    corr = []
    seen_known = {}
    for x in out:
        p, o = x["proj"], x["obs"]
        cls = classify(x["m0"])
        ctx.count("kind:" + p["kind"])
        ctx.count("modules:%d" % len(o["mods"]))
        ctx.count("inlined modules:%d" % (len(x["snap"]["inlines"]) if x["snap"] else 0))
        if o["slow"]:
            ctx.count("needed more than %d s (machine load)" % R.HANG_S)
        ctx.case(sample_of(p), nontrivial=(len(o["mods"]) >= 2 and o["compiled"]), sample=sample_of(p))
        if not x["judge"]:
            if cls["known"] and known_symptom(x):
                k = "K1" if cls["K1"] else "K2" if cls["K2"] else "K4"
                seen_known.setdefault(k, []).append(p)
                ctx.count("known finding class " + k)
                if x["bad"] and x["bad"][0].startswith(("graph after", "inlines", "asts")):
                    corr.append(x)      # resolution is deterministic: a mismatch there is not explained by a known class
                continue
            n_viol += 1
            if n_viol <= 3:
                def fails(q):
                    y = run_batch(ctx, erg, env, model, [q], [seeds[0]])[0]
                    return (not y["judge"]) and not classify(y["m0"])["known"]
                small = R.shrink_project(p, fails, budget=ctx.scale(6, 20))
                y = run_batch(ctx, erg, env, model, [small], [seeds[0]])[0]
                if y["judge"]:
                    small, y = p, x
                ctx.violation("failing-input", "project on which erg violates the property: " + describe(y),
                              case={"project": sample_of(small) | {"n": small["n"]}, "files": G.render(small)},
                              impl={"stdout": y["obs"]["got"], "errors": y["obs"]["errors"], "analysed": y["obs"]["analysed"]},
                              model={"intended": y["obs"]["want"], "known_classes": classify(y["m0"])}, judge=False)
        elif x["bad"]:
            corr.append(x)
    ctx.cov["traces_validated_against_impl"] = len(out)
    # known findings: replay the recorded witnesses
    for k in known:
        w = k.get("witness", {}).get("project")
        if not w:
            continue
        y = run_batch(ctx, erg, env, model, [w], [k.get("witness", {}).get("seed", 1)])[0]
        reproduced = not y["judge"]
        if not reproduced and k.get("schedule_dependent"):
            for s in range(2, 2 + ctx.scale(4, 12)):
                y = run_batch(ctx, erg, env, model, [w], [s])[0]
                if not y["judge"]:
                    reproduced = True
                    break
        if reproduced or seen_known.get(k.get("class")):
            ctx.known_finding(k)
        else:
            ctx.notes.append("NOTE stale-known-finding %s: witness no longer reproduces" % k.get("id"))
            print("NOTE stale-known-finding property=C20 %s" % k.get("id"))
    if n_viol == 0 and corr:
        # model and erg disagree: re-instantiate the disagreeing project shapes with the other textual orders of the
        # imports and with a use of every imported name, build and run them, and judge
        for x in corr[:ctx.scale(3, 8)]:
            vs = G.order_variants(x["proj"], ctx.rng, ctx.scale(8, 30))
            if not vs:
                continue
            ys = run_batch(ctx, erg, env, model, vs, [ctx.rng.randrange(1, 10 ** 6) for _ in vs])
            ctx.count("import-order variants built after a disagreement", len(vs))
            bad = [y for y in ys if not y["judge"] and not (classify(y["m0"])["known"] and known_symptom(y))]
            if bad:
                y = bad[0]
                q = y["proj"]
                n_viol += 1
                ctx.violation("failing-input", "project on which erg violates the property (an import-order variant of a project on "
                              "which the trace left the model: %s): %s" % (x["bad"][0][:200], describe(y)),
                              case={"project": sample_of(q) | {"n": q["n"]}, "files": G.render(q)},
                              impl={"stdout": y["obs"]["got"], "errors": y["obs"]["errors"], "analysed": y["obs"]["analysed"]},
                              model={"intended": y["obs"]["want"], "known_classes": classify(y["m0"]), "mismatch": y["bad"]}, judge=False)
                break
    if n_viol == 0 and corr:
        # model and erg disagree but every build passed the judge: look for a failing input among the disagreeing
        # projects under other schedules (the disagreement may only matter when the threads are timed differently)
        for x in corr[:ctx.scale(4, 10)]:
            p = x["proj"]
            if classify(x["m0"])["known"]:
                continue
            tries = [p] * ctx.scale(5, 12)
            ys = run_batch(ctx, erg, env, model, tries, [ctx.rng.randrange(1, 10 ** 6) for _ in tries])
            bad = [y for y in ys if not y["judge"]]
            ctx.count("search builds after a disagreement", len(tries))
            if bad:
                y = bad[0]
                n_viol += 1
                ctx.violation("failing-input", "project on which erg violates the property (found under another schedule after the "
                              "trace left the model: %s): %s" % (x["bad"][0][:200], describe(y)),
                              case={"project": sample_of(p) | {"n": p["n"]}, "files": G.render(p)},
                              impl={"stdout": y["obs"]["got"], "errors": y["obs"]["errors"], "analysed": y["obs"]["analysed"]},
                              model={"intended": y["obs"]["want"], "mismatch": x["bad"]}, judge=False)
                break
    if n_viol == 0 and (corr or not proof.ok):
        what = []
        if not proof.ok:
            what.append("theorem(s) no longer check: " + proof.summary())
        if corr:
            what.append("%d projects on which the model and erg's trace differ; first: %s" % (len(corr), corr[0]["bad"][0][:400]))
        first = None
        if corr:
            first = {"project": sample_of(corr[0]["proj"]) | {"n": corr[0]["proj"]["n"]}, "mismatch": corr[0]["bad"]}
        ctx.violation("broken-correspondence" if corr else "broken-theorem", "; ".join(what), case=first,
                      theorem=proof.summary() or None, no_input=True)


def replay(ctx, path):
    r = json.load(open(path))
    model = ctx.model("Build")
    erg = ctx.erg_bin()
    c = r.get("case") or {}
    p = c.get("project")
    if not p:
        print("replay file names no project (theorem or correspondence broke): %s" % r.get("what"))
        return
    p = dict(p)
    p.setdefault("defect", None)
    x = run_batch(ctx, erg, ctx.erg_env(), model, [p], [r.get("seed", 1) % 1000 + 1])[0]
    print("observed:", json.dumps({k: x["obs"][k] for k in ("terminated", "compiled", "analysed", "markers", "values_ok", "errors")}))
    print("intended:", x["obs"]["want"])
    print("correspondence:", x["bad"])
    print("known classes:", classify(x["m0"]), "judge:", x["judge"])
    if not x["judge"] and not classify(x["m0"])["known"]:
        ctx.violation("failing-input", describe(x), case=c, impl=x["obs"]["got"], judge=False)
