"""C10 — Parsing is deterministic and insensitive to comments and layout.

proof:          coq/Layout/Props_C10.v: a two-run (relational) logic over the lexer model of C08 (Layout/Sim*.v:
                Iterator::next and Lexer::lex yield the same items modulo positions from lexer states that agree on
                the remaining input and the control state), from it the invariance of the rest of the token stream
                under a trailing `#` comment, trailing blanks, a blank line, a comment line at the block's
                indentation, a `\\` continuation (Layout/Proofs.v); on the expression grammar of C11: redundant
                parentheses around an operand (Layout/Paren.v)
direct observation (the tie): the REAL parser (erg_parser Lexer + Parser, harness/layout) on every .er file under
                /repo/examples and /repo/tests/should_ok and on generated programs: syntax tree with positions erased
                of the original against the tree after ONE rewrite (trailing blanks, trailing comment, blank line,
                comment line, continuation, block comment between two tokens, parentheses around an operand), placed
                with the real lexer's token positions; every text is parsed twice (determinism); for the lexer-level
                rewrites also the real token streams (kind, content) are compared as the theorems predict
judge:          coq/Layout/Spec.v `judge` (extracted): same status, same position-erased tree, deterministic
known findings: coq/Layout/Spec.v `known_c10` (extracted) classifies a rewrite by facts computed from the real token
                stream; known/C10.json lists one witness per class
"""
import glob
from lib.vplib import *
from pylib import layout_rewrite as LR

REGISTRY = dict(
    category="proof (partial)",
    text="Relational Coq logic over the C08 lexer model: from lexer states that agree on the remaining input, "
         "indentation stack, enclosure level, previous token kind, interpolation stack and the last character "
         "consumed, Iterator::next and Lexer::lex yield the same items modulo positions (all sub-lexers, for every "
         "input); consequences for any token-boundary state of a run: a trailing `#` comment, trailing blanks, a `\\` "
         "continuation leave the rest of the stream unchanged, a blank line or a comment line at the block's "
         "indentation adds exactly one Newline token; on the C11 expression grammar: parentheses around an operand "
         "give the same tree and continuation.  Direct observation on the real parser: position-erased syntax trees of "
         "all example / should_ok files and generated programs before and after each rewrite, parse-twice determinism.",
    note="Partial: (i) the lexer theorems cover the whole rest of the file from the insertion point, not the <= 2 tokens "
         "before it whose look-ahead reaches the inserted text (false in general: op_fix); (ii) the statement parser "
         "is not modelled, its invariance is sampled on the real parser.  Known findings (known/C10.json, all with "
         "_refuted theorems): blank / comment-only lines take part in indentation; op_fix reads only ' ' as a blank; "
         "a blank after a block comment is an error; a continuation line in column 0 dedents; `f (x) + 1`.  Trusted: "
         "Coq kernel, extraction + generic OCaml driver, harness/layout (position erasure of the derived Debug dump), "
         "pylib/layout_rewrite.py (placement of the rewrites).",
    technique="Coq proof (relational logic over the lexer model, grammar stability) + direct observation of the real parser under rewrites + extracted judge",
    design="DESIGN.md §4 C10")

VERDICT = {1: "parsing the same text twice gives different trees", 2: "the rewritten program no longer parses",
           3: "the rewritten program parses to a different tree"}
CLASS = {1: "indentation of a blank / comment-only line", 2: "op_fix: only ' ' counts as a blank next to + - * **",
         3: "blank after a block comment", 4: "continuation line in column 0", 5: "parenthesised first operand of a juxtaposed call"}

# ---------------------------------------------------------------- generated programs
NAMES = ["x", "y", "z", "n", "acc", "foo", "bar_baz", "i", "s", "xs", "変数"]
FUNCS = ["f", "g", "print!", "log", "assert", "h!"]
STRS = ['"a"', '"hello world"', '"a\\nb"', '"q\\"q"', '"日本語"', '"\\{x}!"', '"a\\{x + 1}b"', '"# not a comment"', '"""two\nlines"""']
BINOPS = ["+", "-", "*", "/", "//", "**", "%", "==", "!=", "<", ">", "<=", ">=", "and", "or", "in", "..", "..<"]


def g_atom(rng, d):
    k = rng.random()
    if k < 0.3:
        return rng.choice(NAMES)
    if k < 0.5:
        return str(rng.choice([0, 1, 2, 10, 42, 1.5, 100]))
    if k < 0.6:
        return rng.choice(STRS)
    if k < 0.65:
        return rng.choice(["True", "False", "None"])
    if d < 3:
        k = rng.random()
        if k < 0.25:
            return "(" + g_expr(rng, d + 1) + ")"
        if k < 0.45:
            return "[" + ", ".join(g_expr(rng, d + 1) for _ in range(rng.randint(0, 3))) + "]"
        if k < 0.55:
            return "{" + ", ".join("%s: %s" % (rng.choice(STRS[:3]), g_expr(rng, d + 2)) for _ in range(rng.randint(1, 2))) + "}"
        if k < 0.65:
            return "{.a = " + g_expr(rng, d + 2) + "; .b = " + g_expr(rng, d + 2) + "}"
        if k < 0.85:
            return rng.choice(NAMES[:6]) + "." + rng.choice(["m", "attr", "push!"]) + "(" + ", ".join(g_expr(rng, d + 2) for _ in range(rng.randint(0, 2))) + ")"
        return rng.choice(FUNCS[:2]) + "(" + ", ".join(g_expr(rng, d + 2) for _ in range(rng.randint(1, 2))) + ")"
    return rng.choice(NAMES)


def g_expr(rng, d=0):
    e = g_atom(rng, d)
    for _ in range(rng.choice([0, 0, 1, 1, 2])):
        e += " " + rng.choice(BINOPS) + " " + g_atom(rng, d)
    if rng.random() < 0.08:
        e = rng.choice(["-", "!"]) + e
    return e


def g_block(rng, ind, depth, out):
    for _ in range(rng.choice([1, 2, 2, 3])):
        pad = " " * ind
        k = rng.random()
        if k < 0.3:
            out.append(pad + rng.choice(NAMES) + rng.choice([" = ", ": Int = ", " = "]) + g_expr(rng))
        elif k < 0.45:
            out.append(pad + rng.choice(FUNCS) + " " + ", ".join(g_expr(rng, 1) for _ in range(rng.randint(1, 2))))
        elif k < 0.55 and depth < 3:
            out.append(pad + rng.choice(["f", "g", "helper"]) + " " + ", ".join(rng.sample(NAMES[:5], rng.randint(1, 2))) + " =")
            g_block(rng, ind + 4, depth + 1, out)
        elif k < 0.65 and depth < 3:
            out.append(pad + "if " + g_expr(rng, 2) + ", do:")
            g_block(rng, ind + 4, depth + 1, out)
        elif k < 0.72 and depth < 3:
            out.append(pad + "for! " + rng.choice(["0..<10", "xs"]) + ", i =>")
            g_block(rng, ind + 4, depth + 1, out)
        elif k < 0.78:
            out.append(pad + rng.choice(NAMES) + " = " + rng.choice(NAMES[:4]) + " -> " + g_expr(rng, 2))
        elif k < 0.84:
            out.append(pad + rng.choice(NAMES) + " = [")
            for _ in range(rng.randint(1, 3)):
                out.append(pad + "    " + g_expr(rng, 2) + ",")
            out.append(pad + "]")
        elif k < 0.9:
            out.append(pad + "# " + rng.choice(["a comment", "x = 1", "日本語"]))
        else:
            out.append(pad + g_expr(rng))
        if rng.random() < 0.1:
            out.append("")


def gen_program(rng):
    out = []
    g_block(rng, 0, 0, out)
    if rng.random() < 0.5:
        g_block(rng, 0, 0, out)
    return "\n".join(out) + ("\n" if rng.random() < 0.8 else "")


# ---------------------------------------------------------------- facts for the known-finding classes
def compute_facts(lay, rw, pos, v, pfacts, new_text):
    old = lay.text
    toks = lay.toks
    p = toks[pos].start if rw == "parens" else pos
    encl, _, idx = LR.state_at(lay, p)
    if rw == "parens":
        idx = pos - 1
    indent = toks[idx].indent if idx >= 0 else 0
    lead, has_comment = -1, False
    if rw in ("trailing-space", "trailing-comment", "blank-line", "comment-line"):
        ls = new_text.rfind("\n", 0, p) + 1
        le = new_text.find("\n", p)
        le = len(new_text) if le < 0 else le
        line = new_text[ls:le]
        s = line.lstrip(" ")
        if s == "" or (s.startswith("#") and not s.startswith("#[")):
            lead, has_comment = len(line) - len(s), s != ""
    fix_changed = False
    delta = len(new_text) - len(old)
    a = toks[idx] if idx >= 0 else None
    b = toks[idx + 1] if 0 <= idx + 1 < len(toks) else None
    if rw == "parens":
        b = toks[pos + 1] if pos + 1 < len(toks) else None
    blank = lambda t, i: 0 <= i < len(t) and t[i] == " "
    # tokens whose reading depends on op_fix: the operators + - * ** and a literal with a minus sign
    fixy = lambda t: t.kind in LR.FIX_OPS or (t.kind in LR.LITERALS and t.content.startswith("-"))
    if a is not None and fixy(a) and a.kind in LR.FIX_OPS and a.end <= p:
        fix_changed |= blank(old, a.end) != blank(new_text, a.end)
    if b is not None and fixy(b) and b.start >= p:
        fix_changed |= blank(old, b.start - 1) != blank(new_text, b.start - 1 + delta)
    # a blank or a `#` comment now directly follows the end of a block comment
    ins_after = rw in ("trailing-space", "trailing-comment") or (rw == "continuation" and v.get("keep", 0) > 0)
    block_blank = (p > 0 and lay.cls[p - 1] == "B" and ins_after) or (rw == "block-comment" and v.get("sp") == 1)
    cont0 = rw == "continuation" and v.get("ind") == 0
    after_operand = rw == "parens" and bool(pfacts.get("after_operand"))
    return [encl, indent, lead, int(has_comment), int(fix_changed), int(block_blank), int(cont0), int(after_operand)]


# ---------------------------------------------------------------- machinery
class Machinery:
    def __init__(self, ctx):
        self.ctx = ctx
        self.h = Harness(ctx, "layout")
        self.model = ctx.model("Layout")

    def parse(self, texts):
        out = []
        for r in self.h.run([[0, t] for t in texts]):
            if not isinstance(r, list) or len(r) != 5:
                out.append([9, 0, 0, 0, 1])          # the parser crashed
            else:
                out.append(r)
        return out

    def tokens(self, texts):
        out = []
        for r in self.h.run([[2, t] for t in texts]):
            if not isinstance(r, list) or len(r) != 2 or not isinstance(r[1], list):
                out.append((1, []))
            else:
                out.append((r[0], [[x[0], x[1], sx_str(x[2]), x[3], x[4], x[5]] for x in r[1]]))
        return out

    def layouts(self, texts):
        return [LR.analyse(t, n, tk) for t, (n, tk) in zip(texts, self.tokens(texts))]

    def judge(self, pairs):
        return self.model.run([[0, a, b] for a, b in pairs])

    def classes(self, facts):
        return self.model.run([[1, f] for f in facts])

    def dump(self, text):
        r = self.h.run([[1, text]])[0]
        return sx_str(r[2]) if isinstance(r, list) and len(r) == 3 else str(r)


def erased_stream(toks):
    return [(k, c) for k, _, c, _, _, _ in toks if k != LR.KIND["EOF"]] if toks else []


def stream_prediction(rw, facts, old_s, new_s):
    """what the lexer theorems predict for the real token streams (kind, content); None = as predicted"""
    if rw in ("trailing-space", "trailing-comment", "continuation", "block-comment"):
        return None if old_s == new_s else "the token streams differ"
    if rw in ("blank-line", "comment-line"):
        if old_s == new_s:
            return None
        nl = (LR.KIND["Newline"], "\n")
        if len(new_s) == len(old_s) + 1:
            for i in range(len(new_s)):
                if new_s[:i] + new_s[i + 1:] == old_s and new_s[i] == nl:
                    return None
        return "the token streams differ by more than one Newline token"
    return None


def locate(lay, rw, line, col):
    """index into points(lay) of the rewrite at (line, col) of its anchor"""
    for i, (r, pos, f) in enumerate(LR.points(lay)):
        if r != rw:
            continue
        off = lay.toks[pos].start if rw == "parens" else pos
        ln = lay.text.count("\n", 0, off)
        cl = off - (lay.text.rfind("\n", 0, off) + 1)
        if (ln, cl) == (line, col):
            return i
    return None


def anchor(lay, rw, pos):
    off = lay.toks[pos].start if rw == "parens" else pos
    return lay.text.count("\n", 0, off), off - (lay.text.rfind("\n", 0, off) + 1)


def evaluate_one(m, text, rw, line, col, variant):
    """-> (verdict, class, detail) for the rewrite at (line, col) of `text`, or None when it cannot be placed"""
    lay = m.layouts([text])[0]
    if lay is None:
        return None
    i = locate(lay, rw, line, col)
    if i is None:
        return None
    _, pos, pf = LR.points(lay)[i]
    nt, v = LR.apply(lay, rw, pos, None, variant)
    o, n = m.parse([text, nt])
    if o[0] != 0:
        return None
    verdict = m.judge([(o, n)])[0]
    cls = m.classes([compute_facts(lay, rw, pos, v, pf, nt)])[0]
    return verdict, cls, {"rewritten": nt, "original_parse": o[:2], "rewritten_parse": n[:2]}


def corpus_files():
    fs = sorted(glob.glob(os.path.join(REPO, "examples", "*.er")) + glob.glob(os.path.join(REPO, "tests", "should_ok", "*.er")))
    out = []
    for f in fs:
        try:
            out.append((os.path.relpath(f, REPO), open(f, encoding="utf-8").read()))
        except (UnicodeDecodeError, OSError):
            pass
    return out


def load_known():
    p = os.path.join(VERIF, "known", "C10.json")
    return json.load(open(p)) if os.path.exists(p) else []


def run(ctx):
    ctx.cov["rule"] = ("programs: every .er file under /repo/examples and /repo/tests/should_ok that the real parser accepts, plus "
                       "generated programs (definitions, calls, operators, blocks, lambdas, collections, records, strings with "
                       "escapes / interpolation / multi-line, comments); each is rewritten ONCE per case at a point found with the "
                       "real lexer's token positions (outside strings and comments): trailing blanks, trailing comment, blank line "
                       "(empty or with the next line's indentation), comment line (next line's indentation, or 0 / 2 / 8 blanks), "
                       "`\\`+newline in a gap of blanks between two tokens, `#[ ]#` in such a gap, parentheses around a literal / "
                       "identifier operand of a binary operator; non-trivial = distinct (program, rewrite, point) whose original parses")
    ctx.cov["trusted_base"] = ["Coq 8.16.1 kernel", "extraction (ExtrOcamlBasic only) + extract/driver.ml",
                               "harness/layout/src/main.rs (Lexer + Parser, derived Debug dump of the AST with lineno / col / Location / DefId digits erased, FNV hash)",
                               "pylib/layout_rewrite.py (token spans rebuilt from the real lexer's token starts; placement of the rewrites)",
                               "C08 (lexer model = Lexer) and C11 (expression grammar = parser) ties, checked by their own checks"]
    ctx.assumptions = ["trees are compared by the FNV-1a hash and the length of the position-erased dump",
                       "the statement parser is not modelled: its layout invariance is observed, not proved",
                       "texts without \\r (files with \\r are skipped)"]
    proof = ctx.coq(["Layout/Props_C10.v"])
    m = Machinery(ctx)
    progs = []
    corpus = os.path.join(VERIF, "corpus", "C10")
    pinned = []
    if os.path.isdir(corpus):
        for f in sorted(os.listdir(corpus)):
            if f.endswith(".json"):
                c = json.load(open(os.path.join(corpus, f)))
                pinned.append(c)
    for name, t in corpus_files():
        progs.append((name, t))
    ngen = ctx.scale(200, 4000)
    for i in range(ngen):
        progs.append(("generated-%d" % i, gen_program(ctx.rng)))
    texts = [t for _, t in progs]
    base = m.parse(texts)
    lays = m.layouts(texts)
    per_rw = ctx.scale(2, 25)
    cases = []            # (prog index, rw, pos, pfacts, variant, new text)
    nondet = []
    for pi, ((name, t), b, lay) in enumerate(zip(progs, base, lays)):
        origin = "generated" if name.startswith("generated-") else "repo file"
        if b[4] != 1:
            nondet.append((name, t))
        if b[0] != 0:
            ctx.count(origin + ": does not parse")
            continue
        if lay is None:
            ctx.count(origin + ": not analysable (\\r, lexical quirk)")
            continue
        ctx.count(origin + ": used")
        pts = LR.points(lay)
        ctx.rng.shuffle(pts)
        seen = {}
        for rw, pos, pf in pts:
            if seen.get(rw, 0) >= per_rw:
                continue
            seen[rw] = seen.get(rw, 0) + 1
            nt, v = LR.apply(lay, rw, pos, ctx.rng)
            cases.append((pi, rw, pos, pf, v, nt))
    ctx.log("%d programs, %d rewrite cases" % (len(progs), len(cases)))
    newp = m.parse([c[5] for c in cases])
    verdicts = m.judge([(base[c[0]], n) for c, n in zip(cases, newp)])
    facts = [compute_facts(lays[c[0]], c[1], c[2], c[4], c[3], c[5]) for c in cases]
    classes = m.classes(facts)
    # the lexer-level prediction of the theorems on the real token streams (cases outside the known classes)
    lex_idx = [i for i, c in enumerate(cases) if classes[i] == 0 and c[1] != "parens"]
    new_toks = m.tokens([cases[i][5] for i in lex_idx])
    old_streams = {}
    stream_bad = []
    used = sorted({cases[i][0] for i in lex_idx})
    for pi, (nerr, tk) in zip(used, m.tokens([texts[pi] for pi in used])):
        old_streams[pi] = erased_stream(tk)
    for i, (nerr, tk) in zip(lex_idx, new_toks):
        c = cases[i]
        why = "lexical error" if nerr else stream_prediction(c[1], c[3], old_streams[c[0]], erased_stream(tk))
        if why:
            stream_bad.append((i, why))
    ctx.cov["token_streams_compared"] = len(lex_idx)
    failing, known_hits = [], {}
    for i, (c, n, v, k) in enumerate(zip(cases, newp, verdicts, classes)):
        pi, rw, pos, pf, var, nt = c
        ctx.count("rewrite:" + rw)
        ln, cl = anchor(lays[pi], rw, pos)
        ctx.case([progs[pi][0], rw, ln, cl, sorted(var.items())], nontrivial=True,
                 sample={"program": progs[pi][0], "rewrite": rw, "line": ln + 1, "col": cl, "variant": var} if i % 400 == 0 else None)
        if v != 0:
            if k != 0:
                known_hits[k] = known_hits.get(k, 0) + 1
                ctx.count("known class %d: %s" % (k, CLASS[k]))
            else:
                failing.append((i, v))
        elif k != 0:
            ctx.count("in a known class, tree unchanged")
    for i, why in stream_bad:
        if verdicts[i] == 0:
            failing.append((i, 4))
    ctx.cov["programs"] = len(progs)
    ctx.cov["known_class_hits"] = {CLASS[k]: n for k, n in sorted(known_hits.items())}
    if nondet:
        name, t = nondet[0]
        ctx.violation("failing-input", "program violating C10: " + VERDICT[1], case={"program": name, "text": t[:2000]},
                      judge={"code": 1})
        return
    # pinned corpus cases (past failures) must pass or be in a known class
    for c in pinned:
        r = evaluate_one(m, c["text"], c["rewrite"], c["line"], c["col"], c.get("variant"))
        if r is not None and r[0] != 0 and r[1] == 0:
            failing.append((("pinned", c), r[0]))
    if failing:
        report_failing(ctx, m, progs, lays, cases, failing, stream_bad)
        return
    # known findings: each listed witness must still reproduce in its class
    for e in load_known():
        if e.get("status") != "finding":
            continue
        w = e["witness"]
        r = evaluate_one(m, w["text"], w["rewrite"], w["line"], w["col"], w.get("variant"))
        if r is not None and r[0] != 0 and r[1] == e.get("class_code"):
            ctx.known_finding(e)
        else:
            ctx.notes.append("stale-known-finding %s: the witness no longer reproduces (%s)" % (e["id"], r and r[:2]))
            print("NOTE stale-known-finding property=C10 id=%s" % e["id"])
    if not proof.ok:
        # nothing on the implementation side failed: search a larger batch before reporting the broken theorem
        extra = [gen_program(ctx.rng) for _ in range(ctx.scale(300, 2000))]
        eb = m.parse(extra)
        el = m.layouts(extra)
        more = []
        for pi, (t, b, lay) in enumerate(zip(extra, eb, el)):
            if b[0] != 0 or lay is None:
                continue
            pts = LR.points(lay)
            ctx.rng.shuffle(pts)
            for rw, pos, pf in pts[:12]:
                nt, v = LR.apply(lay, rw, pos, ctx.rng)
                more.append((pi, rw, pos, pf, v, nt))
        mp = m.parse([c[5] for c in more])
        mv = m.judge([(eb[c[0]], n) for c, n in zip(more, mp)])
        mk = m.classes([compute_facts(el[c[0]], c[1], c[2], c[4], c[3], c[5]) for c in more])
        bad = [(i, v) for i, (v, k) in enumerate(zip(mv, mk)) if v != 0 and k == 0]
        ctx.cov["search_batch"] = len(more)
        if bad:
            report_failing(ctx, m, [("search-%d" % i, t) for i, t in enumerate(extra)], el, more, bad, [])
            return
        ctx.violation("broken-theorem", "theorem(s) no longer check: " + proof.summary(), theorem=proof.summary(), no_input=True)


def report_failing(ctx, m, progs, lays, cases, failing, stream_bad):
    why_stream = dict(stream_bad)
    per = {}
    for key, v in failing:
        if isinstance(key, tuple):                       # a pinned corpus case
            c = key[1]
            ctx.violation("failing-input", "pinned rewrite violating C10: %s" % VERDICT.get(v, v), case=c, judge={"code": v})
            continue
        pi, rw, pos, pf, var, nt = cases[key]
        if per.get((rw, v), 0) >= 1 or len(per) >= 4:
            continue
        per[(rw, v)] = 1
        name, text = progs[pi]
        ln, cl = anchor(lays[pi], rw, pos)
        lines = text.split("\n")
        keep = ln

        def fails(sub):
            idxs = [j for j, _ in sub]
            if keep not in idxs:
                return False
            t2 = "\n".join(s for _, s in sub)
            r = evaluate_one(m, t2, rw, idxs.index(keep), cl, var)
            return r is not None and r[0] == v and r[1] == 0
        small_lines = list(enumerate(lines))
        if v != 4 and len(lines) <= 400:
            small_lines = shrink_list(small_lines, fails, budget=60)
        idxs = [j for j, _ in small_lines]
        small = "\n".join(s for _, s in small_lines)
        r = evaluate_one(m, small, rw, idxs.index(keep), cl, var) if keep in idxs else None
        if r is None or r[0] == 0:
            small, idxs, r = text, list(range(len(lines))), evaluate_one(m, text, rw, ln, cl, var)
        what = VERDICT.get(v, "the real lexer's token streams are not as the lexer theorems predict (%s)" % why_stream.get(key, ""))
        ctx.violation("failing-input", "layout rewrite violating C10 (%s at line %d col %d): %s" % (rw, idxs.index(keep) + 1, cl, what),
                      case={"text": small, "rewrite": rw, "line": idxs.index(keep), "col": cl, "variant": var, "origin": name},
                      impl=r[2] if r else None, judge={"code": v, "meaning": what})


def replay(ctx, path):
    r = json.load(open(path))
    m = Machinery(ctx)
    case = r.get("case") or {}
    if "text" not in case:
        print("no concrete input in this replay file:", r.get("what"))
        return
    res = evaluate_one(m, case["text"], case["rewrite"], case["line"], case["col"], case.get("variant"))
    print("program:\n" + case["text"])
    print("rewrite:", case["rewrite"], "at line", case["line"] + 1, "col", case["col"], case.get("variant"))
    if res is None:
        print("the rewrite cannot be placed (the program does not parse / cannot be analysed any more)")
        return
    v, k, d = res
    print("rewritten:\n" + d["rewritten"])
    print("judge:", v, VERDICT.get(v, "ok"), "| known class:", k, CLASS.get(k, "-"))
    if v != 0:
        print("original tree: ", m.dump(case["text"])[:1500])
        print("rewritten tree:", m.dump(d["rewritten"])[:1500])
    if v != 0 and k == 0:
        ctx.violation("failing-input", VERDICT.get(v, str(v)), case=case, impl=d, judge={"code": v})
