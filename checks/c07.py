"""C07 — the checker and code generator never crash on a well-formed program.

proof (partial):  coq/NoCrash/Props_C07.v
                  print_expr_roundtrip   the printer's text of the operator sub-fragment lexes and parses to the intended
                                         tree against the C11 models (input validity is proved, not assumed, there)
                  check_total            the reference checker of the fragment is total
                  emit_total / compile_total(_all)   a hand model of codegen.rs' stack accounting reaches none of its abort
                                         sites on an HIR satisfying the front-end invariant hcheck; the lowering of every
                                         fragment program satisfies it
                  legacy_*_refuted       the two crashes found with that model (repaired)
                  judge_spec             the judge is the property; classes are decided by the internal-error site
deciding observation: erg itself.  For every program: `erg check` and `erg compile -o L` (quick: L = 0, 3; thorough:
                  0..3); a panic, a signal, a hang, an internal-compiler-error message is the failing input.
inputs:           (a) typed CoreErg programs (pylib/coreerg_gen.py), (b) the same untyped / ill-typed (pylib/c07_gen.py),
                  all printed by the EXTRACTED Gallina printer NoCrash.Gen.print_erg (compared with its Python twin) and
                  satisfying the extracted grammar predicate wf_progb; (c) text mutations of corpus programs kept when
                  `erg --mode parse` accepts them.
ties:             printer twin equality; every tree program must pass the real parser; the stack model's maximal depth is
                  compared with the depth of the emitted bytecode on expression-fragment programs; gen/BugSites.v (every
                  panic!/unwrap/compiler_bug... site of the compiler crate) is regenerated and crash observations are
                  resolved against it.
"""
import shutil

from lib.vplib import *
from pylib import coreerg_gen as G
from pylib import c07_gen as M
from pylib import c07_run as R
from pylib import c07_sites as S

REGISTRY = dict(
    category="proof",
    text="PARTIAL proof; the deciding observation is differential execution of erg. Coq side (coq/NoCrash): the fragment "
         "grammar wf_prog and the printer print_erg are Gallina definitions that the check executes (extracted) on every "
         "generated tree, so the generated inputs are programs of a defined grammar; for the operator sub-fragment the "
         "printed text is PROVED to lex and parse to the intended tree against the C11 models of the lexer's operator "
         "handling and the parser's operator stack (print_expr_roundtrip, unbounded); the reference checker is total "
         "(check_total); a hand model of the stack accounting of codegen.rs with every abort site explicit is proved to "
         "reach none of them on an HIR satisfying the front-end invariant hcheck, which the lowering of every fragment "
         "program satisfies (emit_total, compile_total). That theorem is about the model: it found two real crashes by "
         "inspection (while! with a call as condition; lambda with *args and defaults), both repaired. What no proof here "
         "covers - erg's checker never panicking / never reporting an internal error - is decided by running `erg check` "
         "and `erg compile -o L` on typed, untyped, ill-typed fragment programs and on mutated corpus programs; crash "
         "classes are decided by the internal-error site (Spec.known_c07), new classes are violations.",
    note="Trusted: Coq kernel, extraction (ExtrOcamlBasic) + generic OCaml driver, pylib/c07_run.py (process exit status / "
         "output classification), `erg --mode parse` as the arbiter of syntactic validity outside the operator "
         "sub-fragment, the C11 models (ExprParse) for the round-trip theorem. The stack model is tied to erg only by "
         "comparing its maximal stack depth with the depth of the emitted bytecode (CPython's dis.stack_effect) on "
         "expression-fragment programs. Hang = 60 s of CPU time (RLIMIT_CPU, twice the property's 30 s), re-established alone (a wall-clock limit of max(600 s, 300 s x load per core) only guards against a sleeping process). A stack "
         "overflow has no location: the check re-runs it under gdb and names the recursion cycle.",
    technique="Coq-proved input validity + reference checker; crash detection by differential execution",
    design="DESIGN.md §4 C07")

KIND_CODE = {"ok": 0, "diag": 1, "panic": 2, "bug": 3, "signal": 4, "hang": 5, "exit": 6}


# ---------------------------------------------------------------------------------------------- known classes -> gen/KnownC07.v
def known_entries():
    p = os.path.join(VERIF, "known", "C07.json")
    return json.load(open(p)) if os.path.exists(p) else []


def render_known(entries):
    def zs(s):
        return "[" + "; ".join(str(ord(c)) for c in s) + "]"
    L = ["(* generated by checks/c07.py from /verif/known/C07.json (entries with status \"finding\") - do not edit *)",
         "From Coq Require Import ZArith List.", "Import ListNotations.", "Open Scope Z_scope.", "",
         "(* (class id, kind, site, message fragment); kinds: 2 panic 3 internal-error message 4 signal 5 hang *)",
         "Definition known_classes_raw : list (Z * Z * list Z * list Z) := ["]
    rows = []
    for e in entries:
        if e.get("status") != "finding":
            continue
        c = e["class"]
        rows.append("  (* %s: %s | %s | %s *)\n  (%d, %d, %s, %s)" % (
            e["id"], c["kind"], c["site"].replace("*)", "* )").replace("(*", "( *"), c["msg"].replace("*)", "* )").replace("(*", "( *"),
            c["class_id"], KIND_CODE[c["kind"]], zs(c["site"]), zs(c["msg"])))
    L.append(";\n".join(rows))
    L.append("].")
    return "\n".join(L) + "\n"


# ---------------------------------------------------------------------------------------------- cases
class Case:
    """one program: kind a/b/c/seed/corpus/known, text, optional tree (prog, U)"""
    __slots__ = ("kind", "label", "src", "prog", "U", "model", "res")

    def __init__(self, kind, label, src, prog=None, U=None):
        self.kind, self.label, self.src, self.prog, self.U = kind, label, src, prog, (U or [])
        self.model = None
        self.res = None

    def wire(self):
        return [G.to_sx(self.prog), list(self.U)]

    def as_json(self):
        d = {"kind": self.kind, "label": self.label, "erg": self.src}
        if self.prog is not None:
            d["sx"] = self.wire()
        return d


def gen_tree_cases(ctx):
    rng = ctx.rng
    k = float(os.environ.get("C07_SCALE", "1"))
    na, nb = int(k * ctx.scale(35, 300)), int(k * ctx.scale(120, 1000))
    out = []
    for name, prog, U in M.seed_programs():
        out.append(Case("seed", name, None, prog, U))
    for _ in range(na):
        level = rng.choice([1, 2, 3, 3, 4, 4])
        p = M.normalise(G.Gen(rng, level=level, max_stmts=rng.choice([6, 10, 14])).program())
        out.append(Case("a", "typed level %d" % level, None, p, []))
    for _ in range(int(k * ctx.scale(12, 120))):
        p = M.normalise(G.Gen(rng, expr_only=True, max_stmts=rng.choice([4, 8])).program())
        out.append(Case("a-expr", "typed expression fragment", None, p, []))
    for _ in range(nb):
        p = M.normalise(G.Gen(rng, level=rng.choice([3, 3, 4, 4]), max_stmts=rng.choice([6, 10, 14])).program())
        U = M.untype(rng, p) if rng.random() < 0.7 else []
        muts = []
        if rng.random() < 0.75:
            p, muts = M.mutate(rng, p)
            M.clear_static(p)
        out.append(Case("b", ",".join(muts) + ("|untyped" if U else ""), None, p, U))
    return out


def gen_corpus_cases(ctx):
    rng = ctx.rng
    k = float(os.environ.get("C07_SCALE", "1"))
    nc = int(k * ctx.scale(120, 1000))
    files = M.corpus_files(REPO)
    out = []
    if not files:
        return out
    for _ in range(nc):
        f, txt = rng.choice(files)
        names = []
        t = txt
        for _ in range(rng.choice([1, 1, 2, 3])):
            t2, n = M.mutate_text(rng, t)
            if t2:
                t = t2
                names.append(n)
        if names and t != txt:
            out.append(Case("c", f + ":" + ",".join(names), t if t.endswith("\n") else t + "\n"))
    return out


def load_corpus(ctx):
    out = []
    d = os.path.join(VERIF, "corpus", "C07")
    if os.path.isdir(d):
        for f in sorted(os.listdir(d)):
            if f.endswith(".json") and f != "sites_baseline.json":
                j = json.load(open(os.path.join(d, f)))
                if "sx" in j:
                    prog = G.from_sx(j["sx"][0])
                    out.append(Case("corpus", f, None, prog, j["sx"][1]))
                else:
                    out.append(Case("corpus", f, j["erg"]))
    return out


# ---------------------------------------------------------------------------------------------- model side
def run_model(ctx, model, cases):
    """extracted wf_progb / print_erg / check / hcheck / compile on every tree case; fills .src and .model"""
    trees = [c for c in cases if c.prog is not None]
    outs = model.run([[0, c.wire()] for c in trees])
    bad_wf, bad_twin = [], []
    for c, o in zip(trees, outs):
        if len(o) < 8:
            raise FrameworkError("the model cannot decode a generated tree: %s" % c.label)
        wf, text, ref, hck, site, stack, nested, nfrag = o
        text = sx_str(text)
        twin = M.to_erg(c.prog, c.U)
        c.model = {"wf": wf, "ref": ref, "hck": hck, "site": site, "stack": stack, "nested": nested, "ofrag": nfrag}
        c.src = text
        if wf != 1:
            bad_wf.append(c)
        if twin != text:
            bad_twin.append((c, twin))
    return bad_wf, bad_twin


def obs_wire(o):
    return [KIND_CODE[o.kind], o.site, o.msg]


# ---------------------------------------------------------------------------------------------- main
def run(ctx):
    ctx.level = "proof"
    ctx.cov["rule"] = ("one evaluation = one syntactically valid program run through `erg check` and `erg compile -o L` "
                       "(quick L in {0,3}, thorough 0..3); streams: typed CoreErg programs, the same untyped / with 1-3 "
                       "ill-typing mutations (all printed by the extracted Gallina printer), text mutations of "
                       "/repo/examples and /repo/tests/should_{ok,err} that `erg --mode parse` accepts; non-trivial = "
                       "distinct program text that passed the parser")
    ctx.cov["trusted_base"] = ["Coq 8.16.1 kernel", "extraction (ExtrOcamlBasic only) + extract/driver.ml",
                               "pylib/c07_run.py (exit status / output classification, hang limit)",
                               "`erg --mode parse` as arbiter of syntactic validity outside the proved sub-fragment",
                               "coq/ExprParse (C11 models) for print_expr_roundtrip"]
    ctx.assumptions = ["the theorems emit_total / compile_total are about the hand model NoCrash/Check.v of codegen.rs' stack "
                       "accounting, tied to erg only through the maximal stack depth of expression-fragment programs",
                       "no theorem covers erg's type checker: absence of crashes there is observed, not proved",
                       "a hang is 60 s of CPU time (RLIMIT_CPU; twice the 30 s of the property text, to be robust on a loaded machine), "
                       "re-established by running the command alone; wall-clock limit max(600 s, 300 s x load per core) for a sleeping process"]
    # ---- translators
    try:
        sites = S.scan(REPO)
    except ValueError as e:
        raise TieBroken("internal-error site translator: %s" % e)
    text, fid, nid = S.render(sites)
    ctx.write_gen("BugSites", text)
    entries = known_entries()
    ctx.write_gen("KnownC07", render_known(entries))
    keys = S.site_keys(sites)
    base_p = os.path.join(VERIF, "corpus", "C07", "sites_baseline.json")
    baseline = set(json.load(open(base_p))) if os.path.exists(base_p) else set()
    new_sites = sorted(set(keys) - baseline)
    ctx.cov["bug_sites"] = {"total": len(sites), "in_anchored_files": sum(1 for s in sites if s["anchored"]),
                            "new_since_baseline": new_sites[:40], "gone_since_baseline": len(baseline - set(keys))}
    if new_sites:
        ctx.notes.append("NOTE %d internal-error site(s) not in the committed baseline (a changed tree): %s" % (
            len(new_sites), "; ".join(new_sites[:8])))
    # ---- proofs
    proof = ctx.coq(["NoCrash/Props_C07.v"])
    model = ctx.model("NoCrash")
    # ---- erg
    erg = ctx.erg_bin()
    work = os.path.join(CACHE, "tmp", "c07-%d" % os.getpid())
    shutil.rmtree(work, ignore_errors=True)
    levels = (0, 1, 2, 3) if ctx.thorough else (0, 3)
    runner = R.Runner(erg, ctx.erg_env(), work, REPO, levels=levels)
    ctx.cov["check_depends_on_opt_level"] = runner.check_all_levels
    try:
        return run_with(ctx, proof, model, runner, sites, entries)
    finally:
        shutil.rmtree(work, ignore_errors=True)


def classify(model, o):
    """class id of a crash observation by the extracted Spec.known_c07"""
    return model.run([[1, KIND_CODE[o.kind], o.site, o.msg]])[0]


def crash_fails(runner, cmd_levels, sig):
    """predicate for shrinking: the text still crashes at the same site (for a stack overflow / a hang, whose site needs a
    gdb re-run, only the kind is compared while shrinking; the site of the result is established again at the end)"""
    coarse = sig.startswith("signal:stack-overflow") or sig.startswith("hang:")
    want = ":".join(sig.split(":")[:2]) if coarse else sig

    def fails(src):
        if not runner.parses(src):
            return False
        r = runner.run_one("shrink%d" % os.getpid(), src, levels=cmd_levels, resolve=not coarse)
        return any((s.startswith(want) if coarse else s == want) for s in r.sigs())
    return fails


def shrink_case(ctx, runner, c, sig):
    budget = ctx.scale(25, 60)
    lv = runner.levels[:1] if any(o.sig == sig and o.cmd.startswith("check") for o in c.res.crashes) else runner.levels
    fails = crash_fails(runner, lv, sig)
    if c.prog is not None:
        def tree_fails(p):
            try:
                M.fix_block_ends(p)
                return fails(M.to_erg(p, c.U))
            except Exception:
                return False
        small = G.shrink(c.prog, tree_fails, budget=budget)
        M.fix_block_ends(small)
        src = M.to_erg(small, c.U)
        if fails(src) and sig in runner.run_one("confirm%d" % os.getpid(), src, levels=lv).sigs():
            return Case(c.kind, c.label + " (shrunk)", src, small, c.U)
        return c
    src = M.shrink_text(c.src, fails, budget=budget)
    if src != c.src and sig in runner.run_one("confirm%d" % os.getpid(), src, levels=lv).sigs():
        return Case(c.kind, c.label + " (shrunk)", src)
    return c


def run_with(ctx, proof, model, runner, sites, entries):
    cases = load_corpus(ctx) + gen_tree_cases(ctx)
    bad_wf, bad_twin = run_model(ctx, model, cases)
    if bad_wf:
        raise FrameworkError("generator bug: %d generated trees are outside the grammar wf_progb, first: %s\n%s" % (
            len(bad_wf), bad_wf[0].label, bad_wf[0].src))
    if bad_twin:
        c, twin = bad_twin[0]
        ctx.violation("broken-correspondence", "the extracted printer print_erg and its Python twin differ on %d programs" % len(bad_twin),
                      case=c.as_json(), impl={"python_twin": twin}, model={"print_erg": c.src}, no_input=True)
    crashing_model = [c for c in cases if c.prog is not None and c.model["site"] != 0]
    if crashing_model:     # cannot happen while compile_total_all holds
        c = crashing_model[0]
        ctx.violation("broken-theorem", "the extracted stack model reaches abort site %d on a fragment program" % c.model["site"],
                      case=c.as_json(), theorem="compile_total_all", no_input=True)
    known_w = []
    for e in entries:
        if e.get("status") == "finding" and e.get("witness"):
            known_w.append(Case("known", e["id"], e["witness"] if e["witness"].endswith("\n") else e["witness"] + "\n"))
    text_cases = gen_corpus_cases(ctx)
    ctx.log("%d tree programs, %d corpus mutants, %d known witnesses" % (len(cases), len(text_cases), len(known_w)))
    # ---- syntactic validity by the real parser
    allc = cases + text_cases + known_w
    pr = runner.parses_many([c.src for c in allc])
    kept, rejected_trees = [], []
    for c, (ok, crashed) in zip(allc, pr):
        if crashed:
            ctx.count("parser crashed (C09's business; program discarded)")
        if ok:
            kept.append(c)
        else:
            ctx.count("discarded: syntax error (%s)" % ("corpus mutant" if c.kind == "c" else c.kind))
            if c.prog is not None:
                rejected_trees.append(c)
    if rejected_trees:
        c = rejected_trees[0]
        ctx.violation("broken-correspondence", "%d programs of the grammar wf_prog, printed by print_erg, are rejected by "
                      "`erg --mode parse`: the grammar / printer no longer produces valid Erg" % len(rejected_trees),
                      case=c.as_json(), no_input=True)
    ctx.log("%d programs passed the parser" % len(kept))
    # ---- run
    results = runner.run_many([c.src for c in kept], expected_hang={k for k, c in enumerate(kept) if c.kind == "known"})
    for c, r in zip(kept, results):
        c.res = r
    ctx.cov["commands_run"] = runner.commands
    ctx.log("erg ran (%d commands)" % runner.commands)
    # ---- judge
    seen = set()
    by_class, unknown = {}, {}
    reached = {}
    for c in kept:
        r = c.res
        verdict = r.verdict
        ctx.count("stream %s: %s" % (c.kind, verdict))
        if c.prog is not None:
            ctx.count("reference checker %s / erg %s" % ("accepts" if c.model["ref"] == 0 else "rejects",
                                                       "accepts" if verdict == "ok" else ("rejects" if verdict == "diag" else "CRASHES")))
            if c.model["ofrag"]:
                ctx.count("programs with expressions in the proved round-trip sub-fragment")
        key = c.src
        ctx.case(key, nontrivial=key not in seen, sample={"kind": c.kind, "erg": c.src[:400], "verdict": verdict,
                                                          "commands": [o.cmd + ":" + o.kind for o in r.outcomes]})
        seen.add(key)
        if verdict != "crash":
            continue
        v = model.run([[2, [obs_wire(o) for o in r.outcomes]]])[0]
        for o in r.crashes:
            reached[o.sig] = reached.get(o.sig, 0) + 1
        if v > 0:
            by_class.setdefault(v, []).append(c)
        elif v == -1:
            bad = [o for o in r.crashes if classify(model, o) == 0]
            unknown.setdefault(bad[0].sig, []).append(c)
        else:
            raise FrameworkError("judge and runner disagree on %s" % c.label)
    ctx.cov["crash_sites_reached"] = reached
    ctx.cov["known_class_hits"] = {str(k): len(v) for k, v in by_class.items()}
    # sites of the table that were reached (panic location / caused-from function)
    table_fns = set((s["file"], s["fn"]) for s in sites)
    hit_table = sorted(set(sig for sig in reached if sig.startswith("panic:crates/erg_compiler/")
                           and (sig.split(":")[1].replace("crates/erg_compiler/", ""), sig.split(":")[2]) in table_fns))
    ctx.cov["table_sites_reached"] = hit_table
    # ---- stack model tie: co_stacksize of the module on expression-fragment programs erg compiled
    tie_stack(ctx, runner, [c for c in kept if c.kind == "a-expr" and c.res.verdict == "ok"])
    # ---- known findings
    id_of = {e["class"]["class_id"]: e for e in entries if e.get("status") == "finding"}
    for cid, e in sorted(id_of.items()):
        hits = by_class.get(cid, [])
        if hits:
            ctx.known_finding(e)
        else:
            ctx.notes.append("NOTE stale-known-finding %s: neither the witness nor any generated program reproduces it" % e["id"])
            print("NOTE stale-known-finding property=C07 %s" % e["id"])
    # ---- development aid: C07_LEARN=<file> dumps every unlisted class with a shrunk witness (drafts for known/C07.json)
    learn = os.environ.get("C07_LEARN")
    if learn:
        drafts = []
        for sig, cs in sorted(unknown.items()):
            cs.sort(key=lambda c: len(c.src))
            small = shrink_case(ctx, runner, cs[0], sig)
            o = [x for x in cs[0].res.crashes if x.sig == sig][0]
            drafts.append({"sig": sig, "kind": o.kind, "site": o.site, "msg": o.msg, "cmd": o.cmd, "count": len(cs),
                           "label": cs[0].label, "witness": small.src, "original": cs[0].src})
        json.dump(drafts, open(learn, "w"), indent=1, ensure_ascii=False)
    # ---- violations: crashes outside the listed classes
    for sig, cs in sorted(unknown.items(), key=lambda kv: -len(kv[1]))[:4]:
        cs.sort(key=lambda c: len(c.src))
        c = cs[0]
        small = shrink_case(ctx, runner, c, sig)
        if small.res is None:
            small.res = runner.run_one("final", small.src)
        o = [x for x in small.res.crashes if x.sig == sig] or small.res.crashes or c.res.crashes
        o = o[0]
        ctx.violation("failing-input", "`erg %s` on a syntactically valid program: %s at %s (%s); %d generated programs hit this site" % (
            o.cmd, o.kind, o.site, o.msg[:160], len(cs)), case=small.as_json(),
            impl={"outcomes": [x.as_json() for x in small.res.outcomes]},
            model={"expected": "success or ordinary diagnostics at every level",
                   "reference_checker": (c.model or {}).get("ref")}, judge=False)
    if not proof.ok and not unknown:
        ctx.violation("broken-theorem", "theorem(s) no longer check: " + proof.summary(), theorem=proof.summary(), no_input=True)


STACK_SCRIPT = r"""
import dis, json, marshal, sys
out = []
for p in sys.argv[1:]:
    try:
        co = marshal.loads(open(p, 'rb').read()[16:])
        code = co.co_code
        # after the prelude (first IMPORT_STAR): linear simulation of the value stack with CPython's own stack effects
        start = None
        for i in range(0, len(code), 2):
            if dis.opname[code[i]] == 'IMPORT_STAR':
                start = i + 2
                break
        depth = mx = 0
        ext = 0
        pending = {}
        ok = start is not None
        i = start or 0
        while ok and i < len(code):
            op, arg = code[i], code[i + 1]
            if i in pending:                      # a jump target (it may be an EXTENDED_ARG prefix)
                depth -= pending.pop(i)
            i += 2
            if dis.opname[op] == 'EXTENDED_ARG':
                ext = (ext << 8) | arg
                continue
            arg, ext = (ext << 8) | arg, 0
            if dis.opname[op] in ('JUMP_IF_TRUE_OR_POP', 'JUMP_IF_FALSE_OR_POP'):
                # codegen.rs (emit_binop, and/or) keeps counting the left operand while the right one is evaluated and
                # decrements after it: the simulation follows that accounting (an over-approximation by one, harmless)
                pending[i + 2 * arg] = pending.get(i + 2 * arg, 0) + 1
                eff = 0
            else:
                eff = dis.stack_effect(op, arg if op >= dis.HAVE_ARGUMENT else None, jump=False)
            depth += eff
            mx = max(mx, depth)
        out.append(mx if ok else -1)
    except Exception as e:
        out.append(-2)
print(json.dumps(out))
"""


def tie_stack(ctx, runner, cases):
    """tie of the stack-accounting model: on expression-fragment programs (straight-line module code; the wrap codes
    of the generator are exact there, C01 compares the bytecode) the model's maximal stack_len must equal the maximal
    depth of the value stack of the emitted code, computed with CPython 3.11's own dis.stack_effect after the prelude"""
    cases = cases[:ctx.scale(12, 120)]
    if not cases:
        return
    d = os.path.join(runner.work, "stack")
    os.makedirs(d, exist_ok=True)
    script = os.path.join(d, "ss.py")
    open(script, "w").write(STACK_SCRIPT)
    pycs = []
    for k, c in enumerate(cases):
        p = os.path.join(d, "s%d.er" % k)
        open(p, "w", encoding="utf-8").write(c.src)
        pycs.append(p[:-3] + ".pyc")
    from concurrent.futures import ThreadPoolExecutor
    env = runner.env

    def comp(p):
        subprocess.run([runner.erg, "compile", "--py-magic-num", R.MAGIC_311, p], env=env, capture_output=True, timeout=runner.timeout * 3)
    with ThreadPoolExecutor(16) as ex:
        list(ex.map(comp, [p[:-4] + ".er" for p in pycs]))
    q = sh(["/root/.pyenv/versions/3.11.7/bin/python3.11", script] + pycs, timeout=600)
    if q.returncode != 0:
        raise FrameworkError("stack depth reader failed: " + q.stderr[-1000:])
    sizes = json.loads(q.stdout)
    pairs = [(c, s) for c, s in zip(cases, sizes) if s >= 0]
    bad = [(c, s) for c, s in pairs if s != c.model["stack"]]
    ctx.cov["stack_model_tie"] = {"expression-fragment programs compiled": len(pairs),
                                  "maximal stack depth of the emitted code (dis.stack_effect) equal to the model's": len(pairs) - len(bad)}
    if bad:
        c, s = bad[0]
        ctx.violation("broken-correspondence", "the stack-accounting model NoCrash/Check.v and the emitted bytecode disagree on the "
                      "maximal stack depth of %d of %d expression-fragment programs (model %d, bytecode %d): codegen.rs' stack "
                      "accounting or its instruction selection changed" % (len(bad), len(pairs), c.model["stack"], s),
                      case=c.as_json(), impl={"max_depth": s}, model={"max_depth": c.model["stack"]}, no_input=True)


def replay(ctx, path):
    r = json.load(open(path))
    case = r.get("case") or {}
    src = case.get("erg")
    if not src:
        print("replay file carries no program")
        return
    erg = ctx.erg_bin()
    work = os.path.join(CACHE, "tmp", "c07-replay-%d" % os.getpid())
    runner = R.Runner(erg, ctx.erg_env(), work, REPO, levels=(0, 1, 2, 3))
    try:
        print(src)
        print("parses:", runner.parses(src))
        res = runner.run_one("replay", src)
        for o in res.outcomes:
            print("erg %-14s -> %-6s %s %s" % (o.cmd, o.kind, o.site, o.msg[:200]))
        model = ctx.model("NoCrash")
        v = model.run([[2, [obs_wire(o) for o in res.outcomes]]])[0]
        print("judge verdict (0 ok, -1 violation, n known class):", v)
        if v == -1:
            ctx.violation("failing-input", "crash outside the known classes", case=case,
                          impl={"outcomes": [o.as_json() for o in res.outcomes]}, judge=False)
    finally:
        shutil.rmtree(work, ignore_errors=True)
