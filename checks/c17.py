"""C17 — transpiled Python behaves like the compiled bytecode.   proof (partial)

proof:          coq/Emit/Props_C17.v over coq/Emit/Py.v (transcription of PyScriptGenerator::escape_str / transpile_lit,
                replace_non_symbolic / demangle / transpile_name): every string literal is printed as a Python short
                string literal denoting it (spec coq/Emit/PySpec.v = executable grammar of Python short strings);
                name mangling injective on alphanumeric names, refuted outside (known finding).
                The theorems cover LITERALS and NAMES only; statements/expressions are tied by (3) alone.
correspondence: (1) literal level: text of `(print)(<lit>,)` lines of the real script == extracted transpile_lit;
                (2) name level: Python names in `def`/`print` lines of the real script == extracted transpile_name
judge:          (3) whole-script differential, the observation the property names: `erg transpile f.er`; ast.parse;
                `python3.11 f.py`  vs  `erg compile f.er; python3.11 f.pyc`: stdout and exit status equal.
                Generated programs (pylib/c17_gen.py: nasty strings, interpolation, braces; pylib/coreerg_gen.py:
                definitions, arithmetic, print!, if/for!/while!, functions, lists) and every .er under
                /repo/examples and /repo/tests/should_ok that the transpiler accepts.
spec validation: extracted py_str_parse vs CPython (tokenize + ast.literal_eval) on real literals and mutated texts
"""
import ast
import concurrent.futures
import io
import tempfile
import tokenize
import warnings

from lib.vplib import *
from pylib import c17_gen as SG

REGISTRY = dict(
    category="proof",
    text="proof (partial): Coq model of the string-literal and name printers of the Python transpile target "
         "(coq/Emit/Py.v) with theorems that every string (all code points) is printed as a Python literal denoting it "
         "(executable grammar of Python short strings, coq/Emit/PySpec.v) and that name mangling is injective on "
         "alphanumeric names (refuted outside: known finding); tied to transpile.rs by text equality of literals and names "
         "in real scripts. Statement-level transpilation is NOT proved: it is tied by the whole-script differential only "
         "(transpile -> ast.parse -> python3.11 script vs python3.11 bytecode: stdout + exit status) on generated programs "
         "and every corpus program the transpiler accepts.",
    note="Theorems cover literals and names only. Many corpus programs show genuine statement-level transpiler defects; "
         "they are listed in known/C17.json by file and failure signature (program-level classes are outside the Coq "
         "model). Programs with integer literals >= 2**31 are excluded (bytecode side defect of property C15).",
    technique="Coq proof over hand model (literals, names) + text-level correspondence + whole-script differential vs bytecode",
    design="DESIGN.md §4 C17")

PY311 = PY_VERSIONS["3.11"]
PYENV = {"PYTHONIOENCODING": "utf-8", "PYTHONUTF8": "1", "PYTHONDONTWRITEBYTECODE": "1"}
ANSI = re.compile(r"\x1b\[[0-9;]*m")
ADDR = re.compile(r"0x[0-9a-fA-F]{6,}")
TIMEOUT = 600      # a time-out is never a verdict (the machine may be loaded): the program is skipped and counted


def _run(cmd, cwd, env, timeout=TIMEOUT):
    try:
        r = subprocess.run(cmd, cwd=cwd, env=env, stdin=subprocess.DEVNULL, stdout=subprocess.PIPE, stderr=subprocess.PIPE,
                           timeout=timeout)
        return r.returncode, r.stdout.decode("utf-8", "replace"), ANSI.sub("", r.stderr.decode("utf-8", "replace"))
    except subprocess.TimeoutExpired:
        return -9, "", "timeout"


def last_line(err):
    ls = [l for l in err.strip().splitlines() if l.strip()]
    return ls[-1][:200] if ls else ""


def observe_one(erg, env, path, want_script=False):
    """-> dict(status, ...). status: declined | no-bytecode | timeout | invalid-python | same | diff | skipped-<why>"""
    d = os.path.dirname(path)
    base = os.path.basename(path)[:-3]
    py, pyc = os.path.join(d, base + ".py"), os.path.join(d, base + ".pyc")
    for f in (py, pyc):
        if os.path.exists(f):
            os.remove(f)
    t = _run([erg, "transpile", path], d, env)
    if t[0] == -9:
        return dict(status="timeout")
    if t[0] != 0 or not os.path.exists(py):
        txt = t[1] + t[2]
        why = "not yet implemented" if "not yet implemented" in txt or "not implemented" in txt else \
            "panic" if "panicked" in txt else "compile error"
        return dict(status="declined", why=why, detail=last_line(txt))
    script = open(py, encoding="utf-8", errors="replace", newline="").read()
    out = dict(script=script) if want_script else {}
    try:
        with warnings.catch_warnings():
            warnings.simplefilter("ignore")
            ast.parse(script)
    except (SyntaxError, ValueError) as e:
        line = script.split("\n")[e.lineno - 1][:200] if getattr(e, "lineno", None) and e.lineno <= script.count("\n") + 1 else ""
        return dict(out, status="invalid-python", sig="invalid-python: %s" % e.msg if hasattr(e, "msg") else str(e), line=line)
    c = _run([erg, "compile", "--py-command", PY311, path], d, env)
    if c[0] == -9:
        return dict(out, status="timeout")
    if c[0] != 0 or not os.path.exists(pyc):
        return dict(out, status="no-bytecode", detail=last_line(c[1] + c[2]))
    b = _run([PY311, pyc], d, env)
    p = _run([PY311, py], d, env)
    if b[0] == -9 or p[0] == -9:
        return dict(out, status="timeout")
    bl = last_line(b[2])
    if b[0] < 0 or (b[0] != 0 and re.match(r"(SystemError|MemoryError|RuntimeError: (bad|marshal)|ValueError: bad marshal|EOFError)", bl)):
        return dict(out, status="skipped-bytecode-crash", detail=bl)
    if (p[0], ADDR.sub("0x", p[1])) == (b[0], ADDR.sub("0x", b[1])):
        return dict(out, status="same", rc=p[0], printed=len(p[1]))
    for _ in range(2 if p[0] == b[0] else 0):   # same exit status, different output: a program that does not repeat its own
        b2 = _run([PY311, pyc], d, env)          # output (random, time, addresses) is not comparable
        p2 = _run([PY311, py], d, env)
        if (b2[0], ADDR.sub("0x", b2[1])) != (b[0], ADDR.sub("0x", b[1])) or (p2[0], ADDR.sub("0x", p2[1])) != (p[0], ADDR.sub("0x", p[1])):
            return dict(out, status="skipped-nondeterministic")
    sig = "rc %s vs %s: %s" % (p[0], b[0], last_line(p[2]) or "stdout differs")
    return dict(out, status="diff", sig=sig, py=dict(rc=p[0], stdout=p[1][-1500:], stderr=p[2][-800:]),
                bytecode=dict(rc=b[0], stdout=b[1][-1500:], stderr=b[2][-800:]))


def observe(ctx, erg, paths, want_script=False, workers=16):
    env = dict(os.environ)
    env.update(PYENV)
    env.update(ctx.erg_env())
    with concurrent.futures.ThreadPoolExecutor(workers) as ex:
        return list(ex.map(lambda p: observe_one(erg, env, p, want_script), paths))


def transpile_only(ctx, erg, root, sources, workers=16):
    """write sources to root/tNNN/t.er, transpile; -> list of script text | None"""
    env = dict(os.environ)
    env.update(ctx.erg_env())

    def one(i):
        d = os.path.join(root, "t%d" % i)
        os.makedirs(d, exist_ok=True)
        p = os.path.join(d, "t.er")
        open(p, "w", encoding="utf-8").write(sources[i])
        r = _run([erg, "transpile", p], d, env)
        py = os.path.join(d, "t.py")
        if r[0] == 0 and os.path.exists(py):
            return open(py, encoding="utf-8", errors="replace", newline="").read()
        return None
    with concurrent.futures.ThreadPoolExecutor(workers) as ex:
        return list(ex.map(one, range(len(sources))))


# ---------------------------------------------------------------- CPython as the oracle for short string literals
def cpy_short_string(text):
    """(accepted, value): text is exactly one unprefixed double-quoted single-line string literal"""
    if not text.startswith('"') or text.startswith('"""'):
        return False, None
    try:
        with warnings.catch_warnings():
            warnings.simplefilter("ignore")
            tree = ast.parse(text, mode="eval")
            toks = [t for t in tokenize.generate_tokens(io.StringIO(text).readline)
                    if t.type not in (tokenize.NEWLINE, tokenize.NL, tokenize.ENDMARKER)]
    except (SyntaxError, ValueError, tokenize.TokenError, UnicodeError, IndentationError):
        return False, None
    if len(toks) != 1 or toks[0].type != tokenize.STRING or toks[0].string != text:
        return False, None
    if not isinstance(tree.body, ast.Constant) or not isinstance(tree.body.value, str):
        return False, None
    return True, tree.body.value


def mutate_lit(rng, t):
    s = list(t)
    pool = list('"\\\'nrtxuUN0178abfvz{} \n\r') + ["\\x4", "\\x41", "\\u00e9", "\\U0001F600", "\\U00110000", "\\777", "\\08", "\\\n",
                                                    "\x00", "é", "\U0001F600", "\\N{DASH}", "\\\r\n"]
    for _ in range(rng.randint(1, 2)):
        r = rng.random()
        pos = rng.randint(0, len(s))
        if r < 0.3 and s:
            del s[min(pos, len(s) - 1)]
        elif r < 0.75:
            s.insert(pos, rng.choice(pool))
        elif s:
            s[min(pos, len(s) - 1)] = rng.choice(pool)
    return "".join(s)


# ---------------------------------------------------------------- literal level
LIT_LINE = re.compile(r"^\(print\)\((.*),\)$")


def literal_cases(ctx, n):
    cases = []
    fixed = ['a"b\\c', '"', "\\", "\\\\", '""', "\0" + "1", "\0", "\n", "\r\n", "\t", "{x}", "\\{", "'", "\x7f", "\x85", " ",
             "\U0010FFFF", "é", "\\n", "%s", "\x0b\x0c\x1c\x1d\x1e", ""]
    for s in fixed:
        cases.append(("str", s, SG.str_src(ctx.rng, s)))
    for _ in range(n):
        r = ctx.rng.random()
        if r < 0.8:
            s = SG.gen_str(ctx.rng, 10)
            cases.append(("str", s, SG.str_src(ctx.rng, s)))
        elif r < 0.86:
            cases.append(("nat", None, ctx.rng.choice(["0", "7", "1_000", "0x1F", "0b101", "0o17", "65535", "1234567"])))
        elif r < 0.90:
            cases.append(("int", None, "-" + str(ctx.rng.randint(1, 99999))))
        elif r < 0.95:
            cases.append(("float", None, ctx.rng.choice(["1.5", "0.25", "3.14159", "1_0.2_5", "100.0", "-2.5"])))
        else:
            cases.append(("bool", None, ctx.rng.choice(["True", "False"])))
    return cases


KIND_CODE = {"str": 0, "bool": 1, "int": 2, "nat": 3, "float": 4}


def check_literals(ctx, erg, model, root, n):
    """-> (n_corr, first_corr, judge_failures)"""
    cases = literal_cases(ctx, n)
    # known class of the frontend (C18-quote-strip): the literal's value is not the intended string
    kn = model.run([[4, [[0, 1, "s", [0, "", [3, s if k == "str" else ""]]]]] for k, s, _ in cases])
    groups = [cases[i:i + 25] for i in range(0, len(cases), 25)]
    scripts = transpile_only(ctx, erg, os.path.join(root, "lit"), ["".join("print! %s\n" % c[2] for c in g) for g in groups])
    exp = model.run([[10, (c[2] if c[0] != "str" else '"' + c[1] + '"'), KIND_CODE[c[0]], c[1] or ""] for c in cases])
    n_corr, first, fails = 0, None, []
    idx = 0
    todo = list(zip(groups, scripts))
    while todo:
        g, sc = todo.pop(0)
        lines = [m.group(1) for m in (LIT_LINE.match(l) for l in (sc or "").split("\n")) if m]
        if sc is None or len(lines) != len(g):
            if len(g) > 1:      # isolate the literal(s) responsible: one program per literal
                singles = transpile_only(ctx, erg, os.path.join(root, "lit1-%d" % idx), ["print! %s\n" % c[2] for c in g])
                todo = [([c], s1) for c, s1 in zip(g, singles)] + todo
                continue
            fails.append(dict(what="no script, or not the one expected line, for a print! statement over a literal",
                              source="print! %s\n" % g[0][2], erg_string=g[0][1], python=(sc or "").split("\n")[-3:]))
            idx += len(g)
            continue
        for c, got in zip(g, lines):
            known = kn[idx][3] == 1
            want = sx_str(exp[idx])
            idx += 1
            ctx.count("literal:" + c[0])
            ctx.case(["lit", c[2]], nontrivial=c[0] == "str" and len(c[1]) > 0, sample={"erg": c[2], "python": got})
            if known:
                ctx.count("literal in the frontend's known quote-strip class (not compared)")
                continue
            # judge: CPython reads the printed literal as the string
            if c[0] == "str":
                m = re.match(r"^Str\((.*)\)$", got, re.S)
                ok, val = cpy_short_string(m.group(1)) if m else (False, None)
                if not ok or val != c[1]:
                    fails.append(dict(what="string literal is printed as Python text that %s" % (
                        "is not one string literal" if not ok else "denotes a different string"),
                        source="print! %s\n" % c[2], erg_string=c[1], python=got, python_value=val))
                    continue
            if got != want:
                n_corr += 1
                first = first or dict(erg=c[2], model=want, impl=got)
    return n_corr, first, fails


# ---------------------------------------------------------------- name level
def check_names(ctx, erg, model, root, n):
    pool = ["x", "y1", "abc", "Z9", "a_b", "q_L", "k_C3", "z__y", "_p", "x_L1", "n0", "long_name_with_parts", "v", "cnt2", "aB", "x_L1_C2"]
    progs, expect = [], []
    for _ in range(n):
        lines, want = [], []
        used = set()
        for _ in range(ctx.rng.randint(3, 8)):
            nm = ctx.rng.choice(pool) + ctx.rng.choice(["", "", "7", "q"])
            if nm in used:
                continue
            used.add(nm)
            ln = len(lines) + 1
            k = ctx.rng.random()
            if k < 0.4:
                lines += ["%s = %d" % (nm, ln), "print! %s" % nm]
                want.append(("print", [0, nm, [], ln, 0]))
            elif k < 0.55:
                lines += [".%s = %d" % (nm, ln), "print! .%s" % nm]
                want.append(("print", [1, nm, [], ln, 1]))
            elif k < 0.8:
                f = "f" + nm
                if f in used:
                    continue
                used.add(f)
                lines += ["%s %s = %s" % (f, nm, nm)]
                want.append(("def", [0, f, [], ln, 0], [0, nm, [], ln, len(f) + 1]))
            else:
                f = "p" + nm + "!"
                lines += ["%s %s = print! %s" % (f, nm, nm)]
                want.append(("def", [0, f, [], ln, 0], [0, nm, [], ln, len(f) + 1]))
        progs.append("\n".join(lines) + "\n")
        expect.append(want)
    scripts = transpile_only(ctx, erg, os.path.join(root, "names"), progs)
    n_corr, first = 0, None
    for src, want, sc in zip(progs, expect, scripts):
        if sc is None:
            ctx.count("name program not transpiled")
            continue
        tail = sc.split("\n")
        got = []
        for l in tail:
            m = re.match(r"^\(print\)\((?:Nat\()?([^(),]+?)\)?,\)$", l)
            if m:
                got.append(("print", m.group(1)))
            m = re.match(r"^def ([^\s(]+)\(([^\s(),]+),\):$", l)
            if m and not m.group(1).endswith("__") and "_L" in m.group(1):
                got.append(("def", m.group(1), m.group(2)))
        qs = []
        for w in want:
            qs += [[13] + w[1]] + ([[13] + w[2]] if w[0] == "def" else [])
        res = iter(model.run(qs) if qs else [])
        exp = []
        for w in want:
            exp.append((w[0], sx_str(next(res))) if w[0] == "print" else (w[0], sx_str(next(res)), sx_str(next(res))))
        for w in want:
            ctx.count("name:" + ("public" if w[1][0] else "private"))
        ctx.case(["names", src], nontrivial=True, sample={"erg": src[:300], "names": [list(g) for g in got][:8]})
        if got != exp:
            n_corr += 1
            first = first or dict(erg=src, model=[list(e) for e in exp], impl=[list(g) for g in got])
    return n_corr, first


# ---------------------------------------------------------------- differential
BIGINT = re.compile(r"(?<![\w.])\d{10,}(?![\w.])")


def corpus_files(root):
    out = []
    for sub in ("examples", "tests/should_ok"):
        src = os.path.join(REPO, sub)
        dst = os.path.join(root, "corpus", sub)
        shutil.copytree(src, dst, ignore=shutil.ignore_patterns("*.pyc", "*.py", "__pycache__"))
        for dp, _, fn in os.walk(dst):
            for f in sorted(fn):
                if f.endswith(".er") and not f.endswith(".d.er"):
                    out.append(os.path.join(dp, f))
    return sorted(out)


def known_match(known, rel, sig):
    """corpus program: listed file + failure signature; generated program (rel None): failure signature of a listed class"""
    for k in known:
        w = k.get("witness", {})
        if "signature" in k and (rel is None or rel in w.get("corpus", [])) and re.search(k["signature"], sig):
            return k
    return None


def run(ctx):
    from pylib import coreerg_gen as G
    ctx.level = "proof"
    ctx.cov["rule"] = ("(1) string/number literals in print! statements (all escape forms; quotes, backslashes, braces, NUL/control, "
                       "Latin-1, BMP, astral) compared with the model's transpile_lit and read back by CPython; (2) programs of "
                       "definitions/functions/procedures over a pool of names compared with the model's transpile_name; (3) whole-script "
                       "differential on generated programs (c17_gen: strings/interpolation; coreerg_gen levels 1-4) and every corpus "
                       ".er the transpiler accepts. non-trivial = distinct string literal of length>0, distinct name program, or "
                       "distinct program whose script ran and printed output equal to the bytecode's")
    ctx.cov["trusted_base"] = ["Coq 8.16.1 kernel", "extraction (ExtrOcamlBasic only) + extract/driver.ml",
                               "CPython 3.11 (tokenize/ast as the oracle for string literals; runs both the script and the bytecode)",
                               "the statement-level transpiler is NOT modelled: differential evidence only"]
    ctx.assumptions = ["theorems cover string literals and names only (proof (partial))",
                       "generated programs with integer literals >= 2**31 are excluded (bytecode-side marshal defect, property C15)",
                       "programs that time out, are nondeterministic (two bytecode runs differ) or whose bytecode run crashes the "
                       "interpreter are skipped and counted"]
    proof = ctx.coq(["Emit/Props_C17.v"])
    erg = ctx.erg_bin()
    model = ctx.model("Emit")
    # a path without dots and dashes: erg derives Python module names of local imports from the path
    root = tempfile.mkdtemp(prefix="c17w", dir="/tmp")
    try:
        _run_all(ctx, G, proof, erg, model, root)
    finally:
        shutil.rmtree(root, ignore_errors=True)


def _run_all(ctx, G, proof, erg, model, root):
    known = ctx.known()
    # ---- (1) literals, (2) names
    lit_corr, lit_first, lit_fails = check_literals(ctx, erg, model, root, ctx.scale(150, 4000))
    ctx.log("literal level done: %d disagreements, %d judge failures" % (lit_corr, len(lit_fails)))
    nm_corr, nm_first = check_names(ctx, erg, model, root, ctx.scale(12, 200))
    ctx.log("name level done: %d disagreements" % nm_corr)

    # ---- spec validation
    strs = [SG.gen_str(ctx.rng, 8) for _ in range(ctx.scale(300, 5000))]
    lits = [sx_str(x)[4:-1] for x in model.run([[10, "", 0, s] for s in strs])]
    texts = list(lits)
    for _ in range(ctx.scale(1500, 30000)):
        texts.append(mutate_lit(ctx.rng, ctx.rng.choice(lits)))
    texts += ['"\\0011"', '"\\x00"', '"\\777"', '"\\8"', '"a\\\nb"', '"\\N{DASH}"', '"\\U0010FFFF"', '"\\U00110000"', '"\\ud800"', '""', '"""',
              '""""', '"a" "b"', 'r"a"', "'a'", '"a', '"\\', '"\\x4"', '"\\u12"', '"\\q"', '"\t"', '"\x0c"', '"\\\r\nx"']
    texts = [t for t in texts if "\\N" not in t and not any(0xD800 <= ord(c) <= 0xDFFF for c in t)]
    res = model.run([[11, t] for t in texts])
    spec_bad = []
    for t, r in zip(texts, res):
        ok, val = cpy_short_string(t)
        ctx.count("spec-validation:%s" % ("valid" if ok else "invalid"))
        if bool(r[0]) != ok or (ok and [ord(c) for c in val] != r[1]):
            spec_bad.append(dict(text=t, coq=(sx_str(r[1]) if r[0] else None), cpython=val if ok else None))
    ctx.cov["spec_validation_texts"] = len(texts)
    ctx.log("py_str_parse validated against CPython on %d texts: %d disagreements" % (len(texts), len(spec_bad)))

    # ---- (3) differential
    gen = []      # (kind, prog object, path)
    gd = os.path.join(root, "gen")
    os.makedirs(gd)
    n_s, n_c = ctx.scale(20, 1200), ctx.scale(24, 1200)
    for i in range(n_s):
        p = SG.probe_program(ctx.rng) if i % 10 == 0 else SG.gen_program(ctx.rng)
        gen.append(("strings", p, SG.to_erg(p)))
    skipped_big = 0
    while len(gen) < n_s + n_c:
        g = G.Gen(ctx.rng, level=ctx.rng.choice([1, 2, 3, 4]), max_stmts=10)
        p = g.program()
        src = G.to_erg(p)
        if BIGINT.search(src):
            skipped_big += 1
            if skipped_big > 50 * n_c:
                break
            continue
        gen.append(("coreerg", p, src))
    ctx.count("generated program excluded: integer literal >= 2**31 (C15)", skipped_big)
    paths = []
    for i, (k, p, src) in enumerate(gen):
        d = os.path.join(gd, "g%d" % i)
        os.makedirs(d)
        f = os.path.join(d, "g.er")
        open(f, "w", encoding="utf-8").write(src)
        paths.append(f)
    cfiles = corpus_files(root)
    if not ctx.thorough:
        # quick: the programs of the known list plus a seeded half of the rest; thorough: every corpus program
        listed = set(f for k in known for f in k.get("witness", {}).get("corpus", []))
        pre = os.path.join(root, "corpus") + os.sep
        cfiles = [f for f in cfiles if f[len(pre):] in listed or ctx.rng.random() < 0.5]
    obs = observe(ctx, erg, paths + cfiles)
    ctx.log("differential done on %d generated and %d corpus programs" % (len(paths), len(cfiles)))

    fails = []          # (kind, prog, src, observation)
    for (k, p, src), o in zip(gen, obs[:len(paths)]):
        ctx.count("%s:%s" % (k, o["status"] + ("/" + o["why"] if o["status"] == "declined" else "")))
        ctx.case(["prog", src], nontrivial=o["status"] == "same" and o.get("printed", 0) > 0,
                 sample={"program": src[:400], "status": o["status"]})
        if o["status"] in ("diff", "invalid-python"):
            kf = known_match(known, None, o["sig"]) if o["status"] == "diff" else None
            if kf:
                ctx.known_finding(kf)
                ctx.count("%s:in a known class (%s)" % (k, kf["id"]))
            else:
                fails.append((k, p, src, o))
    corpus_root = os.path.join(root, "corpus") + os.sep
    corpus_fail = []
    for f, o in zip(cfiles, obs[len(paths):]):
        rel = f[len(corpus_root):]
        ctx.count("corpus:%s" % (o["status"] + ("/" + o["why"] if o["status"] == "declined" else "")))
        ctx.case(["corpus", rel], nontrivial=o["status"] == "same", sample={"corpus": rel, "status": o["status"]})
        if o["status"] in ("diff", "invalid-python"):
            k = known_match(known, rel, o["sig"])
            if k:
                ctx.known_finding(k)
            else:
                corpus_fail.append((rel, o))
    # known findings with a source witness (mangling collision)
    for k in known:
        w = k.get("witness", {})
        if "source" in w:
            d = os.path.join(root, "known-" + k["id"])
            os.makedirs(d)
            f = os.path.join(d, "w.er")
            open(f, "w").write(w["source"])
            o = observe(ctx, erg, [f])[0]
            names = w.get("names")
            in_class = names is None or model.run([[14, names]])[0] == 1
            if o["status"] in ("diff", "invalid-python") and in_class:
                ctx.known_finding(k)
            else:
                ctx.notes.append("stale-known-finding %s: witness gives %s" % (k["id"], o["status"]))
                ctx.log("NOTE stale-known-finding", k["id"], o["status"])
        elif "corpus" in w:
            pass

    # ---- verdict
    env = dict(os.environ)
    env.update(PYENV)
    env.update(ctx.erg_env())
    sd = os.path.join(root, "shrink")
    os.makedirs(sd)
    counter = [0]

    def still_fails(src, status):
        counter[0] += 1
        d = os.path.join(sd, "s%d" % counter[0])
        os.makedirs(d)
        f = os.path.join(d, "s.er")
        open(f, "w", encoding="utf-8").write(src)
        o = observe_one(erg, env, f)
        return o["status"] == status, o

    for lf in lit_fails[:2]:
        ctx.violation("failing-input", lf["what"], case={"source": lf.get("source"), "erg_string": lf.get("erg_string")},
                      impl={"python": lf.get("python"), "python_value": lf.get("python_value")}, judge="CPython tokenizer + ast.literal_eval")
    for k, p, src, o in fails[:max(0, 3 - len(lit_fails[:2]))]:
        if k == "strings":
            small = shrink_list(p, lambda sub: still_fails(SG.to_erg(sub), o["status"])[0], budget=25)
            ssrc = SG.to_erg(small)
        else:
            small = G.shrink(p, lambda sub: still_fails(G.to_erg(sub), o["status"])[0], budget=25)
            ssrc = G.to_erg(small)
        ok, o2 = still_fails(ssrc, o["status"])
        o2 = o2 if ok else o
        ctx.violation("failing-input", "transpiled script %s" % (
            "is not valid Python: " + o2.get("sig", "") if o2["status"] == "invalid-python" else "behaves differently from the bytecode: " + o2.get("sig", "")),
            case={"source": ssrc if ok else src}, impl=o2, judge="python3.11 script vs python3.11 bytecode (stdout, exit status)")
    for rel, o in corpus_fail[:max(0, 3 - len(ctx.violations))]:
        ctx.violation("failing-input", "corpus program %s: transpiled script %s" % (rel, o.get("sig", o["status"])),
                      case={"corpus": rel, "source": open(os.path.join(root, "corpus", rel), encoding="utf-8").read()[:4000]},
                      impl=o, judge="python3.11 script vs python3.11 bytecode (stdout, exit status)")
    if len(corpus_fail) > 3:
        ctx.notes.append("further corpus programs failing outside the known list: %s" % [r for r, _ in corpus_fail[3:]])
    if not ctx.violations and (lit_corr or nm_corr or spec_bad or not proof.ok):
        what = []
        if not proof.ok:
            what.append("theorem(s) no longer check: " + proof.summary())
        if lit_corr:
            what.append("%d literals printed differently from the model (CPython still reads the same string)" % lit_corr)
        if nm_corr:
            what.append("%d programs whose Python names differ from the model's transpile_name" % nm_corr)
        if spec_bad:
            what.append("the Coq grammar of Python string literals and CPython disagree on %d texts" % len(spec_bad))
        ctx.violation("broken-correspondence" if (lit_corr or nm_corr or spec_bad) else "broken-theorem", "; ".join(what),
                      case=lit_first or nm_first or (spec_bad[0] if spec_bad else None), theorem=proof.summary() or None, no_input=True)


def replay(ctx, path):
    r = json.load(open(path))
    erg = ctx.erg_bin()
    root = tempfile.mkdtemp(prefix="c17r-", dir=CACHE)
    try:
        f = os.path.join(root, "r.er")
        open(f, "w", encoding="utf-8").write(r["case"]["source"])
        o = observe(ctx, erg, [f], want_script=True)[0]
        script = o.pop("script", "")
        print("source:\n" + r["case"]["source"])
        print("script tail:\n" + "\n".join(script.split("\n")[-12:]))
        print("observation:", json.dumps(o, indent=1)[:3000])
        if o["status"] in ("diff", "invalid-python"):
            ctx.violation("failing-input", "transpiled script: " + o.get("sig", o["status"]), case=r["case"], impl=o, judge="differential")
    finally:
        shutil.rmtree(root, ignore_errors=True)
