"""C01 — compiled bytecode computes what the source program means.

proof:          coq/CoreErg/Props_C01.v: compile_correct / compile_stmt_correct over the model of codegen.rs
                (coq/CoreErg/Codegen.v) executed by the model of the CPython 3.11 loop (coq/CoreErg/VM.v) against the
                Python-semantics evaluator coq/CoreErg/Sem.v — PARTIAL: expression/statement fragment (literals, variables,
                unary/binary arithmetic, comparisons, and/or/not, definitions, print!)
tie (bytecode): for every generated program of that fragment the model's output (code units, constant pool, names)
                is compared with the decoded .pyc produced by `erg compile` (pylib/dis_dump.py)
tie (behaviour):every generated program (whole fragment: control flow, functions, lambdas, lists, patterns) is run three
                ways: (1) `erg compile` + python3.11 on the .pyc, (2) an independent Python oracle program printed from the
                same tree, (3) the extracted Coq evaluator Sem.run
judge:          Spec_C01.judge (extracted): the implementation's printed lines and exit status equal Sem.run's
"""
import shutil

from lib.vplib import *
from pylib import coreerg_gen as G
from pylib import coreerg_run as R
from pylib import dis_dump as D

REGISTRY = dict(
    category="proof",
    text="PARTIAL proof. Coq language stack CoreErg (syntax, Python-semantics evaluator with exact int and IEEE float "
         "arithmetic and CPython's repr, model of codegen.rs for Python 3.11, model of the CPython loop) with the "
         "compiler-correctness theorems compile_correct / compile_stmt_correct for the expression/statement fragment "
         "(literals of every value incl. Nat >= 2**31 and signed zeros, variables, unary/binary arithmetic, comparisons, "
         "short-circuit and/or, definitions, print!), any depth and length. The theorem is about the model; the model is "
         "tied to erg by comparing its code units/constant pool/names with the decoded .pyc of every generated "
         "fragment program. The rest of the fragment (if/for!/while!, functions, procedures, lambdas, lists, patterns) "
         "is tied by the three-way differential only: erg's bytecode run vs an independent Python oracle vs the "
         "extracted evaluator, judged by the extracted Spec_C01.judge.",
    note="Trusted: Coq kernel, extraction (ExtrOcamlBasic) + generic OCaml driver, Coq.Floats.SpecFloat as the IEEE-754 "
         "specification, pylib/dis_dump.py (marshal+dis of python3.11), pylib/coreerg_gen.py printers. Hypotheses of "
         "the theorems: wrapped values fit their runtime class (decided per program by the extracted prog_wraps_okb), "
         "constants unmarshal faithfully (property C15). Not modelled: float ** // %, stack-size bookkeeping, line table, "
         "targets other than 3.11.",
    technique="Coq compiler-correctness proof over hand models of codegen.rs and the CPython loop + bytecode-level "
              "correspondence (decoded .pyc vs model) + three-way behavioural differential with extracted judge",
    design="DESIGN.md §4 C01, CoreErg")

FUEL = 3000
POOL_OLD = int(os.environ.get("C01_POOL_OLD", "0"))   # 1: compare with the model of the pool lookup before the repair (debugging aid)
CLASSES = ["known_marshal_nat", "known_nat_cast", "known_enum_arith", "known_quote_ambiguity", "known_float_unify", "known_enum_guard", "known_expr_guard_cast"]
CLS_NAME = {1: "Nat", 2: "Int", 3: "Float", 4: "Str", 5: "Bool", 6: "List"}

# witnesses that are always run (signed zeros, Int/Nat pool pair, naturals at 2**31 / 2**63, mutate operator in a dead branch)
WITNESS_ERG = {
    "signed-zeros": "print!(0.0)\nprint!(-0.0)\nprint!(0.0, -0.0)\n",
}


def witness_programs():
    E, S = G.Ex, G.St
    z, nz = G.f2bits(0.0), G.f2bits(-0.0)
    fl = lambda b: E(G.E_LIT, [G.L_FLOAT, b], G.FLOAT)
    nat = lambda n: E(G.E_LIT, [G.L_NAT, n], G.NAT)
    neg = lambda n: E(G.E_LIT, [G.L_NEG, n], G.INT)
    out = []
    out.append(("signed-zeros", [S(G.S_PRINT, [[fl(z)]]), S(G.S_PRINT, [[fl(nz)]]), S(G.S_PRINT, [[fl(nz), fl(z)]])]))
    out.append(("neg-zero-first", [S(G.S_PRINT, [[fl(nz)]]), S(G.S_PRINT, [[fl(z)]])]))
    out.append(("int-nat-pool-pair", [S(G.S_PRINT, [[neg(-1)]]), S(G.S_PRINT, [[nat(2**64 - 1)]]), S(G.S_PRINT, [[neg(-2**31), nat(2**64 - 2**31)]])]))
    out.append(("nat-2**31", [S(G.S_DEF, [1, 0, nat(2**31)]), S(G.S_PRINT, [[E(G.E_VAR, [1], G.NAT)]])]))
    out.append(("nat-2**63", [S(G.S_PRINT, [[nat(2**63), nat(2**63 - 1), nat(2**32)]])]))
    # c = !0 in a branch that is not executed, then another counter at top level
    cnt = lambda i, n: S(G.S_MUTDEF, [i, nat(n)])
    rd = lambda i: E(G.E_VAR, [i], G.NAT, w=0)
    out.append(("mutate-op-dead-branch",
                [S(G.S_IF, [E(G.E_LIT, [G.L_BOOL, 0], G.BOOL), [cnt(1, 0), S(G.S_PRINT, [[rd(1)]])], 1, [S(G.S_PRINT, [[nat(1)]])]]),
                 cnt(2, 2), S(G.S_PRINT, [[rd(2)]])]))
    return out


def model_opcode_table():
    """opcode numbers the Coq model uses, parsed from Codegen.v (so that a change of either side is noticed)"""
    src = open(os.path.join(COQ, "CoreErg", "Codegen.v")).read()
    m = re.search(r"Definition opcode_num.*?match o with(.*?)end\.", src, re.S)
    if not m:
        raise TieBroken("cannot find opcode_num in CoreErg/Codegen.v")
    return {a: int(b) for a, b in re.findall(r"\|\s*([A-Z_]+)\s*=>\s*(\d+)", m.group(1))}


def erg_opcode_table():
    p = os.path.join(REPO, "crates", "erg_common", "opcode311.rs")
    src = open(p).read()
    m = re.search(r"impl_u8_enum!\s*\{\s*Opcode311;(.*?)\n\}", src, re.S)
    if not m:
        raise TieBroken("cannot parse Opcode311 in crates/erg_common/opcode311.rs")
    return {a: int(b) for a, b in re.findall(r"\b([A-Z][A-Z0-9_]+)\s*=\s*(\d+)", m.group(1))}


def canon_name(n):
    if n.startswith("::"):
        n = n[2:]
    return re.sub(r"_L\d+(_C\d+)?$", "", n)


def split_prelude(d):
    """index of the first unit after the prelude (just after the first IMPORT_STAR), prelude consts and names"""
    units = d["units"]
    end = None
    for i, (op, a) in enumerate(units):
        if D.OPNAME.get(op) == "IMPORT_STAR":
            end = i + 1
            break
    if end is None:
        raise TieBroken("no IMPORT_STAR in the module code: the prelude emitted by load_prelude changed shape")
    maxc = maxn = -1
    ext = 0
    for op, a in units[:end]:
        if op == D.EXTENDED_ARG:
            ext = (ext << 8) | a
            continue
        arg, ext = (ext << 8) | a, 0
        name = D.OPNAME.get(op, "")
        if name in ("LOAD_CONST", "KW_NAMES"):
            maxc = max(maxc, arg)
        elif name in ("LOAD_NAME", "STORE_NAME", "STORE_GLOBAL", "LOAD_GLOBAL", "IMPORT_NAME", "IMPORT_FROM", "LOAD_METHOD", "LOAD_ATTR"):
            maxn = max(maxn, arg)
    return end, d["consts"][:maxc + 1], d["names"][:maxn + 1]


def enc_pre_consts(pre):
    out = []
    for k, c in enumerate(pre):
        if c[0] == "int":
            # emit_load_const(0) in the prelude: impl From<i32> for ValueObj gives Nat for a non-negative i32
            out.append([0, c[1]] if c[1] >= 0 else [1, c[1]])
        elif c[0] == "str":
            out.append([3, c[1]])
        else:
            out.append([6, k])
    return out


def dec_model_const(c, pre):
    k = c[0]
    if k in (0, 1):
        return ["int", c[1]]
    if k == 2:
        return ["float", c[1]]
    if k == 3:
        return ["str", "".join(chr(x) for x in c[1])]
    if k == 4:
        return ["bool", c[1]]
    if k == 5:
        return ["none"]
    return pre[c[1]]


def dec_model_name(n, pre):
    if n[0] == 0:
        return canon_name(pre[n[1]])
    if n[0] == 1:
        return "print"
    if n[0] == 2:
        return CLS_NAME.get(n[1], "?")
    return "v%d" % n[1]


class Case:
    def __init__(self, kind, prog, name=None):
        self.kind, self.prog, self.name = kind, prog, name
        self.sx = G.to_sx(prog)
        self.erg_src = G.to_erg(prog)
        self.py_src = G.to_python(prog)
        self.erg = self.oracle = self.model = self.flags = None

    def as_json(self):
        return {"kind": self.kind, "erg": self.erg_src, "python_oracle": self.py_src, "sx": self.sx}


class Runner:
    def __init__(self, ctx):
        self.ctx = ctx
        self.erg = ctx.erg_bin()
        self.env = ctx.erg_env()
        self.model = ctx.model("CoreErg")
        self.work = os.path.join(CACHE, "tmp", "c01-%d" % os.getpid())
        shutil.rmtree(self.work, ignore_errors=True)
        os.makedirs(self.work, exist_ok=True)
        self.n = 0

    def close(self):
        shutil.rmtree(self.work, ignore_errors=True)

    def observe(self, cases, want_pyc=False):
        """fills .erg (ErgObs), .oracle, .model, .flags of every case"""
        names = []
        for c in cases:
            self.n += 1
            names.append("p%d" % self.n)
        ergs = R.run_erg(self.erg, self.env, self.work, [(n, c.erg_src) for n, c in zip(names, cases)])
        oracles = R.run_oracle(self.work, [(n, c.py_src) for n, c in zip(names, cases)])
        models = R.run_model(self.model, [c.prog for c in cases], fuel=FUEL)
        flags = self.model.run([[3, c.sx] for c in cases])
        for c, e, o, m, f in zip(cases, ergs, oracles, models, flags):
            c.erg, c.oracle, c.model, c.flags = e, o, m, f
        return cases

    def judge(self, c):
        """extracted Spec_C01.judge on erg's observation"""
        out, rc, exc = c.erg.obs
        status = 0 if rc == 0 else next((k for k, v in R.EXN.items() if v == exc and k > 0), 98)
        lines = out.split("\n")
        if lines and lines[-1] == "":
            lines = lines[:-1]
        elif out:            # output not terminated by a newline cannot come from print
            return False
        return self.model.run([[4, FUEL, c.sx, status, lines]])[0] == 1

    def fails(self, prog):
        """erg accepts the program and its behaviour is not the program's meaning"""
        c = Case("shrink", prog)
        self.observe([c])
        if not c.erg.accepted or c.oracle != c.model:
            return False
        return not self.judge(c)


def gen_cases(ctx):
    rng = ctx.rng
    cases = []
    k = float(os.environ.get("C01_SCALE", "1"))     # < 1 shortens a run (used for mutation self-tests on a loaded machine)
    n_main, n_expr, n_err = int(k * ctx.scale(150, 3000)), int(k * ctx.scale(110, 2300)), int(k * ctx.scale(40, 700))
    for name, prog in witness_programs():
        cases.append(Case("witness", prog, name))
    for _ in range(n_main):
        level = rng.choice([1, 2, 2, 3, 3, 4, 4, 4])
        cases.append(Case("level%d" % level, G.Gen(rng, level=level, max_stmts=rng.choice([6, 10, 14])).program()))
    for _ in range(n_expr):
        cases.append(Case("expr-fragment", G.Gen(rng, expr_only=True, max_stmts=rng.choice([4, 8, 12])).program()))
    for _ in range(n_err):
        level = rng.choice([1, 2, 4])
        cases.append(Case("runtime-error", G.Gen(rng, level=level, runtime_error=True, max_stmts=8).program()))
    return cases


def bytecode_tie(ctx, runner, cases, known=()):
    """model of codegen.rs vs the decoded .pyc for the fragment programs erg accepted.
    returns (list of mismatches, statistics)"""
    def unused_def(prog):
        used = set()
        G.walk_exprs(prog, lambda e: used.add(e.args[0]) if e.tag == G.E_VAR else None)
        return any(s.tag == G.S_DEF and s.args[0] not in used for s in prog)
    # programs whose behaviour already differs are decided by the behavioural verdict (failing input / known class)
    frag = [c for c in cases if c.erg.accepted and c.flags[0] == 1 and c.erg.obs == c.model]
    # erg removes unused definitions before code generation (optimisation, property C12): not part of this model
    # a program of a known-finding class may behave as it should by accident while its constants/wrappers already differ
    in_known = lambda c: any(v == 1 and k in known for k, v in zip(CLASSES, c.flags[2:2 + len(CLASSES)]))
    todo = [c for c in frag if not unused_def(c.prog) and not in_known(c)]
    if not todo:
        return [], {}
    p = sh([R.PY311, os.path.join(VERIF, "pylib", "dis_dump.py")] + [c.erg.pyc for c in todo], timeout=1200)
    if p.returncode != 0:
        raise FrameworkError("dis_dump failed: " + p.stderr[-2000:])
    dumps = [json.loads(l) for l in p.stdout.splitlines() if l.strip()]
    reqs, pres = [], []
    for c, d in zip(todo, dumps):
        if "error" in d:
            raise TieBroken("the .pyc written by erg is not readable by python3.11's marshal: %s" % d["error"])
        end, pc, pn = split_prelude(d)
        pres.append((end, pc, pn))
        reqs.append([1, enc_pre_consts(pc), [[0, k] for k in range(len(pn))], c.sx, POOL_OLD])
    outs = runner.model.run(reqs)
    mism = []
    stats = {"programs": len(todo), "byte-identical": 0, "equal-after-normalisation": 0,
             "skipped (unused definition, removed by the optimiser)": len(frag) - len(todo)}
    for c, d, (end, pc, pn), m in zip(todo, dumps, pres, outs):
        if m[0] != 0:
            mism.append((c, "the codegen model stops with %s on a program erg compiled" % m[0], None, None))
            continue
        m_units = [[u[0], u[1]] for u in m[1]]
        r_units = d["units"][end:]
        m_consts = [dec_model_const(x, pc) for x in m[2]]
        m_names = [dec_model_name(x, pn) for x in m[3]]
        r_names = [canon_name(x) for x in d["names"]]
        what = None
        if D.zero_noarg(m_units) == D.zero_noarg(r_units):
            stats["byte-identical"] += 1
        elif D.normalise(m_units) == D.normalise(r_units):
            stats["equal-after-normalisation"] += 1
        else:
            a, b = D.normalise(m_units), D.normalise(r_units)
            k = next((i for i in range(min(len(a), len(b))) if a[i] != b[i]), min(len(a), len(b)))
            what = "instruction %d: model %s, erg %s" % (k, a[k] if k < len(a) else "<end>", b[k] if k < len(b) else "<end>")
        if what is None and m_names != r_names:
            what = "name table: model %s, erg %s" % (m_names, r_names)
        if what is None and m_consts != d["consts"]:
            # a Nat constant >= 2**31 written as a 32-bit int is C15's marshal defect, not a codegen difference
            diff = [(x, y) for x, y in zip(m_consts, d["consts"]) if x != y]
            marshal_only = len(m_consts) == len(d["consts"]) and all(
                x[0] == "int" and y[0] == "int" and x[1] >= 2**31 and (x[1] - y[1]) % 2**32 == 0 for x, y in diff)
            if marshal_only:
                stats["constant differs only by the Nat>=2**31 marshal defect (C15)"] = \
                    stats.get("constant differs only by the Nat>=2**31 marshal defect (C15)", 0) + 1
            else:
                what = "constant pool: model %s, erg %s" % (m_consts, d["consts"])
        if what:
            mism.append((c, what, {"units": m_units, "consts": m_consts, "names": m_names},
                         {"units": r_units, "consts": d["consts"], "names": r_names}))
    return mism, stats


def model_validation(ctx, runner):
    """oracle vs Coq evaluator only (no erg): float literals over the whole binary64 range (subnormals, powers of two,
    17-digit cases, inf, nan), float arithmetic, int/int true division with big operands, mixed int/float comparison.
    Validates Sem.v's use of SpecFloat and its repr algorithm against CPython."""
    rng = ctx.rng
    E, S = G.Ex, G.St
    n = ctx.scale(40, 400)

    def rf():
        k = rng.random()
        if k < 0.15:
            return rng.choice([0, 1 << 63, 0x7ff0000000000000, 0xfff0000000000000, 0x7ff8000000000000, 1, 0x000fffffffffffff,
                               0x0010000000000000, 0x7fefffffffffffff, 0x3ff0000000000000, 0x4340000000000000, 0x4330000000000001])
        if k < 0.3:
            return (rng.getrandbits(1) << 63) | (rng.randint(0, 2046) << 52)            # powers of two
        if k < 0.4:
            return (rng.getrandbits(1) << 63) | rng.getrandbits(52)                     # subnormals
        if k < 0.6:
            return G.f2bits(rng.randint(-10**6, 10**6) / rng.choice([1, 10, 100, 1000, 3, 7]))
        return rng.getrandbits(64)
    fl = lambda b: E(G.E_LIT, [G.L_FLOAT, b], G.FLOAT)
    big = lambda: E(G.E_LIT, [G.L_NAT, rng.choice([rng.randint(0, 10), rng.getrandbits(64), rng.getrandbits(200), 2**53 + 1, 10**rng.randint(0, 40)])], G.NAT)
    progs = []
    for _ in range(n):
        ss = []
        for _ in range(6):
            a, b = fl(rf()), fl(rf())
            k = rng.randint(0, 5)
            if k == 0:
                ss.append(S(G.S_PRINT, [[a, b, E(G.E_UN, [G.UN_NEG, a], G.FLOAT)]]))
            elif k == 1:
                ss.append(S(G.S_PRINT, [[E(G.E_BIN, [rng.choice([0, 1, 2]), a, b], G.FLOAT)]]))
            elif k == 2:
                ss.append(S(G.S_PRINT, [[E(G.E_CMP, [rng.randint(0, 5), a, b], G.BOOL), E(G.E_CMP, [rng.randint(0, 5), big(), b], G.BOOL),
                                         E(G.E_CMP, [rng.randint(0, 5), a, big()], G.BOOL)]]))
            elif k == 3:
                ss.append(S(G.S_PRINT, [[E(G.E_BIN, [rng.choice([0, 1, 2]), big(), b], G.FLOAT)]]))
            elif k == 4:
                d = big()
                if d.args[1] == 0:
                    d.args[1] = 3
                ss.append(S(G.S_PRINT, [[E(G.E_BIN, [3, big(), d], G.FLOAT), E(G.E_BIN, [3, E(G.E_UN, [G.UN_NEG, big()], G.INT), d], G.FLOAT)]]))
            else:
                if not (b.args[1] in (0, 1 << 63)):
                    ss.append(S(G.S_PRINT, [[E(G.E_BIN, [3, a, b], G.FLOAT)]]))
                else:
                    ss.append(S(G.S_PRINT, [[b]]))
        progs.append(ss)
    work = runner.work
    oracles = R.run_oracle(work, [("mv%d" % i, G.to_python(p)) for i, p in enumerate(progs)])
    models = R.run_model(runner.model, progs, fuel=FUEL)
    bad = [(p, o, m) for p, o, m in zip(progs, oracles, models) if o != m]
    ctx.cov["model_validation"] = {"programs (oracle vs Coq evaluator, full float range)": len(progs), "disagreements": len(bad)}
    if bad:
        p, o, m = bad[0]
        ctx.violation("broken-correspondence", "CPython and the Coq evaluator disagree on float/int arithmetic or repr (%d programs): "
                      "the model Sem.v is wrong" % len(bad), case={"python_oracle": G.to_python(p), "sx": G.to_sx(p)},
                      impl={"python": o}, model={"sem": m}, no_input=True)


def load_known(ctx):
    """only /verif/known/C01.json is read (ctx.known() also parses every other property's file)"""
    p = os.path.join(VERIF, "known", "C01.json")
    ents = json.load(open(p)) if os.path.exists(p) else []
    return {k["id"]: k for k in ents if isinstance(k, dict) and k.get("property") == "C01" and k.get("status") == "finding"}


def run(ctx):
    ctx.cov["rule"] = ("programs from the seeded typed generator pylib/coreerg_gen.py (<= 15 statements): levels 1-4 "
                       "(expressions/definitions/print, control flow, functions/procedures/lambdas, lists/patterns), a stream "
                       "restricted to the fragment of the theorems (bytecode tie), a stream with one legitimate run-time error "
                       "(ZeroDivisionError / AssertionError), fixed witnesses (signed zeros, Int/Nat constant pair, Nat 2**31, "
                       "2**63, mutable counter in a dead branch); non-trivial = distinct program accepted by erg whose meaning "
                       "prints at least one line")
    ctx.cov["trusted_base"] = ["Coq 8.16.1 kernel", "extraction (ExtrOcamlBasic only) + extract/driver.ml",
                               "Coq.Floats.SpecFloat (IEEE-754 binary64 specification used as float semantics)",
                               "pylib/coreerg_gen.py (three printers), pylib/dis_dump.py (python3.11 marshal + dis)",
                               "python3.11 as the machine that runs the bytecode and the oracle"]
    ctx.assumptions = ["constants are unmarshalled to the value written in the source (property C15)",
                       "values passed to runtime classes fit them: checked per program by the extracted prog_wraps_okb",
                       "the theorems cover the expression/statement fragment of the model; the rest is differential only"]
    proof = ctx.coq(["CoreErg/Props_C01.v"])
    # opcode numbering: model vs erg's table vs CPython 3.11
    mt, et = model_opcode_table(), erg_opcode_table()
    bad_ops = [(k, v, et.get(k), {n: c for c, n in D.OPNAME.items()}.get(k)) for k, v in mt.items()
               if et.get(k, v) != v or {n: c for c, n in D.OPNAME.items()}.get(k, v) != v]
    runner = Runner(ctx)
    try:
        return run_with(ctx, runner, proof, bad_ops)
    finally:
        runner.close()


def run_with(ctx, runner, proof, bad_ops):
    known = load_known(ctx)
    cases = []
    corpus = os.path.join(VERIF, "corpus", "C01")
    if os.path.isdir(corpus):
        for f in sorted(os.listdir(corpus)):
            if f.endswith(".json"):
                cases.append(Case("corpus", G.from_sx(json.load(open(os.path.join(corpus, f)))["sx"]), f))
    cases += gen_cases(ctx)
    ctx.log("%d programs" % len(cases))
    runner.observe(cases)
    ctx.log("observed (erg + oracle + model)")
    n_rej = n_crash = n_om = 0
    failing, by_class = [], {k: [] for k in CLASSES}
    first_om = None
    for c in cases:
        ctx.count("stream:" + c.kind)
        for f in G.features(c.prog):
            ctx.count(f)
        if c.oracle != c.model:
            n_om += 1
            first_om = first_om or c
        e = c.erg
        if not e.accepted:
            n_rej += 1
            ctx.count("erg: rejected at compile time" + (" (CRASH)" if e.crashed else ""))
            n_crash += e.crashed
            if e.crashed or ctx.cov.get("rejected_sample") is None:
                ctx.cov["rejected_sample"] = {"erg": c.erg_src, "diagnostics": e.diag[-800:]}
            ctx.case(c.sx, nontrivial=False)
            continue
        ctx.count("outcome:" + (c.model[2] or "normal exit"))
        ctx.case(c.sx, nontrivial=bool(c.model[0]), sample={"erg": c.erg_src, "stdout": c.model[0][:200], "status": c.model[2] or 0})
        if e.obs != c.model and c.oracle == c.model:
            if runner.judge(c):
                continue     # differs only in something the property does not talk about (cannot happen today)
            cls = [k for k, v in zip(CLASSES, c.flags[2:2 + len(CLASSES)]) if v == 1]
            hit = [k for k in cls if k in known]
            if hit:
                by_class[hit[0]].append(c)
            else:
                failing.append(c)
    ctx.cov["erg_rejected"] = n_rej
    ctx.cov["erg_crashed"] = n_crash
    # ---- `erg run` path on a sample: stdout must end with the program's output, same exit status
    sample = [c for c in cases if c.erg.accepted and c.erg.obs == c.model][:ctx.scale(24, 200)]
    rr = R.run_erg_run(runner.erg, runner.env, runner.work, [("r%d" % i, c.erg_src) for i, c in enumerate(sample)])
    run_bad = [(c, r) for c, r in zip(sample, rr) if not (r[0].endswith(c.model[0]) and r[1] == c.model[1])]
    ctx.cov["erg_run_path_checked"] = len(sample)
    model_validation(ctx, runner)
    # ---- bytecode tie
    mism, stats = bytecode_tie(ctx, runner, cases, known)
    ctx.cov["bytecode_tie"] = stats
    ctx.log("bytecode tie: %s, %d mismatches" % (stats, len(mism)))
    # ---- verdicts
    if n_om:
        c = first_om
        ctx.violation("broken-correspondence",
                      "the independent Python oracle and the Coq evaluator disagree on %d programs (the model or the oracle is wrong)" % n_om,
                      case=c.as_json(), impl={"oracle": c.oracle}, model={"sem": c.model}, no_input=True)
    for c in failing[:3]:
        small = G.shrink(c.prog, runner.fails, budget=ctx.scale(120, 300))
        sc = Case("shrunk", small)
        runner.observe([sc])
        if not (sc.erg.accepted and sc.oracle == sc.model and sc.erg.obs != sc.model):
            sc = c
        ctx.violation("failing-input",
                      "erg accepts the program; its bytecode prints %r and ends with %s, the program means %r / %s" % (
                          sc.erg.obs[0][-300:], sc.erg.obs[2] or "exit 0", sc.model[0][-300:], sc.model[2] or "exit 0"),
                      case=sc.as_json(), impl={"stdout": sc.erg.obs[0], "status": sc.erg.obs[1], "exception": sc.erg.obs[2],
                                               "stderr": sc.erg.stderr[-600:]},
                      model={"stdout": sc.model[0], "status": sc.model[1], "exception": sc.model[2]}, judge=False)
    for c, r in run_bad[:1]:
        ctx.violation("failing-input", "`erg run` differs from running the compiled .pyc: stdout %r status %s, expected output %r status %s" % (
            r[0][-300:], r[1], c.model[0][-300:], c.model[1]), case=c.as_json(), impl={"erg_run": r}, model={"sem": c.model}, judge=False)
    # known findings: report those whose witness still reproduces
    for kid, entry in known.items():
        hits = by_class.get(kid, [])
        w = entry.get("witness_sx")
        rep = False
        if w:
            wc = Case("known-witness", G.from_sx(w))
            runner.observe([wc])
            rep = wc.erg.accepted and wc.oracle == wc.model and wc.erg.obs != wc.model
        if rep or hits:
            ctx.known_finding(entry)
            ctx.cov.setdefault("known_class_hits", {})[kid] = len(hits)
        else:
            ctx.notes.append("NOTE stale-known-finding %s: the witness no longer reproduces" % kid)
            print("NOTE stale-known-finding property=C01 %s" % kid)
    if bad_ops:
        ctx.violation("broken-correspondence", "opcode numbers of the model differ from erg's Opcode311 / CPython 3.11: %s" % bad_ops,
                      no_input=True)
    if (mism or not proof.ok) and not failing:
        what = []
        if not proof.ok:
            what.append("theorem(s) no longer check: " + proof.summary())
        first = None
        if mism:
            c, w, mm, rr_ = mism[0]
            what.append("%d fragment programs on which the model of codegen.rs and the decoded .pyc differ while the run-time "
                        "behaviour agrees (first: %s)" % (len(mism), w))
            first = dict(c.as_json(), model_bytecode=mm, erg_bytecode=rr_)
        ctx.violation("broken-correspondence" if mism else "broken-theorem", "; ".join(what), case=first,
                      theorem=proof.summary() or "compile_correct / compile_stmt_correct", no_input=True)


def replay(ctx, path):
    r = json.load(open(path))
    case = r.get("case") or {}
    if "sx" not in case:
        print("replay file carries no program"); return
    runner = Runner(ctx)
    try:
        c = Case("replay", G.from_sx(case["sx"]))
        runner.observe([c])
        print(c.erg_src)
        print("erg accepted:", c.erg.accepted, "" if c.erg.accepted else c.erg.diag[-1500:])
        print("erg   :", c.erg.obs)
        print("oracle:", c.oracle)
        print("model :", c.model)
        print("flags (in_fragment wraps_ok %s):" % " ".join(CLASSES), c.flags)
        if c.erg.accepted:
            ok = runner.judge(c)
            print("judge:", ok)
            mism, stats = bytecode_tie(ctx, runner, [c])
            print("bytecode tie:", stats, [m[1] for m in mism])
            if not ok:
                ctx.violation("failing-input", "bytecode behaviour differs from the program's meaning", case=c.as_json(),
                              impl={"obs": c.erg.obs}, model={"obs": c.model}, judge=False)
    finally:
        runner.close()
