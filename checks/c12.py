"""C12 — Optimisation never changes observable behaviour.

proof:          coq/Optimize/Props_C12.v over coq/Optimize/Model.v (transcription of HIROptimizer::eliminate_unused_def,
                SideEffectChecker::is_impure, a trace semantics for the mini language) and coq/Optimize/Spec.v
translator:     optimize.rs / compile.rs / effectcheck.rs -> coq/gen/OptLevels.v (passes per -o level, match arms);
                a pass, an `opt_level` test or a match arm that the model does not have breaks the tie
correspondence: generated Erg programs; harness/optimize runs the real pipeline of compile.rs in-process, dumps the HIR
                (with what ModuleIndex::get_refs answers for every definition) before and after HIROptimizer::optimize at
                levels 0..3; the extracted model optimises the dumped HIR itself and must produce the same trees; the
                model's trace semantics predicts the behaviour (output, exception class) of the program before and after
                optimisation, compared with what `erg run -o N` does
judge:          the differential the property names: `erg run -o 0|1|2|3` on every program; stdout, class of the uncaught
                exception and exit status must be the same at all levels (Spec.judge, extracted)
"""
import concurrent.futures
import hashlib
import tempfile
from lib.vplib import *

REGISTRY = dict(
    category="proof",
    text="proof (partial): Coq model of the HIR optimiser (HIROptimizer::optimize -> eliminate_dead_code -> "
         "eliminate_discarded_variables (identity) + eliminate_unused_variables/eliminate_unused_def, the only passes that exist; "
         "SideEffectChecker::is_impure arm by arm) and a trace semantics (printed lines x normal/uncaught exception class) for the "
         "mini-HIR it works on. Theorems for all programs and nesting depths: what is_impure accepts is silent (purity_sound), "
         "removing silent unreferenced definitions preserves the behaviour of every ending run (opt_preserves; as a partial "
         "function of the program: opt_preserves_total), levels 1-3 run the same passes and level 0 none (table regenerated from optimize.rs on every run), the optimiser does not panic. "
         "Reference counts are an input of the model (index correctness is not proved here; the hypothesis used, that nothing left "
         "mentions an identifier of a removed definition, is evaluated on every dumped program). Tied to the code by optimising the "
         "real dumped HIR with the extracted model and comparing trees at every level, and by the direct differential "
         "`erg run -o 0..3` on generated programs judged by the extracted Spec.judge.",
    note="Known finding (class Known_C12): an unused definition whose initialiser is effect free but may raise (function call, "
         "indexing, division, assert, import) is removed, so the uncaught exception disappears at -o 1..3. Two defects repaired "
         "in /repo (known/C12.json). Trusted: Coq kernel, extraction + generic OCaml driver, harness/optimize (abstraction "
         "hir::Expr -> mini-HIR; flags read from the type checker's annotations), python rendering of printed values. "
         "Not modelled: divergence of the source program, recursion and aliasing of mutable objects in the mini semantics.",
    technique="Coq proof over hand model + translator (pass table, match arms) + in-process tree correspondence (extracted model on "
              "the dumped HIR) + CLI differential across -o levels judged by extracted Spec.judge",
    design="DESIGN.md §4 C12")

LEVELS = [0, 1, 2, 3]
FUEL = 120
EXC = {1: "ZeroDivisionError", 2: "IndexError", 3: "ValueError", 4: "AssertionError"}
VARIANTS = {"Call": 3, "Accessor": 2, "TypeAsc": 19, "Record": 14, "ReDef": 20, "BinOp": 4, "UnaryOp": 5, "List": 6, "Tuple": 9,
            "Set": 10, "Dict": 12, "Lambda": 15, "Def": 16, "Code": 21, "Compound": 22, "ClassDef": 17, "PatchDef": 18,
            "Import": 23, "Dummy": 24, "Literal": 0}
PASSES = {"eliminate_discarded_variables": 1, "eliminate_unused_variables": 2}
# sha1 (16 hex digits) of the whitespace-normalised, comment-free body of every function the model transcribes: a changed body
# means the transcription may no longer be the code -> the tie is broken and the escalated search runs (never a silent pass)
MODELLED_BODIES = {
    "optimize.rs": {"optimize": "a5f8d8dc8ab93d69", "eliminate_dead_code": "34be7433e866c3e2",
                    "eliminate_discarded_variables": "ed9851f07a2fdd3a", "eliminate_unused_variables": "f0c81eef198150dd",
                    "eliminate_unused_def": "0a80ef3ff70944de"},
    "effectcheck.rs": {"is_impure": "f40cb77d013247e5", "is_pure": "ae4ff3e3d1b7171f"},
}


def changed_bodies():
    """names of the modelled functions whose body is not the transcribed one"""
    out = []
    comp = os.path.join(REPO, "crates", "erg_compiler")
    for f, fns in MODELLED_BODIES.items():
        try:
            src = strip_rust_comments(open(os.path.join(comp, f)).read())
        except OSError:
            out.append(f + " (unreadable)")
            continue
        for n, want in fns.items():
            try:
                got = hashlib.sha1(squeeze(fn_body(src, n)).encode()).hexdigest()[:16]
            except Exception:
                got = None
            if got != want:
                out.append("%s:%s" % (f, n))
    return out


# ------------------------------------------------------------------ translator: /repo -> coq/gen/OptLevels.v
def strip_rust_comments(s):
    s = re.sub(r"/\*.*?\*/", "", s, flags=re.S)
    return re.sub(r"//[^\n]*", "", s)


def fn_body(src, name):
    m = re.search(r"\bfn\s+%s\s*(?:<[^>]*>)?\s*\(" % re.escape(name), src)
    if not m:
        raise TieBroken("optimiser translator: fn %s not found" % name)
    i = src.index("{", m.end())
    depth, j = 0, i
    while True:
        if src[j] == "{":
            depth += 1
        elif src[j] == "}":
            depth -= 1
            if depth == 0:
                return src[i + 1:j]
        j += 1


def squeeze(s):
    return re.sub(r"\s+", " ", s).strip()


def match_arms(body):
    """variant names of the arms of the first `match expr {` in body, in order ('_' for the catch-all); relies on the
    rustfmt layout: the arms are the lines indented one level deeper than the `match` line"""
    lines = body.split("\n")
    start = [i for i, l in enumerate(lines) if re.search(r"\bmatch\s+expr\s*\{\s*$", l)]
    if not start:
        raise TieBroken("optimiser translator: `match expr {` not found")
    i0 = start[0]
    ind = len(lines[i0]) - len(lines[i0].lstrip())
    names = []
    pat = ""
    for l in lines[i0 + 1:]:
        if not l.strip():
            continue
        li = len(l) - len(l.lstrip())
        if li <= ind:
            break
        if li != ind + 4:
            continue
        t = l.strip()
        if not (t.startswith("Expr::") or t.startswith("|") or t.startswith("_")):
            continue                      # closing brace of a block arm
        pat += " " + t.split("=>")[0]
        if "=>" in t:
            p = pat.strip()
            pat = ""
            if p == "_":
                names.append("_")
                continue
            for alt in p.split("|"):
                if not alt.strip():
                    continue
                mm = re.match(r"\s*Expr::(\w+)", alt)
                if not mm:
                    raise TieBroken("optimiser translator: cannot read match arm %r" % p)
                names.append(mm.group(1))
    return names


def translate(ctx):
    comp = os.path.join(REPO, "crates", "erg_compiler")
    opt = strip_rust_comments(open(os.path.join(comp, "optimize.rs")).read())
    eff = strip_rust_comments(open(os.path.join(comp, "effectcheck.rs")).read())
    cmp_ = strip_rust_comments(open(os.path.join(comp, "compile.rs")).read())
    # 1. the functions of the optimiser: anything new is a pass the model does not have
    fns = re.findall(r"\bfn\s+(\w+)", opt)
    known = {"optimize", "_fold_constants", "eliminate_unused_variables", "eliminate_unused_def", "eliminate_dead_code",
             "eliminate_discarded_variables"}
    if set(fns) != known:
        raise TieBroken("optimize.rs defines functions the model does not know: %s" % sorted(set(fns) ^ known))
    # 2. optimize(): the level test and the entry pass
    b = squeeze(fn_body(opt, "optimize"))
    want = ("let mut optimizer = HIROptimizer { cfg, shared }; if optimizer.cfg.opt_level == 0 || optimizer.cfg.input.is_repl() "
            "{ return hir; } optimizer.eliminate_dead_code(hir)")
    if b != want:
        raise TieBroken("HIROptimizer::optimize no longer has the modelled shape: %s" % b[:300])
    # 3. eliminate_dead_code: a sequence of passes
    b = squeeze(fn_body(opt, "eliminate_dead_code"))
    seq = re.findall(r"(?:let hir = )?self\.(\w+)\(hir\);?", b)
    if squeeze(re.sub(r"(?:let hir = )?self\.\w+\(hir\);?", "", b)) != "" or not seq:
        raise TieBroken("eliminate_dead_code no longer is a sequence of passes: %s" % b[:300])
    for s in seq:
        if s not in PASSES:
            raise TieBroken("eliminate_dead_code runs a pass the model does not have: %s" % s)
    if squeeze(fn_body(opt, "eliminate_discarded_variables")) != "hir":
        raise TieBroken("eliminate_discarded_variables is no longer the identity")
    if squeeze(fn_body(opt, "eliminate_unused_variables")) != \
            "for chunk in hir.module.iter_mut() { self.eliminate_unused_def(chunk); } hir":
        raise TieBroken("eliminate_unused_variables no longer maps eliminate_unused_def over the module")
    if squeeze(fn_body(opt, "_fold_constants")) != "todo!()":
        raise TieBroken("_fold_constants has been implemented: a pass the model does not have")
    if len(re.findall(r"opt_level", opt)) != 1:
        raise TieBroken("optimize.rs consults opt_level at a place the model does not know")
    # 4. opt_level elsewhere: only the configuration (field, default, command line)
    sites = {}
    for root in (os.path.join(REPO, "crates"), os.path.join(REPO, "src")):
        for d, _dirs, files in os.walk(root):
            if "/target" in d:
                continue
            for f in files:
                if f.endswith(".rs"):
                    p = os.path.join(d, f)
                    n = len(re.findall(r"opt_level", strip_rust_comments(open(p, errors="replace").read())))
                    if n:
                        sites[os.path.relpath(p, REPO)] = n
    if set(sites) != {"crates/erg_common/config.rs", "crates/erg_compiler/optimize.rs"}:
        raise TieBroken("opt_level is consulted at a place the model does not know: %s" % sorted(sites))
    # 5. compile.rs: where the optimiser runs
    for fn in ("build_link_desugar_optimize", "build_link_desugar_optimize_ast"):
        b = squeeze(fn_body(cmp_, fn))
        if not re.search(r"let linker = HIRLinker::new\(&self\.cfg, &self\.shared\.mod_cache\); let hir = linker\.link\(artifact\.object\); "
                         r"let hir = HIRDesugarer::desugar\(hir\); let hir = HIROptimizer::optimize\(self\.cfg\.clone\(\), "
                         r"self\.shared\.clone\(\), hir\); Ok\(CompleteArtifact::new\(hir, artifact\.warns\)\)", b):
            raise TieBroken("compile.rs %s no longer is build -> link -> desugar -> optimize (harness/optimize mirrors it)" % fn)
    # 6. the arms of the two matches
    ia = match_arms(fn_body(eff, "is_impure"))
    ea = match_arms(fn_body(opt, "eliminate_unused_def"))
    if ia[-1:] != ["_"] or ea[-1:] != ["_"]:
        raise TieBroken("is_impure / eliminate_unused_def: the catch-all arm is gone")
    for n in ia[:-1] + ea[:-1]:
        if n not in VARIANTS:
            raise TieBroken("unknown hir::Expr variant in a match arm: %s" % n)
    passes = [PASSES[s] for s in seq]
    table = "; ".join("(%d, [%s])" % (lv, "" if lv == 0 else "; ".join(map(str, passes))) for lv in LEVELS)
    text = ("(* generated by checks/c12.py from crates/erg_compiler/{optimize.rs,effectcheck.rs,compile.rs} - do not edit *)\n"
            "From Coq Require Import ZArith List.\nImport ListNotations.\nOpen Scope Z_scope.\n"
            "(* level -> passes HIROptimizer::optimize runs (1 eliminate_discarded_variables, 2 eliminate_unused_variables) *)\n"
            "Definition opt_level_passes : list (Z * list Z) := [%s].\n"
            "(* match arms of SideEffectChecker::is_impure / HIROptimizer::eliminate_unused_def (hir::Expr variant codes) *)\n"
            "Definition is_impure_arms : list Z := [%s].\n"
            "Definition elim_arms : list Z := [%s].\n" % (
                table, "; ".join(str(VARIANTS[n]) for n in ia[:-1]), "; ".join(str(VARIANTS[n]) for n in ea[:-1])))
    ctx.write_gen("OptLevels", text)
    return {"passes": seq, "is_impure_arms": ia, "elim_arms": ea}


# ------------------------------------------------------------------ generator (Erg source)
MARK = "@@C12"          # the compiler prints its warnings on stdout too: the program's own output starts after this line
PREAMBLE = ['print! "%s"' % MARK, "zero = 0", "three = list 0..<3", "gl = !list 0..<1", "gi = !0",
            "gq!(a: Int) =", "    print! \"gq\", a", "    gl.push! a", "    a + 1",
            "h2(x: Int, y := 0) = x + y", "idf(x: Int) = x", "sv(*xs: Int) = len(xs)"]


class Gen:
    """one program: a list of top-level statements (each a list of lines) after the preamble"""

    def __init__(self, rng, praise, peffect, focus=None, playout=0.25):
        self.r = rng
        self.k = 0
        self.focus = set(focus or [])   # kinds to prefer (escalated search around a disagreeing construct)
        self.playout = playout          # probability of the source layout variations (`;`-joined statements ...)
        self.praise = praise        # probability weight of possibly-raising initialisers
        self.peffect = peffect      # probability weight of effectful initialisers
        self.kinds = {}

    def fresh(self, p):
        self.k += 1
        return "%s%d" % (p, self.k)

    def count(self, k):
        self.kinds[k] = self.kinds.get(k, 0) + 1

    # ---- expressions
    def iexpr(self, sc, d):
        r = self.r
        ints = sc["int"]
        if d <= 0 or r.random() < 0.3:
            if ints and r.random() < 0.6:
                return r.choice(ints)
            return str(r.randint(0, 9))
        k = r.choice(["add", "sub", "mul", "abs", "len", "fcall", "add", "lam"])
        a = lambda: self.iexpr(sc, d - 1)
        if k == "add": return "(%s + %s)" % (a(), a())
        if k == "sub": return "(%s - %s)" % (a(), a())
        if k == "mul": return "(%s * %s)" % (a(), a())
        if k == "abs": return "abs(%s)" % a()
        if k == "len": return "len([%s, %s])" % (a(), a())
        if k == "fcall" and sc["func"]: return "%s(%s)" % (r.choice(sc["func"]), a())
        if k == "lam" and sc["lam"]: return "%s(%s)" % (r.choice(sc["lam"]), a())
        return "(%s + %s)" % (a(), a())

    def cond(self, sc):
        # the left operand is a leaf: `if! (a + b) == c` would parse as the call `if!(a + b)`
        return "%s %s %s" % (self.iexpr(sc, 0), self.r.choice(["==", "<", "<=", "!=", ">"]), self.iexpr(sc, 1))

    # ---- definitions: returns (lines, type) ; type in int | list | tuple | none | other
    def initialiser(self, sc, effects, ind):
        """returns (kind, head_rhs, extra_lines, type)"""
        r = self.r
        sp = " " * (ind + 4)
        kinds = ["lit", "lit", "arith", "arith", "blk", "list", "tuple", "fcall"]
        if effects:
            kinds += ["print", "push", "inc", "pcall", "pblk", "rec", "methcall"] * (1 if r.random() < self.peffect else 0) + ["print", "push"]
        kinds += ["arg_kw_pure", "arg_star_pure"]
        if effects:
            # every way an effectful sub-expression can be handed to a call
            kinds += ["arg_pos", "arg_kw", "arg_star", "arg_kwstar", "arg_var", "arg_default"] * (1 if r.random() < self.peffect else 0) + ["arg_kw"]
        if r.random() < self.praise:
            kinds = ["div0", "index", "intstr", "assert", "divnz"]
        pref = [k for k in kinds if ("init:" + k) in self.focus]
        k = r.choice(pref) if pref and r.random() < 0.7 else r.choice(kinds)
        self.count("init:" + k)
        eff = lambda: r.choice(["gq!(%s)" % self.iexpr(sc, 1), "gq!(%s).abs()" % self.iexpr(sc, 0)])
        if k == "arg_pos": return k, "h2(%s, %s)" % (eff(), self.iexpr(sc, 1)), [], "int"
        if k == "arg_default": return k, "h2(%s)" % eff(), [], "int"
        if k == "arg_kw": return k, "h2(%s, y := %s)" % (self.iexpr(sc, 1), eff()), [], "int"
        if k == "arg_star": return k, "idf(*[%s])" % eff(), [], "int"
        if k == "arg_kwstar": return k, 'h2(%s, **{"y": %s})' % (self.iexpr(sc, 1), eff()), [], "int"
        if k == "arg_var": return k, "sv(%s, %s)" % (eff(), self.iexpr(sc, 1)), [], "int"
        if k == "arg_kw_pure": return k, "h2(%s, y := %s)" % (self.iexpr(sc, 1), self.iexpr(sc, 1)), [], "int"
        if k == "arg_star_pure": return k, "idf(*[%s])" % self.iexpr(sc, 1), [], "int"
        if k == "lit": return k, str(r.randint(0, 99)), [], "int"
        if k == "arith": return k, self.iexpr(sc, 3), [], "int"
        if k == "fcall": return k, ("%s(%s)" % (r.choice(sc["func"]), self.iexpr(sc, 1)) if sc["func"] else self.iexpr(sc, 2)), [], "int"
        if k == "blk":
            a = self.fresh("a")
            inner = dict(sc, int=sc["int"] + [a])
            return k, "", [sp + "%s = %s" % (a, self.iexpr(sc, 2)), sp + self.iexpr(inner, 2)], "int"
        if k == "list": return k, "[%s, %s]" % (self.iexpr(sc, 1), self.iexpr(sc, 1)), [], "list"
        if k == "tuple": return k, "(%s, %s)" % (self.iexpr(sc, 1), self.iexpr(sc, 1)), [], "tuple"
        if k == "print": return k, 'print! "%s"' % self.fresh("m"), [], "none"
        if k == "push": return k, "gl.push! %s" % self.iexpr(sc, 1), [], "none"
        if k == "inc": return k, "gi.inc!()", [], "none"
        if k == "pcall": return k, "gq!(%s)" % self.iexpr(sc, 1), [], "int"
        if k == "methcall": return k, "gq!(%s).abs()" % self.iexpr(sc, 1), [], "int"
        if k == "pblk": return k, "", [sp + 'print! "%s"' % self.fresh("b"), sp + self.iexpr(sc, 2)], "int"
        if k == "rec": return k, '{a = print! "%s"; b = %s}' % (self.fresh("r"), self.iexpr(sc, 1)), [], "other"
        if k == "div0": return k, "%s // zero" % self.iexpr(sc, 1), [], "int"
        if k == "divnz": return k, "%s // %d" % (self.iexpr(sc, 1), r.randint(1, 5)), [], "int"
        if k == "index": return k, "three[%d]" % r.choice([1, 2, 5, 7]), [], "int"
        if k == "intstr": return k, 'int "%s"' % r.choice(["12", "zz", "7"]), [], "int"
        if k == "assert": return k, "assert zero == %d" % r.choice([0, 1]), [], "none"
        raise AssertionError(k)

    def definition(self, sc, effects, ind, toplevel):
        r = self.r
        sp = " " * ind
        used = r.random() < 0.45
        pub = toplevel and r.random() < 0.2
        kind, rhs, extra, ty = self.initialiser(sc, effects, ind)
        name = ("." if pub else "") + self.fresh("v")     # a public name is written .name at the definition and at every use
        self.count("def:%s:%s" % ("public" if pub else "private", "used" if used else "unused"))
        head = sp + name + " =" + ((" " + rhs) if rhs else "")
        if used and ty != "other":
            (sc["int"] if ty == "int" else sc["show"]).append(name)
            sc["local_used"].append(name)
            if toplevel and ty == "int":
                sc["gint"].append(name)
        return [head] + extra

    # ---- statements
    def block(self, sc, effects, ind, n, depth, toplevel=False):
        """n statements; definitions made here are visible to the following statements of the block only"""
        sc = {k: (list(v) if isinstance(v, list) else v) for k, v in sc.items()}
        sc["local_used"] = []
        stmts = []
        for _ in range(n):
            st = self.statement(sc, effects, ind, depth, toplevel)
            if stmts and len(st) == 1 and self.r.random() < self.playout and not stmts[-1][-1].rstrip().endswith((":", "=", "=>")) \
                    and len(stmts[-1][-1]) - len(stmts[-1][-1].lstrip()) == ind and len(stmts[-1][-1]) < 150:
                # source layout: the statement shares the last line of the previous one (`a = 1; print! a`,
                # a definition and its use on one line, the last line of a multi-line definition followed by a use)
                stmts[-1] = stmts[-1][:-1] + [stmts[-1][-1] + "; " + st[0].strip()]
                self.count("layout:joined with ;")
            else:
                stmts.append(st)
        return stmts, sc

    def statement(self, sc, effects, ind, depth, toplevel):
        r = self.r
        sp = " " * ind
        kinds = ["def"] * 6 + ["func", "lam", "func1", "mlist"]
        if toplevel:
            # a recursive subroutine nested in another one hits a code generator bug at every level (UnboundLocalError / cell)
            kinds += ["recfn", "mrec"]
        if effects:
            kinds += ["print", "print", "push", "inc", "proc", "pcallstmt"]
            if depth > 0:
                kinds += ["if", "for", "if"]
        pref = [k for k in kinds if ("stmt:" + k) in self.focus]
        k = r.choice(pref) if pref and r.random() < 0.5 else r.choice(kinds)
        if k == "def":
            return self.definition(sc, effects, ind, toplevel)
        self.count("stmt:" + k)
        if k == "func1":
            # one-line subroutine; used or not; a use may follow on the same line (block() joins with `;`)
            name = self.fresh("f")
            pp = self.fresh("p")
            inner = self.sub_scope(sc, pp)
            line = sp + "%s(%s: Int) = %s" % (name, pp, self.iexpr(inner, 2))
            if r.random() < 0.6:
                sc["func"].append(name)
                if toplevel:
                    sc["gfunc"].append(name)
                if r.random() < 0.6 and effects:
                    line += "; print! %s(%s)" % (name, self.iexpr(sc, 0))
                    self.count("layout:definition and use share a line")
            return [line]
        if k == "mlist":
            name = self.fresh("v")
            lines = [sp + "%s = [%s," % (name, self.iexpr(sc, 1)), sp + "    %s]" % self.iexpr(sc, 1)]
            if r.random() < 0.6:
                if effects and r.random() < 0.6:
                    lines[-1] += "; print! %s" % name
                    self.count("layout:use on the last line of a multi-line definition")
                else:
                    sc["show"].append(name)
                    sc["local_used"].append(name)
            return lines
        if k == "recfn":
            name = self.fresh("f")
            used = r.random() < 0.5
            self.count("recursive subroutine: " + ("used" if used else "unused"))
            lines = [sp + "%s(n: Int): Int =" % name, sp + "    if n <= 0, do %s, do (n + %s(n - 1))" % (self.iexpr({"int": list(sc["gint"]), "func": [], "lam": []}, 0), name)]
            if used:
                sc["func"].append(name)
                if toplevel:
                    sc["gfunc"].append(name)
            return lines
        if k == "mrec":
            a_, b_ = self.fresh("f"), self.fresh("f")
            used = r.random() < 0.5
            self.count("mutually recursive subroutines: " + ("used" if used else "unused"))
            lines = [sp + "%s(n: Int): Int = if n <= 0, do 0, do %s(n - 1)" % (a_, b_),
                     sp + "%s(n: Int): Int = if n <= 0, do 1, do %s(n - 1)" % (b_, a_)]
            if used:
                sc["func"].append(a_)
                if toplevel:
                    sc["gfunc"].append(a_)
            return lines
        if k == "print":
            return [sp + "print! %s" % ", ".join(([r.choice(sc["show"])] if sc["show"] and r.random() < 0.4 else []) + [self.iexpr(sc, 0), self.iexpr(sc, 2)])]
        if k == "push":
            return [sp + "gl.push! %s" % self.iexpr(sc, 1)]
        if k == "inc":
            return [sp + "gi.inc!()"]
        if k == "pcallstmt":
            return [sp + "discard gq!(%s)" % self.iexpr(sc, 1)]
        if k == "func":
            name = self.fresh("f")
            p = self.fresh("p")
            inner = self.sub_scope(sc, p)
            body, isc = self.block(inner, False, ind + 4, r.randint(0, 2), 0)
            lines = [sp + "%s(%s: Int) =" % (name, p)] + [l for s in body for l in s] + [" " * (ind + 4) + self.iexpr(isc, 2)]
            sc["func"].append(name)
            if toplevel:
                sc["gfunc"].append(name)
            return lines
        if k == "lam":
            name = self.fresh("g")
            p = self.fresh("p")
            inner = self.sub_scope(sc, p)
            line = sp + "%s = (%s: Int) -> %s" % (name, p, self.iexpr(inner, 2))
            sc["lam"].append(name)
            if toplevel:
                sc["glam"].append(name)
            return [line]
        if k == "proc":
            name = self.fresh("q") + "!"
            p = self.fresh("p")
            inner = self.sub_scope(sc, p)
            body, isc = self.block(inner, True, ind + 4, r.randint(1, 3), depth - 1)
            tail = self.show_line(isc, ind + 4)
            lines = [sp + "%s(%s: Int) =" % (name, p)] + [l for s in body for l in s] + tail + [" " * (ind + 4) + self.iexpr(isc, 2)]
            sc.setdefault("proc", []).append(name)
            if r.random() < 0.7:
                lines.append(sp + "print! %s(%s)" % (name, self.iexpr(sc, 1)))
            return lines
        if k == "if":
            b1, s1 = self.block(sc, True, ind + 8, r.randint(1, 3), depth - 1)
            lines = [sp + "if! %s:" % self.cond(sc), sp + "    do!:"] + [l for s in b1 for l in s] + self.show_line(s1, ind + 8, force=True)
            if r.random() < 0.5:
                b2, s2 = self.block(sc, True, ind + 8, r.randint(1, 2), depth - 1)
                lines += [sp + "    do!:"] + [l for s in b2 for l in s] + self.show_line(s2, ind + 8, force=True)
            return lines
        if k == "for":
            j = self.fresh("j")
            inner = dict(sc, int=sc["int"] + [j])
            b1, s1 = self.block(inner, True, ind + 4, r.randint(1, 3), depth - 1)
            return [sp + "for! [%s, %s], %s =>" % (self.iexpr(sc, 1), self.iexpr(sc, 1), j)] + [l for s in b1 for l in s] + \
                self.show_line(s1, ind + 4, force=True)
        raise AssertionError(k)

    def sub_scope(self, sc, p):
        """scope of a subroutine body: its parameter and the module-level names only (a nested subroutine that captures a
        parameter or local of an enclosing one hits a code generator bug: `int() argument must be ... not 'cell'`)"""
        return {"int": list(sc["gint"]) + [p], "show": [], "func": list(sc["gfunc"]), "lam": list(sc["glam"]), "local_used": [],
                "gint": list(sc["gint"]), "gfunc": list(sc["gfunc"]), "glam": list(sc["glam"])}

    def show_line(self, sc, ind, force=False):
        """print the used definitions of the block (so that they are referenced); blocks must end with an expression"""
        names = sc["local_used"]
        if names:
            return [" " * ind + "print! %s" % ", ".join(names)]
        if force:
            return [" " * ind + 'print! "%s"' % self.fresh("e")]
        return []

    def program(self):
        r = self.r
        sc = {"int": ["zero"], "show": [], "func": [], "lam": [], "local_used": [], "gint": ["zero"], "gfunc": [], "glam": []}
        n = r.randint(3, 9)
        stmts, fsc = self.block(sc, True, 0, n, r.choice([0, 1, 1, 2]), toplevel=True)
        tail = self.show_line(fsc, 0) + ["print! gl, gi"]
        return [list(PREAMBLE)] + stmts + [tail]


# ---- systematic placements: every kind of initialiser in every context, used / unused, private / public
SYS_INITS = [  # (kind, rhs or None, extra body lines (relative indentation 4), effect free?, printable?)
    ("lit", "7", [], True, True), ("arith", "((zero + 3) * 2)", [], True, True),
    ("blk", None, ["a0 = (zero + 2)", "(a0 + 1)"], True, True), ("list", "[zero, 4]", [], True, True),
    ("tuple", "(zero, 4)", [], True, True), ("fcall", "sf(3)", [], True, True), ("lamcall", "sg(3)", [], True, True),
    ("len", "len([zero, 1])", [], True, True), ("abs", "abs(zero - 4)", [], True, True),
    ("print", 'print! "m0"', [], False, True), ("push", "gl.push! 5", [], False, True), ("inc", "gi.inc!()", [], False, True),
    ("pcall", "gq!(2)", [], False, True), ("methcall", "gq!(zero - 2).abs()", [], False, True),
    ("attrcall", "gq!(2).real", [], False, True),
    ("pblk", None, ['print! "b0"', "(zero + 1)"], False, True), ("rec", '{a = print! "r0"; b = 1}', [], False, False),
    ("list_eff", "[gq!(1), 2]", [], False, True), ("tuple_eff", "(gq!(1), 2)", [], False, True),
    ("arg_eff", "abs(gq!(1))", [], False, True), ("bin_eff", "(gq!(1) + 1)", [], False, True),
    ("div0", "4 // zero", [], True, True), ("mod0", "4 % zero", [], True, True), ("divnz", "9 // 2", [], True, True),
    ("index_bad", "three[5]", [], True, True), ("index_ok", "three[1]", [], True, True),
    ("int_bad", 'int "zz"', [], True, True), ("int_ok", 'int "12"', [], True, True),
    ("assert_bad", "assert zero == 1", [], True, True), ("assert_ok", "assert zero == 0", [], True, True),
    ("fraise", "sr(1)", [], True, True),
    # every way of handing an effectful sub-expression to a call
    ("arg_pos_eff", "h2(gq!(1), 2)", [], False, True), ("arg_default_eff", "h2(gq!(1))", [], False, True),
    ("arg_kw_eff", "h2(1, y := gq!(2))", [], False, True), ("arg_star_eff", "idf(*[gq!(1)])", [], False, True),
    ("arg_kwstar_eff", 'h2(1, **{"y": gq!(2)})', [], False, True), ("arg_var_eff", "sv(gq!(1), 2)", [], False, True),
    ("arg_kw_print", 'h2(1, y := len([print! "k0", 1]))', [], False, True),
    ("arg_kw_pure", "h2(1, y := 2)", [], True, True), ("arg_star_pure", "idf(*[3])", [], True, True),
]
# source layout: statements sharing a line, (mutually) recursive subroutines used / unused
SYS_LAYOUT = [
    ("var and use on one line", ["a0 = 4; print! a0"]),
    ("function and use on one line", ["t0(x: Int) = x * 3; print! t0(4)"]),
    ("function, variable and use on one line", ["t0(x: Int) = x * 3; b0 = t0(2); print! b0"]),
    ("lambda and use on one line", ["t0 = (x: Int) -> (x * 3); print! t0(4)"]),
    ("use after a one-line function uses a global", ["s0 = 3", "t0(x: Int) = x * s0; print! t0(4)"]),
    ("unused function and a print on one line", ["t0(x: Int) = x * 3; print! \"u0\""]),
    ("multi-line list, use on its last line", ["v0 = [1,", "    2]; print! v0"]),
    ("multi-line function, use on the line after", ["t0(x: Int) =", "    y0 = x + 1", "    y0 * 2", "print! t0(1)"]),
    ("use inside a block on the definition's line", ["if! zero == 0:", "    do!:", "        t0(x: Int) = x + 1; print! t0(1)"]),
    ("effectful definitions on one line", ["x0 = gq!(1); y0 = gl.push! 7; print! \"u0\""]),
    ("recursive function, used", ["r0(n: Int): Int =", "    if n <= 0, do 0, do (n + r0(n - 1))", "print! r0(3)"]),
    ("recursive function, unused", ["r0(n: Int): Int =", "    if n <= 0, do 0, do (n + r0(n - 1))", "print! \"u0\""]),
    ("recursive one-liner, used on its line", ["r0(n: Int): Int = if n <= 0, do 0, do (n + r0(n - 1)); print! r0(3)"]),
    ("recursive one-liner, unused", ["r0(n: Int): Int = if n <= 0, do 0, do (n + r0(n - 1)); print! \"u0\""]),
    ("mutual recursion, used", ["e0(n: Int): Int = if n <= 0, do 0, do o0(n - 1)", "o0(n: Int): Int = if n <= 0, do 1, do e0(n - 1)", "print! e0(3)"]),
    ("mutual recursion, unused", ["e0(n: Int): Int = if n <= 0, do 0, do o0(n - 1)", "o0(n: Int): Int = if n <= 0, do 1, do e0(n - 1)", "print! \"u0\""]),
    ("mutual recursion, used on the second line", ["e0(n: Int): Int = if n <= 0, do 0, do o0(n - 1)", "o0(n: Int): Int = if n <= 0, do 1, do e0(n - 1); print! o0(2)"]),
]
SYS_PRE = ["sf(p: Int) = p + 1", "sg = (p: Int) -> (p + 2)", "sr(p: Int) =", "    y0 = p // zero", "    p"]
SYS_CTX = ["module", "public", "proc", "then", "else", "for", "func"]


def systematic_cases():
    out = []
    for kind, rhs, extra, pure, printable in SYS_INITS:
        for cx in SYS_CTX:
            if cx == "func" and not pure:
                continue
            for used in (False, True):
                if used and not printable:
                    continue
                name = ".x0" if cx == "public" else "x0"
                d = [name + " =" + ((" " + rhs) if rhs else "")] + ["    " + l for l in extra]
                use = ["print! " + name] if used else ['print! "u0"']
                if cx in ("module", "public"):
                    body = d + use
                elif cx == "proc":
                    body = ["sp!(p: Int) ="] + ["    " + l for l in d + use] + ["    p", "print! sp!(1)"]
                elif cx == "then":
                    body = ["if! zero == 0:", "    do!:"] + ["        " + l for l in d + use] + ["    do!:", '        print! "no"']
                elif cx == "else":
                    body = ["if! zero == 1:", "    do!:", '        print! "no"', "    do!:"] + ["        " + l for l in d + use]
                elif cx == "for":
                    body = ["for! [1, 2], j0 =>"] + ["    " + l for l in d + use]
                else:
                    body = ["sh(p: Int) ="] + ["    " + l for l in d] + ["    " + ("(p + x0)" if used and kind in ("lit", "arith", "blk", "fcall", "lamcall", "len", "abs", "div0", "mod0", "divnz", "index_bad", "index_ok", "int_bad", "int_ok", "fraise") else "p"), "print! sh(1)"]
                src = "\n".join(PREAMBLE + SYS_PRE + body + ["print! gl, gi"]) + "\n"
                out.append(("%s in %s, %s" % (kind, cx, "used" if used else "unused"), src))
    for label, body in SYS_LAYOUT:
        out.append(("layout: " + label, "\n".join(PREAMBLE + body + ["print! gl, gi"]) + "\n"))
        if "recurs" in label:
            continue
        out.append(("layout: " + label + " (in a procedure)",
                    "\n".join(PREAMBLE + ["lp!(p: Int) ="] + ["    " + l for l in body] + ["    p", "print! lp!(1)", "print! gl, gi"]) + "\n"))
    return out


def render(stmts):
    return "\n".join(l for s in stmts for l in s) + "\n"


# ------------------------------------------------------------------ tree handling
def norm_tree(hir, table=None):
    t = [] if table is None else table
    return [walk(e, t) for e in hir]


def walk(e, table):
    """structure-directed copy of a dumped expression with the refs field of definitions set to 0"""
    tag = e[0]
    W = lambda x: walk(x, table)
    WL = lambda l: [walk(x, table) for x in l]
    if tag in (0, 1): return list(e)
    if tag == 2: return [2, W(e[1]), e[2]]
    if tag == 3: return e[:6] + [W(e[6]), WL(e[7]), WL(e[8]), WL(e[9]), WL(e[10])]
    if tag == 4: return [4, e[1], W(e[2]), W(e[3])]
    if tag == 5: return [5, e[1], W(e[2])]
    if tag in (6, 9, 10, 12, 14, 21, 22, 24): return [tag, WL(e[1])]
    if tag == 7: return [7, W(e[1]), WL(e[2])]
    if tag == 11: return [11, W(e[1]), W(e[2])]
    if tag == 15: return [15, e[1], e[2], list(e[3]), WL(e[4])]
    if tag == 16:
        d = e[1]
        table.append([d[0], d[6]])
        return [16, d[:6] + [0, d[7], list(d[8]), WL(d[9])]]
    if tag == 19: return [19, W(e[1])]
    return [tag]


def depth_of(e):
    if isinstance(e, list):
        return 1 + max([depth_of(x) for x in e] + [0])
    return 0


def render_value(v, top=True):
    t = v[0]
    if t == 0: return str(v[1])
    if t == 1:
        s = "".join(chr(c) for c in v[1])
        return s if top else repr(s)
    if t == 2: return "True" if v[1] else "False"
    if t == 3: return "None"
    if t == 4:
        items = [render_value(x, False) for x in v[2]]
        if v[1]:
            return "(" + ", ".join(items) + ("," if len(items) == 1 else "") + ")"
        return "[" + ", ".join(items) + "]"
    return "<opaque>"


def render_behaviour(b):
    """model behaviour -> (stdout text, exception class name or '', predicted?)"""
    ending, cls, lines = b
    out = "".join(" ".join(render_value(v) for v in line) + "\n" for line in lines)
    if out.startswith(MARK + "\n"):
        out = out[len(MARK) + 1:]
    if ending == 0:
        return out, "", True
    if ending == 1:
        return out, EXC.get(cls, "?%s" % cls), True
    return out, "", False


# ------------------------------------------------------------------ running the implementation
def tmp_root():
    d = os.path.join(CACHE, "tmp")
    os.makedirs(d, exist_ok=True)
    return d


def exc_class(stderr, stdout, rc):
    """class of the uncaught exception = first word of the last line of the traceback (stderr)"""
    if rc == 0:
        return ""
    txt = re.sub(r"\x1b\[[0-9;]*m", "", stderr)
    if "Traceback (most recent call last)" in txt:
        lines = [l for l in txt.strip().splitlines() if l.strip()]
        m = re.match(r"^([A-Za-z_][\w.]*)(?::|$)", lines[-1].strip()) if lines else None
        return m.group(1) if m else "?"
    m = re.search(r"^(\w*Error)\b", txt + "\n" + re.sub(r"\x1b\[[0-9;]*m", "", stdout), re.M)
    return "compile:" + (m.group(1) if m else "?")


def prepare(src):
    return src if src.startswith('print! "%s"' % MARK) else 'print! "%s"\n' % MARK + src


def program_output(stdout):
    """what the program itself printed: the text after the marker line (before it: compiler diagnostics)"""
    txt = re.sub(r"\x1b\[[0-9;]*m", "", stdout)
    i = txt.find(MARK + "\n")
    return txt[i + len(MARK) + 1:] if i >= 0 else ""


def run_cli(erg, env, src, levels=LEVELS, timeout=180):
    """[(program output, exception class, exit status)] for the levels, the program in its own directory"""
    d = tempfile.mkdtemp(prefix="c12-", dir=tmp_root())
    try:
        with open(os.path.join(d, "p.er"), "w") as f:
            f.write(src)
        out = []
        for lv in levels:
            try:
                p = sh([erg, "run", "-o", str(lv), "p.er"], cwd=d, env=env, timeout=timeout)
                out.append((program_output(p.stdout), exc_class(p.stderr, p.stdout, p.returncode), p.returncode))
            except subprocess.TimeoutExpired:
                out.append(("", "timeout", -1))
        return out
    finally:
        shutil.rmtree(d, ignore_errors=True)


def run_cli_many(erg, env, srcs, levels=LEVELS, workers=16):
    with concurrent.futures.ThreadPoolExecutor(max_workers=workers) as ex:
        return list(ex.map(lambda s: run_cli(erg, env, s, levels), srcs))


def run_harness_many(h, srcs, workers=16):
    cases = [[s, LEVELS] for s in srcs]
    if len(cases) <= 8:
        return h.run(cases)
    chunk = max(2, (len(cases) + workers * 2 - 1) // (workers * 2))
    parts = [cases[i:i + chunk] for i in range(0, len(cases), chunk)]
    with concurrent.futures.ThreadPoolExecutor(max_workers=workers) as ex:
        outs = list(ex.map(h.run, parts))
    return [x for o in outs for x in o]


def obs_wire(o):
    return [o[0], o[1], o[2]]


# ------------------------------------------------------------------ evaluation of a batch of sources
class Result:
    pass


def evaluate(ctx, h, model, erg, srcs, variant=0):
    """runs harness (trees), model (optimised trees, predicted behaviour), CLI (levels) and the judge"""
    env = ctx.erg_env()
    srcs = [prepare(s) for s in srcs]
    with concurrent.futures.ThreadPoolExecutor(max_workers=2) as ex:
        fh = ex.submit(run_harness_many, h, srcs)
        fc = ex.submit(run_cli_many, erg, env, srcs)
        dumps, clis = fh.result(), fc.result()
    # a generated program has no unbounded loop: a timeout is the machine, not the program; retry once, alone
    for k, cli in enumerate(clis):
        if any(o[1] == "timeout" for o in cli):
            clis[k] = run_cli(erg, env, srcs[k], timeout=900)
    res = []
    mcases, midx = [], []
    for k, (src, dump, cli) in enumerate(zip(srcs, dumps, clis)):
        r = Result()
        r.src, r.cli, r.status = src, cli, dump[0]
        r.tree_diff, r.beh_diff, r.model, r.removed, r.oracle_sound = None, None, None, [], None
        r.trees = None
        if dump[0] == 0:
            table = []
            before = norm_tree(dump[1], table)
            r.trees = {lv: norm_tree(hir) for lv, hir in dump[2]}
            r.before = before
            r.refs = table
            for lv in LEVELS:
                mcases.append([0, variant, lv, FUEL, table, before])
                midx.append((k, lv))
        res.append(r)
    mres = model.run(mcases) if mcases else []
    for (k, lv), m in zip(midx, mres):
        r = res[k]
        r.model = r.model or {}
        r.model[lv] = m
    jres = model.run([[1, [obs_wire(o) for o in r.cli]] for r in res]) if res else []
    for r, j in zip(res, jres):
        r.judge = (j == 1)
        r.timed_out = any(o[1] == "timeout" for o in r.cli)
        if r.timed_out:
            r.judge = True          # not a verdict about the program: counted and reported in the evidence
        if r.status != 0:
            continue
        for lv in LEVELS:
            m = r.model[lv]
            if m[0] != 0:
                r.tree_diff = r.tree_diff or {"level": lv, "model": "panic site %s" % m[1], "impl": "no panic"}
                continue
            if lv == 0 and r.trees[0] != r.before:
                r.tree_diff = r.tree_diff or {"level": 0, "what": "HIROptimizer::optimize at level 0 changed the tree"}
            if m[1] != r.trees[lv]:
                r.tree_diff = r.tree_diff or {"level": lv, "impl_removed": removed_ids(r.before, r.trees[lv]),
                                              "model_removed": [x[0] for x in m[2]]}
            if lv == 1:
                r.removed = m[2]
                r.oracle_sound = (m[3] == 1)
            # predicted behaviour
            b0, bn = render_behaviour(m[4]), render_behaviour(m[5])
            r.predicted = getattr(r, "predicted", True) and b0[2] and bn[2]
            if lv == 0 and b0[2] and (b0[0], b0[1]) != (r.cli[0][0], r.cli[0][1]):
                r.beh_diff = r.beh_diff or {"level": 0, "model": b0[:2], "impl": r.cli[0][:2]}
            if bn[2] and b0[2] and (bn[0], bn[1]) != (r.cli[lv][0], r.cli[lv][1]):
                r.beh_diff = r.beh_diff or {"level": lv, "model": bn[:2], "impl": r.cli[lv][:2]}
    return res


def removed_ids(before, after):
    """ids of the definitions that are Dummy in `after` (same positions)"""
    out = []

    def rec(a, b):
        if isinstance(a, list) and isinstance(b, list):
            if a and a[0] == 16 and b and b[0] == 24:
                out.append(a[1][0])
                return
            for x, y in zip(a, b):
                rec(x, y)
    rec(before, after)
    return out


# ------------------------------------------------------------------ known class: delete the known-class definitions and re-run
def stmt_extent(lines, i):
    """lines [i, j) that belong to the statement starting at line i (deeper-indented continuation lines)"""
    ind = len(lines[i]) - len(lines[i].lstrip())
    j = i + 1
    while j < len(lines) and (not lines[j].strip() or len(lines[j]) - len(lines[j].lstrip()) > ind):
        j += 1
    return j


def split_top(line):
    """[(start, end)] of the `;`-separated statements of a line (separators inside brackets / strings do not count)"""
    segs, depth, q, start = [], 0, None, len(line) - len(line.lstrip())
    for i, c in enumerate(line):
        if q:
            if c == q and line[i - 1] != "\\":
                q = None
        elif c == '"':
            q = c
        elif c in "([{":
            depth += 1
        elif c in ")]}":
            depth -= 1
        elif c == ";" and depth == 0:
            segs.append((start, i))
            start = i + 1
    segs.append((start, len(line)))
    return segs


def without_known(src, removed):
    """source with the removed definitions of the known class deleted (they are unused: the rest still compiles); a
    definition that shares its line with other statements (`a = 1; b = f(2); print! a`) is cut out of the line"""
    lines = src.split("\n")
    kill = set()
    for ident, known in sorted(removed, reverse=True):
        if not known:
            continue
        ln, col = ident // 1000000 - 1, (ident % 1000000) // 1000
        if not (0 <= ln < len(lines)) or ln in kill:
            continue
        segs = split_top(lines[ln])
        k = max([n for n, (a, b) in enumerate(segs) if a <= col] or [0])
        last = (k == len(segs) - 1)
        if len(segs) == 1:
            kill.update(range(ln, stmt_extent(lines, ln)))
            continue
        if last:
            # the definition may continue on deeper-indented lines
            kill.update(range(ln + 1, stmt_extent(lines, ln)))
            lines[ln] = lines[ln][:segs[k][0] - 1].rstrip()
        elif k == 0:
            lines[ln] = lines[ln][:segs[0][0]] + lines[ln][segs[1][0]:].lstrip()
        else:
            lines[ln] = lines[ln][:segs[k][0] - 1] + lines[ln][segs[k][1]:]
    return "\n".join(l for i, l in enumerate(lines) if i not in kill)


def classify(ctx, h, model, erg, r):
    """for a program whose behaviour differs between levels: 'known' if the difference disappears when the removed
    definitions of class Known_C12 are deleted from the source, else 'violation'"""
    if r.status != 0 or not any(k for _i, k in r.removed):
        return "violation", None
    src2 = without_known(r.src, r.removed)
    r2 = evaluate(ctx, h, model, erg, [src2])[0]
    if r2.status == 0 and r2.judge:
        return "known", src2
    if r2.status == 0 and any(k for _i, k in r2.removed):
        return classify(ctx, h, model, erg, r2)
    return "violation", src2


# ------------------------------------------------------------------ corpus / known findings
def corpus_cases():
    out = []
    d = os.path.join(VERIF, "corpus", "C12")
    if os.path.isdir(d):
        for f in sorted(os.listdir(d)):
            if f.endswith(".json"):
                j = json.load(open(os.path.join(d, f)))
                out.append((f, j["src"], j.get("expect", "same")))
    return out


def known_entries(ctx):
    """the listed findings of this property (ctx.known(); falls back to reading known/C12.json itself when some other
    file under known/ is not a list of entries)"""
    try:
        return ctx.known()
    except Exception:
        p = os.path.join(VERIF, "known", "C12.json")
        es = json.load(open(p)) if os.path.exists(p) else []
        return [k for k in es if isinstance(k, dict) and k.get("property") == "C12" and k.get("status") == "finding"]


def describe(r):
    return {"levels": {str(lv): {"stdout": o[0][-400:], "exception": o[1], "exit": o[2]} for lv, o in zip(LEVELS, r.cli)},
            "removed": r.removed}


# ------------------------------------------------------------------ main
def run(ctx):
    ctx.cov["rule"] = ("generated Erg programs: private and public definitions, used and unused, at module level, in function and "
                       "procedure bodies and in do!/for! blocks; initialisers: literals, arithmetic, blocks, lists, tuples, function "
                       "calls, print!, procedural methods on mutable objects (push!, inc!), procedure calls, records and method calls "
                       "with an effect inside, possibly-raising expressions (//, indexing, int of a string, assert); trailing prints of "
                       "the used definitions and of the mutable objects. Each program is compiled in-process (tree before/after "
                       "HIROptimizer::optimize at levels 0..3 vs the extracted model) and run with `erg run -o 0|1|2|3`. "
                       "non-trivial = compiled, ran at all four levels and the optimiser removed at least one definition")
    ctx.cov["trusted_base"] = ["Coq 8.16.1 kernel", "extraction (ExtrOcamlBasic only) + extract/driver.ml",
                               "harness/optimize/src/main.rs (mirrors compile.rs build_link_desugar_optimize; abstracts hir::Expr to "
                               "the mini language; boolean attributes and reference counts are read from the compiler's own data)",
                               "checks/c12.py: translator, rendering of printed values, parsing of the traceback's last line"]
    ctx.assumptions = ["reference counts are an input of the model: what is used of them (oracle_sound: nothing left mentions an "
                       "identifier bound by a removed definition) is evaluated on every dumped program, not proved of ModuleIndex",
                       "opt_preserves speaks about runs of the unoptimised program that end (normally or with an uncaught exception)",
                       "mini semantics: definition sites are unique, no recursion, no aliases of mutable objects, first-order values "
                       "(programs outside this fragment are only judged, their behaviour is not predicted)"]
    tie = []            # reasons why the model may no longer be the code (each one triggers the escalated search)
    try:
        ctx.cov["translated"] = translate(ctx)
    except TieBroken as e:
        tie.append(str(e))
    ch = changed_bodies()
    if ch:
        tie.append("the body of a modelled function changed: " + ", ".join(ch))
    ctx.cov["tie_problems"] = tie
    proof = ctx.coq(["Optimize/Props_C12.v"])
    h = Harness(ctx, "optimize", env=ctx.erg_env())
    model = ctx.model("Optimize")
    erg = ctx.erg_bin()

    cases = []
    for f, src, expect in corpus_cases():
        cases.append(("corpus:" + f, src, expect, None))
    sysc = systematic_cases()
    if not ctx.thorough:
        lay = [c for c in sysc if c[0].startswith("layout:")]
        rest = [c for c in sysc if not c[0].startswith("layout:")]
        sysc = lay + ctx.rng.sample(rest, int(os.environ.get("C12_SYS", 40)))
    else:
        ctx.cov["exhaustive_small_scope"] = "%d placements: every initialiser kind (%d) in every context (%s), used and unused" % (
            len(sysc), len(SYS_INITS), ", ".join(SYS_CTX))
    for label, src in sysc:
        cases.append(("placement", src, "any", None))
    ngen = int(os.environ.get("C12_N", ctx.scale(60, 2000)))
    gens = {}
    kinds_of = {}

    def add_generated(n, focus=None, playout=None):
        for i in range(n):
            g = Gen(ctx.rng, ctx.rng.choice([0.0, 0.0, 0.05, 0.15]), ctx.rng.choice([0.3, 0.6, 1.0]), focus=focus,
                    playout=ctx.rng.choice([0.0, 0.2, 0.5]) if playout is None else playout)
            stmts = g.program()
            src = render(stmts)
            cases.append(("gen", src, "same", stmts))
            kinds_of[src] = set(g.kinds)
            for k, v in g.kinds.items():
                gens[k] = gens.get(k, 0) + v
    add_generated(ngen)
    ctx.log("%d programs" % len(cases))
    results = []

    def evaluate_new():
        B = 400
        todo = cases[len(results):]
        for i in range(0, len(todo), B):
            results.extend(evaluate(ctx, h, model, erg, [c[1] for c in todo[i:i + B]]))
            ctx.log("evaluated %d/%d" % (len(results), len(cases)))
    evaluate_new()
    # escalation: the tie is broken (translator, changed body, theorem) or model and implementation disagree somewhere, and no
    # program judged so far fails: search around the disagreeing constructs before concluding "no failing input found"
    dis = [(c, r) for c, r in zip(cases, results) if r.status == 0 and (r.tree_diff or r.beh_diff or r.oracle_sound is False)]
    failing = [r for r in results if not r.judge]
    if (tie or dis or not proof.ok) and not [r for r in failing if not any(k for _i, k in r.removed)]:
        focus = set()
        for c, r in dis:
            focus |= kinds_of.get(c[1], set())
        ctx.log("escalated search: %d tie problems, %d disagreeing programs, focus on %s" % (len(tie), len(dis), sorted(focus)[:12]))
        ctx.cov["escalated"] = {"tie_problems": tie, "disagreeing_programs": len(dis), "focus": sorted(focus)}
        done = set(c[1] for c in cases)
        for label, src in systematic_cases():
            if src not in done:
                cases.append(("placement", src, "any", None))
        add_generated(int(os.environ.get("C12_ESC", ctx.scale(150, 600))), focus=focus or None, playout=0.5 if not focus else None)
        evaluate_new()
    for k, v in sorted(gens.items()):
        ctx.count(k, v)
    report(ctx, proof, h, model, erg, cases, results, tie)


def report(ctx, proof, h, model, erg, cases, results, tie=()):
    known = {k.get("class"): k for k in known_entries(ctx) if k.get("class")}
    n_tree = n_beh = n_invalid = n_unpred = n_unsound = 0
    first_tree = first_beh = first_unsound = None
    viol = []
    known_seen = False
    for (kind, src, expect, stmts), r in zip(cases, results):
        ok = r.status == 0 and all(o[1] != "timeout" and not o[1].startswith("compile:") for o in r.cli)
        nontrivial = ok and len(r.removed) > 0
        ctx.case(src, nontrivial=nontrivial, sample={"src": src, "removed": r.removed} if kind == "gen" and nontrivial else None)
        ctx.count("program:" + ("compiled" if ok else "rejected by the compiler"))
        if not ok:
            n_invalid += 1
            ctx.cov.setdefault("first_rejected", {"src": src, "in_process_status": r.status, "cli": [(o[1], o[2]) for o in r.cli]})
            if r.status == 0 or any(not o[1].startswith("compile:") for o in r.cli):
                # the in-process build and the CLI must agree on whether the program compiles
                if not ((r.status != 0) and all(o[1].startswith("compile:") or o[2] != 0 for o in r.cli)):
                    ctx.count("in-process build and CLI disagree on compilation")
            # a program that does not compile is still judged (all levels must fail the same way)
        if getattr(r, "timed_out", False):
            ctx.count("program: timed out twice (not judged)")
        ctx.count("removed definitions", len(r.removed))
        ctx.count("removed definitions of class Known_C12", sum(1 for _i, k in r.removed if k))
        for o in r.cli[:1]:
            ctx.count("ending at -o 0: " + (o[1] or "normal"))
        if r.status == 0:
            if not getattr(r, "predicted", False):
                n_unpred += 1
            if r.tree_diff:
                n_tree += 1
                first_tree = first_tree or {"src": src, "detail": r.tree_diff}
            if r.beh_diff:
                n_beh += 1
                first_beh = first_beh or {"src": src, "detail": r.beh_diff}
            if r.oracle_sound is False:
                n_unsound += 1
                first_unsound = first_unsound or {"src": src, "removed": r.removed}
        if not r.judge:
            cls, src2 = classify(ctx, h, model, erg, r)
            if cls == "known" and "Known_C12" in known:
                known_seen = True
                ctx.count("programs whose levels differ: known class")
                if expect == "same":
                    pass
            else:
                viol.append((kind, src, stmts, r, src2))
        elif expect == "known":
            ctx.notes.append("NOTE stale-known-finding: corpus case %s behaves the same at all levels" % kind)
    ctx.cov["programs_rejected"] = n_invalid
    ctx.cov["behaviour_not_predicted"] = n_unpred
    ctx.cov["tree_disagreements"] = n_tree
    ctx.cov["behaviour_disagreements"] = n_beh
    ctx.cov["oracle_unsound_programs"] = n_unsound
    # known findings: print while the witness still reproduces
    for cls, entry in known.items():
        w = entry.get("witness", {}).get("src")
        if not w:
            continue
        rw = evaluate(ctx, h, model, erg, [w])[0]
        if not rw.judge and classify(ctx, h, model, erg, rw)[0] == "known":
            ctx.known_finding(entry)
        else:
            ctx.notes.append("NOTE stale-known-finding: %s no longer reproduces" % entry.get("id"))
            print("NOTE stale-known-finding property=C12 %s" % entry.get("id"))
    for kind, src, stmts, r, src2 in viol[:3]:
        small = shrink(ctx, h, model, erg, stmts, r) if stmts else (src2 or src)
        rs = evaluate(ctx, h, model, erg, [small])[0]
        ctx.violation("failing-input", "behaviour differs between optimisation levels (stdout / uncaught exception class / exit "
                      "status) and no removed definition of the known class explains it",
                      case={"src": small, "kind": kind}, impl=describe(rs),
                      model={"tree_diff": rs.tree_diff, "beh_diff": rs.beh_diff, "oracle_sound": rs.oracle_sound}, judge=False)
    if not viol and (n_tree or n_beh or n_unsound or not proof.ok or tie):
        what = list(tie)
        if not proof.ok:
            what.append("theorem(s) no longer check: " + proof.summary())
        if n_tree:
            what.append("%d programs on which HIROptimizer::optimize and the extracted model produce different trees" % n_tree)
        if n_beh:
            what.append("%d programs whose observed behaviour is not the one the model's semantics predicts" % n_beh)
        if n_unsound:
            what.append("%d programs on which the reference index is unsound for a removed definition" % n_unsound)
        ctx.violation("broken-correspondence" if (n_tree or n_beh or n_unsound or tie) else "broken-theorem", "; ".join(what),
                      case=first_tree or first_unsound or first_beh, theorem=proof.summary() or None, no_input=True)


def shrink(ctx, h, model, erg, stmts, r):
    """delete top-level statements while the behaviour still differs between levels outside the known class"""
    head, body = stmts[:1], stmts[1:]

    def fails(sub):
        src = render(head + sub)
        rr = evaluate(ctx, h, model, erg, [src])[0]
        if rr.judge or rr.status != 0:
            return False
        return classify(ctx, h, model, erg, rr)[0] == "violation"
    try:
        small = shrink_list(body, fails, budget=30) if len(body) > 1 else body
        return render(head + small)
    except Exception:
        return render(stmts)


def replay(ctx, path):
    j = json.load(open(path))
    src = j["case"]["src"]
    try:
        translate(ctx)
    except TieBroken as e:
        print("translator:", e)
    print("changed bodies of modelled functions:", changed_bodies() or "none")
    h = Harness(ctx, "optimize", env=ctx.erg_env())
    model = ctx.model("Optimize")
    erg = ctx.erg_bin()
    r = evaluate(ctx, h, model, erg, [src])[0]
    print(src)
    for lv, o in zip(LEVELS, r.cli):
        print("-o %d: exit=%s exception=%s stdout=%r" % (lv, o[2], o[1] or "-", o[0]))
    print("judge (same behaviour at all levels):", r.judge)
    print("removed (id, known class):", r.removed, " oracle_sound:", r.oracle_sound)
    print("tree correspondence:", r.tree_diff or "ok", " behaviour prediction:", r.beh_diff or "ok")
    if not r.judge:
        cls, _ = classify(ctx, h, model, erg, r)
        print("classification:", cls)
        if cls != "known":
            ctx.violation("failing-input", "behaviour differs between optimisation levels", case={"src": src}, impl=describe(r), judge=False)
