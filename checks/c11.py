"""C11 — operator expressions parse by the documented precedence table.

proof:          coq/ExprParse/Props_C11.v over coq/ExprParse/Model.v (transcription of the operator-stack loops of
                try_reduce_expr / try_reduce_chunk, try_reduce_bin_lhs, try_reduce_unary, the accessor chain and
                argument lists of crates/erg_parser/parse.rs, Lexer::op_fix and the negative-literal rule of lex.rs)
translator:     crates/erg_parser/token.rs (TokenKind, category, precedence, is_right_associative) -> coq/gen/Prec.v;
                second path: the harness prints TokenKind::X.precedence()/category() for every operator kind
correspondence: generated operator expressions with random spacing are lexed and parsed by the real Lexer/Parser
                (harness `ergv-exprparse`) and by the extracted model; tokens and trees are compared
judge:          the precedence-climbing reference of coq/ExprParse/Spec.v (extracted) applied to the tokens the
                documented lexical rule gives; Python's own parser as a cross-check on the common subset
"""
import ast as pyast
from lib.vplib import *

REGISTRY = dict(
    category="proof",
    text="Coq model of the parser's operator-stack loops, operand/accessor/argument parsing and of the lexer's prefix/infix "
         "and negative-literal rules (coq/ExprParse/Model.v), proved equal to a precedence-climbing reference "
         "(coq/ExprParse/Spec.v) on every token list of the documented grammar (any length and depth); the precedence "
         "table is regenerated from token.rs on every run (coq/gen/Prec.v) and proved to induce the documented order; "
         "model and real Lexer/Parser are run on generated expressions with random spacing and compared on tokens and trees.",
    note="Trusted: Coq kernel, extraction (ExtrOcamlBasic) + generic OCaml driver, harness/exprparse (walks the public AST). "
         "Fragment: identifiers, Nat/Int/Ratio literals, 29 binary operators, prefix + - ~, .name, .name(args), parentheses; "
         "anything else the parser could do there (tuples, *-less multiplication, `.x` arguments) is an explicit Unmodelled "
         "outcome and is not compared. The lexer is modelled on lexemes with spacing flags, not on characters.",
    technique="Coq proof over hand model + generated table + correspondence (extracted model vs erg_parser) + extracted reference judge",
    design="DESIGN.md §4 C11")

BINOPS = ["Pow", "Star", "Slash", "FloorDiv", "Mod", "Plus", "Minus", "Shl", "Shr", "BitAnd", "BitXor", "BitOr",
          "Closed", "RightOpen", "LeftOpen", "Open", "Less", "Gre", "LessEq", "GreEq", "DblEq", "NotEq",
          "InOp", "NotInOp", "ContainsOp", "IsOp", "IsNotOp", "AndOp", "OrOp"]
BIN_SPELL = ["**", "*", "/", "//", "%", "+", "-", "<<", ">>", "&&", "^^", "||", "..", "..<", "<..", "<..<",
             "<", ">", "<=", ">=", "==", "!=", "in", "notin", "contains", "is!", "isnot!", "and", "or"]
PREOPS = ["PrePlus", "PreMinus", "PreBitNot"]
PRE_SPELL = ["+", "-", "~"]
# documented levels (same as coq/ExprParse/Spec.v lvl) - only used to bias the search after a table change
DOC_LVL = [12, 10, 10, 10, 10, 9, 9, 8, 8, 7, 6, 5, 4, 4, 4, 4, 3, 3, 3, 3, 3, 3, 3, 3, 3, 3, 3, 2, 1]
PRE_LVL = 11
AMBIG = {"+": 100, "-": 101, "~": 102, "*": 103, "**": 104}
IDENTS = ["a", "b", "c", "x", "y", "z", "foo", "bar"]          # ids 1..8
METHODS = ["m", "n", "k", "real", "imag"]                        # ids 20..24
NAME_ID = {n: i + 1 for i, n in enumerate(IDENTS)}
NAME_ID.update({n: i + 20 for i, n in enumerate(METHODS)})
NATS = ["0", "1", "2", "3", "7", "10", "42"]
RATIOS = ["1.5", "0.25", "3.0"]


# ---------------------------------------------------------------- translator: token.rs -> gen/Prec.v
def strip_comments(s):
    s = re.sub(r"//[^\n]*", "", s)
    return re.sub(r"/\*.*?\*/", "", s, flags=re.S)


def translate_prec(src):
    """returns (text of coq/gen/Prec.v, tables); raises TieBroken when token.rs no longer has the expected shape"""
    def bad(msg):
        raise TieBroken("translator token.rs -> gen/Prec.v: " + msg)
    m = re.search(r"pub enum TokenKind\s*\{(.*?)\n\}", src, re.S)
    if not m:
        bad("enum TokenKind not found")
    kinds = re.findall(r"^\s*([A-Z][A-Za-z0-9]*)\s*,", strip_comments(m.group(1)), re.M)
    if len(kinds) < 60 or "Plus" not in kinds:
        bad("TokenKind variants not recognised")

    def fn_body(name, ret):
        m = re.search(r"pub const fn %s\(&self\) -> %s \{(.*?)\n    \}\n" % (name, re.escape(ret)), src, re.S)
        if not m:
            bad("fn %s not found" % name)
        return strip_comments(m.group(1))
    cat = fn_body("category", "TokenCategory")
    arms = re.findall(r"((?:[A-Z][A-Za-z0-9]*\s*\|?\s*)+)=>\s*\{?\s*TokenCategory::([A-Za-z]+)", cat)
    default = re.search(r"_\s*=>\s*TokenCategory::([A-Za-z]+)", cat)
    if not arms or not default:
        bad("category(): match arms not recognised")
    catmap = {}
    for lhs, c in arms:
        for k in re.findall(r"[A-Z][A-Za-z0-9]*", lhs):
            if k not in kinds:
                bad("category(): unknown kind %s" % k)
            catmap.setdefault(k, c)      # first matching arm wins
    for k in kinds:
        catmap.setdefault(k, default.group(1))
    pr = fn_body("precedence", "Option<usize>")
    parms = re.findall(r"((?:[A-Z][A-Za-z0-9]*\s*\|?\s*)+)=>\s*(\d+)\s*,", pr)
    if not parms or not re.search(r"_\s*=>\s*return None", pr) or "Some(prec)" not in pr:
        bad("precedence(): shape not recognised")
    if len(re.findall(r"=>", pr)) != len(parms) + 1:
        bad("precedence(): an arm is not of the form `kinds => number`")
    prec, seen = [], set()
    for lhs, n in parms:
        for k in re.findall(r"[A-Z][A-Za-z0-9]*", lhs):
            if k not in kinds:
                bad("precedence(): unknown kind %s" % k)
            if k not in seen:
                seen.add(k)
                prec.append((k, int(n)))
    ra = fn_body("is_right_associative", "bool")
    m = re.search(r"matches!\(\s*self\s*,(.*?)\)", ra, re.S)
    if not m:
        bad("is_right_associative(): shape not recognised")
    right = re.findall(r"[A-Z][A-Za-z0-9]*", m.group(1))
    for k in right:
        if k not in kinds:
            bad("is_right_associative(): unknown kind %s" % k)
    m = re.search(r"pub enum TokenCategory\s*\{(.*?)\n\}", src, re.S)
    if not m:
        bad("enum TokenCategory not found")
    cats = re.findall(r"^\s*([A-Z][A-Za-z0-9]*)\s*,", strip_comments(m.group(1)), re.M)
    for c in set(catmap.values()):
        if c not in cats:
            bad("category(): unknown category %s" % c)
    ki = {k: i for i, k in enumerate(kinds)}
    ci = {c: i for i, c in enumerate(cats)}
    out = ["(* GENERATED by checks/c11.py from crates/erg_parser/token.rs (TokenKind, TokenCategory, category,",
           "   precedence, is_right_associative) - regenerated on every run, do not edit.",
           "   Token kinds and categories are numbered by their position in the Rust enums. *)",
           "From Coq Require Import List NArith.", "Import ListNotations.", "Open Scope N_scope.", ""]
    out += ["Definition kind_%s : N := %d." % (k, i) for k, i in ki.items()]
    out += [""] + ["Definition cat_%s : N := %d." % (c, i) for c, i in ci.items()]
    out += ["", "(* TokenKind::category *)",
            "Definition category_table : list (N * N) :=\n  [" + ";\n   ".join("(kind_%s, cat_%s)" % (k, catmap[k]) for k in kinds) + "].", "",
            "(* TokenKind::precedence: kinds not listed return None *)",
            "Definition prec_table : list (N * N) :=\n  [" + ";\n   ".join("(kind_%s, %d)" % (k, n) for k, n in prec) + "].", "",
            "(* TokenKind::is_right_associative *)",
            "Definition right_assoc : list N := [" + "; ".join("kind_%s" % k for k in right) + "].", ""]
    return "\n".join(out), dict(kinds=kinds, category=catmap, prec=dict(prec), right=right)


# ---------------------------------------------------------------- lexemes, rendering
# lexeme = (sp, kind, payload): kind in id num op dot lp rp comma; op payload = spelling
def lx_code(l):
    k, p = l[1], l[2]
    if k == "id": return 0
    if k == "num": return 1
    if k == "op":
        if p in ("in", "notin", "contains", "is!", "isnot!", "and", "or"): return 2
        return {"!=": 3, "<": 4, "..": 5, "..<": 6, "<=": 7, "<..": 8, "<..<": 9, "<<": 10, "/": 11, "//": 12, ">": 13,
                ">=": 14, ">>": 15, "==": 16, "-": 18, "*": 19, "**": 20, "+": 21, "~": 21}.get(p, 17)
    if k == "dot": return 22
    return 23


GLUE = {(0, 0), (0, 1), (0, 2), (1, 0), (1, 1), (1, 2), (2, 0), (2, 1), (2, 2), (0, 3),
        (4, 18), (4, 22), (4, 5), (4, 6), (4, 4), (4, 7), (4, 8), (4, 9), (4, 10), (4, 16),
        (5, 4), (5, 7), (5, 8), (5, 9), (5, 10), (5, 22), (5, 5), (5, 6),
        (22, 22), (22, 5), (22, 6), (22, 1), (1, 22), (1, 5), (1, 6),
        (19, 19), (19, 20), (20, 19), (20, 20), (11, 11), (11, 12), (12, 11), (12, 12),
        (18, 13), (18, 14), (18, 15), (13, 13), (13, 14), (13, 15), (13, 16), (16, 13), (16, 14), (16, 15), (16, 16),
        (3, 16), (7, 16), (14, 16), (7, 13), (4, 13)}      # mirror of Model.glue_table (mismatch => more Unmodelled, nothing else)


def spell(l):
    k, p = l[1], l[2]
    return {"dot": ".", "lp": "(", "rp": ")", "comma": ","}.get(k, p)


def render(lexemes):
    return "".join((" " if (sp and i > 0) else "") + spell((sp, k, p)) for i, (sp, k, p) in enumerate(lexemes))


def lexeme_sx(l):
    sp, k, p = l
    if k == "id":
        body = [0, NAME_ID.get(p, 99)]
    elif k == "num":
        body = [1, 1 if "." in p else 0, p]
    elif k == "op":
        body = [2, AMBIG[p] if p in AMBIG else BIN_SPELL.index(p)]
    else:
        body = [{"dot": 3, "lp": 4, "rp": 5, "comma": 6}[k]]
    return [1 if sp else 0, body]


class Gen:
    """random operator expressions as lexeme lists (surface syntax of the documented grammar, random spacing)"""

    def __init__(self, rng, maxdepth, bias_ops=None, bias_pre=False):
        self.rng, self.maxdepth, self.bias_ops, self.bias_pre = rng, maxdepth, bias_ops, bias_pre

    def binop(self):
        r = self.rng
        if self.bias_ops and r.random() < 0.8:
            return r.choice(self.bias_ops)
        return r.choice(BIN_SPELL) if r.random() < 0.6 else r.choice(["+", "-", "*", "**", "/", "<", "and", "or", "==", "%"])

    def expr(self, depth, out):
        r = self.rng
        self.operand(depth, out)
        n = r.choice([0, 1, 1, 2, 2, 3, 4]) if depth == self.maxdepth else r.choice([0, 0, 1, 1, 2, 3])
        for _ in range(n):
            out.append(["b", "op", self.binop()])
            self.operand(depth, out)

    def operand(self, depth, out):
        r = self.rng
        while r.random() < (0.45 if self.bias_pre else 0.22):
            out.append(["p", "op", r.choice(PRE_SPELL)])
        x = r.random()
        if depth > 0 and x < 0.22:
            out.append(["g", "lp", None])
            self.expr(depth - 1, out)
            out.append(["x", "rp", None])
        elif x < 0.62:
            out.append(["o", "id", r.choice(IDENTS)])
        elif x < 0.92:
            out.append(["o", "num", r.choice(NATS)])
        else:
            out.append(["o", "num", r.choice(RATIOS)])
        while r.random() < 0.18:
            out.append(["d", "dot", None])
            out.append(["m", "id", r.choice(METHODS)])
            if r.random() < 0.45:
                out.append(["c", "lp", None])
                for i in range(r.choice([0, 1, 1, 2]) if depth > 0 else 0):
                    if i:
                        out.append(["x", "comma", None])
                    self.expr(depth - 1, out)
                out.append(["x", "rp", None])

    def spaced(self, items, wild):
        """roles: b binary op, p prefix op, o operand, g grouping paren, c call paren, d dot, m method name, x other"""
        r = self.rng
        style = r.choice(["spaced", "spaced", "tight", "mixed", "mixed"])
        out = []
        for i, (role, k, p) in enumerate(items):
            prev = items[i - 1] if i else None
            if role == "b":
                sp = {"spaced": True, "tight": False}.get(style, r.random() < 0.6)
            elif prev and prev[0] == "b":
                sp = out[-1][0] if style != "mixed" else r.random() < 0.6      # a + b / a+b ; mixed: a +b, a+ b too
                if r.random() < 0.1:
                    sp = not sp
            elif prev and prev[0] == "p":
                sp = r.random() < 0.12                                         # -a, sometimes - a
            elif role in ("d", "c"):
                sp = r.random() < (0.25 if wild else 0.0)
            elif role == "m":
                sp = r.random() < 0.05
            elif k in ("rp", "comma"):
                sp = r.random() < 0.15
            elif prev and prev[1] in ("lp",):
                sp = r.random() < 0.15
            elif prev and prev[1] == "comma":
                sp = r.random() < 0.7
            else:
                sp = r.random() < 0.5
            l = (sp, k, p)
            if out and not sp and (lx_code(out[-1]), lx_code(l)) in GLUE and not (wild and r.random() < 0.1):
                if not (out[-1][1] == "num" and k == "dot"):
                    l = (True, k, p)
            out.append(l)
        out[0] = (True, out[0][1], out[0][2])
        return out

    def case(self, wild=False):
        items = []
        self.expr(self.maxdepth, items)
        if len(items) > 120:
            items = items[:1]
        return self.spaced(items, wild)


def malformed(rng):
    """token soup over the same vocabulary (mostly not an expression)"""
    pool = [("id", "a"), ("id", "b"), ("num", "1"), ("num", "2.5"), ("op", "+"), ("op", "-"), ("op", "*"), ("op", "**"),
            ("op", "~"), ("op", "and"), ("op", "<"), ("op", ".."), ("dot", None), ("id", "m"), ("lp", None), ("rp", None),
            ("comma", None)]
    out = []
    for _ in range(rng.randint(1, 9)):
        k, p = rng.choice(pool)
        out.append((rng.random() < 0.6, k, p))
    fixed = []
    for l in out:
        if fixed and not l[0] and (lx_code(fixed[-1]), lx_code(l)) in GLUE:
            l = (True, l[1], l[2])
        fixed.append(l)
    fixed[0] = (True, fixed[0][1], fixed[0][2])
    return fixed


# ---------------------------------------------------------------- implementation side
def impl_tokens(lexout, entry):
    """harness lexer output -> model token encoding (or None when a token is outside the vocabulary)"""
    if lexout[0] != 0:
        return "lexerr"
    toks = lexout[1]
    if entry == 0:
        toks = toks[2:]                       # `x`, `=`
        prev_end = lexout[1][1][3]
    else:
        prev_end = None
    out = []
    for kind, content, cb, ce in toks:
        kind, content = sx_str(kind), sx_str(content)
        adj = 1 if (prev_end is not None and cb == prev_end) else 0
        if kind == "Symbol":
            out.append([0, NAME_ID.get(content, 99)])
        elif kind in ("NatLit", "IntLit", "RatioLit"):
            out.append([1, ["NatLit", "IntLit", "RatioLit"].index(kind), [ord(c) for c in content]])
        elif kind in BINOPS:
            out.append([2, BINOPS.index(kind)])
        elif kind in PREOPS:
            out.append([3, PREOPS.index(kind)])
        elif kind == "Dot":
            out.append([4, adj])
        elif kind == "LParen":
            out.append([5, adj])
        elif kind == "RParen":
            out.append([6])
        elif kind == "Comma":
            out.append([7])
        else:
            out.append([98, kind])
        prev_end = ce
    return out


def impl_tree(t):
    """harness tree (names as code points) -> model tree encoding (names as ids)"""
    k = t[0]
    if k == 0:
        return [0, NAME_ID.get(sx_str(t[1]), 99)]
    if k == 1:
        return [1, t[1], t[2]]
    if k == 2:
        return [2, t[1], impl_tree(t[2]), impl_tree(t[3])]
    if k == 3:
        return [3, t[1], impl_tree(t[2])]
    if k == 4:
        return [4, impl_tree(t[1]), NAME_ID.get(sx_str(t[2]), 99)]
    if k == 5:
        return [5, impl_tree(t[1]), -1 if t[2] == -1 else NAME_ID.get(sx_str(t[2]), 99), [impl_tree(a) for a in t[3]]]
    return [99, sx_str(t[1]) if len(t) > 1 and isinstance(t[1], list) else "?"]


def has_other(t):
    return isinstance(t, list) and (t[:1] == [99] or any(has_other(x) for x in t if isinstance(x, list)))


def show_tree(t):
    k = t[0]
    if k == 0:
        return {v: n for n, v in NAME_ID.items()}.get(t[1], "?")
    if k == 1:
        return sx_str(t[2])
    if k == 2:
        return "(%s %s %s)" % (show_tree(t[2]), BIN_SPELL[t[1]], show_tree(t[3]))
    if k == 3:
        return "(%s%s)" % (PRE_SPELL[t[1]], show_tree(t[2]))
    if k == 4:
        return "%s.%s" % (show_tree(t[1]), {v: n for n, v in NAME_ID.items()}.get(t[2], "?"))
    if k == 5:
        nm = "" if t[2] == -1 else "." + {v: n for n, v in NAME_ID.items()}.get(t[2], "?")
        return "%s%s(%s)" % (show_tree(t[1]), nm, ", ".join(show_tree(a) for a in t[3]))
    return "<%s>" % (t[1:],)


def show_toks(ts):
    names = {v: n for n, v in NAME_ID.items()}
    out = []
    for t in ts:
        k = t[0]
        out.append(names.get(t[1], "?") if k == 0 else "lit:" + sx_str(t[2]) if k == 1 else "bin" + BIN_SPELL[t[1]] if k == 2
                   else "pre" + PRE_SPELL[t[1]] if k == 3 else "." if k == 4 else "(" if k == 5 else ")" if k == 6
                   else "," if k == 7 else str(t))
    return " ".join(out)


def show_res(r):
    if r[0] == 0:
        return show_tree(r[1])
    return {1: "error", 2: "panic/other shape", 3: "unmodelled", 4: "fuel", -999: "PANIC", -997: "CRASH"}.get(r[0], str(r))


# ---------------------------------------------------------------- Python's parser as a cross-check
PY_BIN = {pyast.Mult: 1, pyast.FloorDiv: 3, pyast.Mod: 4, pyast.Add: 5, pyast.Sub: 6, pyast.LShift: 7, pyast.RShift: 8,
          pyast.BitAnd: 9, pyast.BitXor: 10, pyast.BitOr: 11}
PY_CMP = {pyast.Lt: 16, pyast.Gt: 17, pyast.LtE: 18, pyast.GtE: 19, pyast.Eq: 20, pyast.NotEq: 21}
PY_OK_OPS = {"*", "//", "%", "+", "-", "<<", ">>", "&&", "^^", "||", "<", ">", "<=", ">=", "==", "!=", "and", "or", "~"}


def python_tree(lexemes):
    """tree of the expression according to Python's grammar, in the model encoding; None when the expression is outside
    the subset on which Erg's documented table and Python's grammar agree (no **, /, ranges, membership, methods,
    ratio literals, chained comparisons)"""
    for sp, k, p in lexemes:
        if k in ("dot", "comma") or (k == "op" and p not in PY_OK_OPS) or (k == "num" and "." in p):
            return None
    # a number directly after an identifier / `)` with `x -1` spacing is a juxtaposed call in Erg: not an operator expression
    text = " ".join({"&&": "&", "^^": "^", "||": "|"}.get(spell(l), spell(l)) for l in lexemes)
    try:
        node = pyast.parse(text, mode="eval").body
    except SyntaxError:
        return None

    def conv(n):
        if isinstance(n, pyast.Name):
            return [0, NAME_ID.get(n.id, 99)]
        if isinstance(n, pyast.Constant) and isinstance(n.value, int):
            return [1, 0, [ord(c) for c in str(n.value)]]
        if isinstance(n, pyast.BinOp) and type(n.op) in PY_BIN:
            return [2, PY_BIN[type(n.op)], conv(n.left), conv(n.right)]
        if isinstance(n, pyast.UnaryOp) and type(n.op) in (pyast.UAdd, pyast.USub, pyast.Invert):
            return [3, [pyast.UAdd, pyast.USub, pyast.Invert].index(type(n.op)), conv(n.operand)]
        if isinstance(n, pyast.BoolOp):
            code = 27 if isinstance(n.op, pyast.And) else 28
            t = conv(n.values[0])
            for v in n.values[1:]:
                t = [2, code, t, conv(v)]        # `a and b and c`: Python's flat BoolOp == left grouping
            return t
        if isinstance(n, pyast.Compare) and len(n.ops) == 1 and type(n.ops[0]) in PY_CMP:
            return [2, PY_CMP[type(n.ops[0])], conv(n.left), conv(n.comparators[0])]
        raise ValueError("outside subset")
    try:
        return conv(node)
    except ValueError:
        return None


def norm_neg(t):
    """Erg's `-1` literal == Python's unary minus applied to 1 (only compared where no ** or method call is around)"""
    if t[0] == 1 and t[2][:1] == [45]:
        return [3, 1, [1, 0, t[2][1:]]]
    if t[0] == 2:
        return [2, t[1], norm_neg(t[2]), norm_neg(t[3])]
    if t[0] == 3:
        return [3, t[1], norm_neg(t[2])]
    return t


# ---------------------------------------------------------------- running cases
def run_cases(h, model, cases):
    """cases: list of (entry, lexemes). returns list of dicts"""
    hin = []
    for entry, lx in cases:
        text = ("x = " if entry == 0 else "") + render(lx)
        hin.append([1, text])
        hin.append([2, entry, text])
    hout = h.run(hin)
    mout = model.run([[4, entry, [lexeme_sx(l) for l in lx]] for entry, lx in cases])
    res = []
    for i, (entry, lx) in enumerate(cases):
        text = ("x = " if entry == 0 else "") + render(lx)
        il, ip = hout[2 * i], hout[2 * i + 1]
        m = mout[i]
        d = dict(entry=entry, lexemes=lx, text=text, impl_lex=il, impl_parse=ip, model=m)
        d["impl_toks"] = impl_tokens(il, entry) if il and il[0] in (0, 1) else "crash"
        if ip and ip[0] == 0:
            d["impl_tree"] = impl_tree(ip[1])
        res.append(d)
    return res


def compare(d):
    """correspondence model vs implementation; returns (mismatch description or None, comparable?)"""
    m = d["model"]
    ml = m[0]
    it = d["impl_toks"]
    ip = d["impl_parse"]
    if ip[0] in (-999, -997) or d["impl_lex"][0] in (-999, -997):
        # a crash of the real lexer/parser: the model has no Panic on these paths unless it says so
        if len(m) > 1 and m[1][0] == 2:
            return None, True
        return "implementation crashed (%s); model: %s" % (ip[:1], [x[:1] for x in m]), True
    if ml[0] == 2:
        return None, False                       # lexing outside the model
    if ml[0] == 1:
        return (None, True) if it == "lexerr" else ("model: lex error, implementation lexed %s" % (it,), True)
    if it == "lexerr":
        return "implementation: lex error, model tokens %s" % (ml[1],), True
    if it != ml[1]:
        return "tokens differ: implementation %s, model %s" % (it, ml[1]), True
    mp = m[1]
    if mp[0] == 3:
        return None, False                       # parser leaves the modelled fragment
    if mp[0] == 0:
        if ip[0] != 0:
            return "model tree %s, implementation: %s" % (show_tree(mp[1]), show_res(ip)), True
        if d["impl_tree"] != mp[1]:
            return "trees differ: implementation %s, model %s" % (show_tree(d["impl_tree"]), show_tree(mp[1])), True
        return None, True
    if mp[0] == 1:
        return (None, True) if ip[0] in (1, 2) else ("model: syntax error, implementation: %s" % show_res([0, d["impl_tree"]]), True)
    if mp[0] == 2:
        return "model predicts a panic (enum_unwrap!), implementation: %s" % show_res(ip if ip[0] else [0, d["impl_tree"]]), True
    return "model ran out of fuel", True


def judge(d, model):
    """the property, decided for the implementation's behaviour on this case; returns failure text or None.
    Reference = Spec.climb on the tokens of the documented lexical rule (Model.lex = Spec.spec_fix + negative literals)."""
    m = d["model"]
    if m[0][0] == 0:
        # lexical part of the property (Spec.spec_fix, negative literals): which `+`/`-` are prefix operators, which are
        # binary, which belong to a literal.  Columns/adjacency are not part of it.
        strip = lambda ts: [t[:1] if t[0] in (4, 5) else t for t in ts]
        it = d["impl_toks"]
        if it in ("lexerr", "crash"):
            return "`%s`: the documented lexical rule gives the tokens %s; implementation: %s" % (d["text"], show_toks(m[0][1]), it)
        if strip(it) != strip(m[0][1]):
            return "`%s`: by the documented spacing rule the tokens are %s; implementation lexed %s" % (
                d["text"], show_toks(m[0][1]), show_toks(it))
    if m[0][0] != 0 or len(m) < 3 or m[2][0] != 0:
        return None                              # not an operator expression of the documented grammar: tree not judged
    ref = m[2][1]
    ip = d["impl_parse"]
    impl = [0, d["impl_tree"]] if ip[0] == 0 else [1]
    # equal encodings are equal for Spec.judge (sx_eqb) as well; the extracted judge is asked whenever they differ
    ok = 1 if impl == [0, ref] else model.run([[3, m[0][1], impl]])[0]
    if ok == 1:
        # Python's grammar as a second opinion where it is comparable
        pt = python_tree(d["lexemes"])
        if pt is not None and ip[0] == 0 and not has_other(d["impl_tree"]) and norm_neg(d["impl_tree"]) != pt \
                and not juxtaposed(d):
            return "implementation tree %s, Python's parser reads it as %s" % (show_tree(d["impl_tree"]), show_tree(pt))
        return None
    return "`%s` must parse as %s by the documented table; implementation: %s" % (
        d["text"], show_tree(ref), show_res(impl if impl[0] == 0 else ip))


def juxtaposed(d):
    """`x -1` / `x -y`: prefix reading after an operand, a call in Erg, a subtraction in Python"""
    toks = d["model"][0][1] if d["model"][0][0] == 0 else []
    for a, b in zip(toks, toks[1:]):
        if a[0] in (0, 1, 6) and b[0] in (0, 1, 3, 5):
            return True
    return False


def nontrivial(d):
    m = d["model"]
    return m[0][0] == 0 and len(m) > 2 and m[2][0] == 0 and sum(1 for t in m[0][1] if t[0] in (2, 3)) >= 2


# ---------------------------------------------------------------- the check
def tables_tie(ctx, h, model, tables):
    """second path for the table: TokenKind::X.precedence()/category()/is_right_associative() printed by the harness"""
    rows = h.run([[0]])[0]
    for name, prec, cat, ra in rows:
        name, cat = sx_str(name), sx_str(cat)
        tp = tables["prec"].get(name, -1)
        if tp != prec or tables["category"].get(name) != cat or (name in tables["right"]) != bool(ra):
            raise TieBroken("gen/Prec.v disagrees with the compiled TokenKind::%s: translator (prec %s, %s, right_assoc %s), "
                            "binary (prec %s, %s, right_assoc %s)" % (name, tp, tables["category"].get(name),
                                                                      name in tables["right"], prec, cat, bool(ra)))
    mt = model.run([[5]])[0]
    hp = {sx_str(r[0]): r[1] for r in rows}
    if mt[0] != [hp[b] for b in BINOPS] or mt[1] != [hp[p] for p in PREOPS] or mt[2] != hp["Dot"]:
        raise TieBroken("the extracted model reads other precedence numbers than the compiled token.rs: %s" % (mt,))
    return hp


def changed_ops(hp):
    """operators whose relative order in the compiled table differs from the documented one (to bias the search)"""
    out = set()
    items = [(BIN_SPELL[i], hp[b], DOC_LVL[i]) for i, b in enumerate(BINOPS)] + [("-pre", hp["PreMinus"], PRE_LVL)]
    for a in items:
        for b in items:
            if (a[1] > b[1]) != (a[2] > b[2]) or (a[1] == b[1]) != (a[2] == b[2]):
                out.add(a[0]); out.add(b[0])
    return sorted(out)


def known_c11():
    """listed findings of this property (read from known/C11.json only: other files in known/ need not be entry lists)"""
    p = os.path.join(VERIF, "known", "C11.json")
    ks = json.load(open(p)) if os.path.exists(p) else []
    return [k for k in ks if isinstance(k, dict) and k.get("property") == "C11" and k.get("status") == "finding"]


def corpus_cases():
    out = []
    cdir = os.path.join(VERIF, "corpus", "C11")
    if os.path.isdir(cdir):
        for f in sorted(os.listdir(cdir)):
            if f.endswith(".json"):
                j = json.load(open(os.path.join(cdir, f)))
                out.append((j["entry"], [tuple(l) for l in j["lexemes"]]))
    return out


def exhaustive_small(maxops):
    """every a op1 b op2 c (all operator pairs, both entries are sampled alternately), every prefix/binary pair"""
    out = []
    for i, o1 in enumerate(BIN_SPELL):
        for j, o2 in enumerate(BIN_SPELL):
            out.append(((i + j) % 2, [(True, "id", "a"), (True, "op", o1), (True, "id", "b"), (True, "op", o2), (True, "id", "c")]))
    for p in PRE_SPELL:
        for o in BIN_SPELL:
            out.append((0, [(True, "op", p), (False, "id", "a"), (True, "op", o), (True, "id", "b")]))
            out.append((1, [(True, "id", "a"), (True, "op", o), (True, "op", p), (False, "id", "b"), (True, "op", o), (True, "id", "c")]))
    return out


def run(ctx):
    ctx.cov["rule"] = ("operator expressions generated from the documented grammar (identifiers, Nat/Ratio literals, 29 binary "
                       "operators, prefix + - ~, .name, .name(args), parentheses; nesting depth <= 5 quick / 7 thorough, up to 5 "
                       "operators per level) rendered with random spacing (`a - b`, `a -b`, `a-b`, `a - -b`, `-1`, `- 1`), as the "
                       "right-hand side of `x = ...` and as a bare statement; plus all 841 `a op1 b op2 c`, all prefix/binary "
                       "pairs, and a malformed token soup; non-trivial = distinct well-formed case with >= 2 operators")
    ctx.cov["trusted_base"] = ["Coq 8.16.1 kernel", "extraction (ExtrOcamlBasic only) + extract/driver.ml",
                               "harness/exprparse/src/main.rs (Lexer::from_str(..).lex(), Parser::new(..).parse(), walk of the public AST)",
                               "modelled, not verified: the lexer on lexemes-with-spacing instead of characters; the regexp translator token.rs -> gen/Prec.v (cross-checked against the compiled TokenKind methods)",
                               "Python's ast module (cross-check only)"]
    ctx.assumptions = ["input stays in the vocabulary of the model: other constructs are an explicit Unmodelled outcome and are not compared",
                       "single-line expressions (adjacency is tested on columns only, as the parser does)"]
    src = open(os.path.join(REPO, "crates", "erg_parser", "token.rs")).read()
    text, tables = translate_prec(src)
    ctx.write_gen("Prec", text)
    proof = ctx.coq(["ExprParse/Props_C11.v"])
    h = Harness(ctx, "exprparse")
    try:
        model = ctx.model("ExprParse")
    except FrameworkError as e:
        if proof.ok:
            raise
        raise TieBroken("coq/gen/Prec.v regenerated from token.rs no longer fits the model: %s" % proof.summary())
    hp = tables_tie(ctx, h, model, tables)
    biased = changed_ops(hp)
    if biased:
        ctx.log("compiled precedence table orders these operators differently from the documented table:", biased)

    cases = corpus_cases()
    ncorp = len(cases)
    cases += exhaustive_small(2)
    g = Gen(ctx.rng, ctx.scale(5, 7))
    n = ctx.scale(2600, 60000)
    for i in range(n):
        cases.append((i % 2, g.case(wild=(i % 5 == 0))))
    for i in range(ctx.scale(300, 6000)):
        cases.append((i % 2, malformed(ctx.rng)))
    if ctx.thorough:
        g3 = Gen(ctx.rng, 2)
        for i in range(20000):
            cases.append((i % 2, g3.case(wild=(i % 7 == 0))))
    results = run_cases(h, model, cases)

    mism, jfail = [], []
    first = None
    for idx, d in enumerate(results):
        why, comparable = compare(d)
        ctx.count("entry " + ("x = e" if d["entry"] == 0 else "bare e"))
        m = d["model"]
        ctx.count("lexer model: " + {0: "tokens", 1: "lex error", 2: "unmodelled"}[m[0][0]])
        if m[0][0] == 0:
            ctx.count("parser model: " + {0: "tree", 1: "syntax error", 2: "panic", 3: "unmodelled", 4: "fuel"}[m[1][0]])
            ctx.count("reference: " + ("well-formed" if m[2][0] == 0 else "not in grammar"))
            ctx.count("operators: %s" % min(8, sum(1 for t in m[0][1] if t[0] in (2, 3)) // 2 * 2))
            if m[2][0] == 0 and m[1] != m[2]:
                why = "theorem instance fails: model parse %s, reference %s" % (show_res(m[1]), show_res(m[2]))
            pt = python_tree(d["lexemes"])
            if pt is not None and m[2][0] == 0:
                ctx.count("python-ast cross-check")
                if norm_neg(m[2][1]) != pt and not juxtaposed(d):
                    why = "reference %s, Python's parser %s" % (show_tree(m[2][1]), show_tree(pt))
        ctx.case([d["entry"], d["text"]], nontrivial=nontrivial(d),
                 sample={"text": d["text"], "model": show_res(m[1]) if m[0][0] == 0 else "lexer: %s" % m[0][0],
                         "impl": show_res([0, d["impl_tree"]] if "impl_tree" in d else d["impl_parse"])} if idx % 400 == 7 else None)
        if why:
            mism.append((d, why))
            first = first or {"entry": d["entry"], "text": d["text"], "lexemes": d["lexemes"], "detail": why}
    ctx.cov["corpus_cases"] = ncorp
    ctx.cov["disagreements"] = len(mism)
    for d, why in mism[:5]:
        ctx.log("disagreement on `%s`: %s" % (d["text"], why[:300]))

    for k in known_c11():
        # listed findings (none at the moment: both defects found were repaired) are reported while they reproduce
        w = k.get("witness", {})
        if w.get("lexemes"):
            d = run_cases(h, model, [(w["entry"], [tuple(l) for l in w["lexemes"]])])[0]
            if judge(d, model):
                ctx.known_finding(k)
            else:
                ctx.notes.append("stale-known-finding %s" % k.get("id"))

    if proof.ok and not mism:
        return
    # ---- something is off: decide the property with the judge
    suspects = [d for d, _ in mism] + results[:ncorp]
    gb = Gen(ctx.rng, 3, bias_ops=[o for o in biased if o != "-pre"] or None, bias_pre=("-pre" in biased) or not biased)
    fresh = [(i % 2, gb.case()) for i in range(ctx.scale(1500, 8000))]
    suspects += run_cases(h, model, fresh)
    suspects.sort(key=lambda d: len(d["lexemes"]))       # smallest first: cheap to shrink, easy to read
    reported = 0
    seen = set()
    for d in suspects:
        jf = judge(d, model)
        if not jf:
            continue
        def fails(sub, entry=d["entry"]):
            sub = [(True, sub[0][1], sub[0][2])] + list(sub[1:])
            return judge(run_cases(h, model, [(entry, sub)])[0], model) is not None
        small = shrink_list(d["lexemes"], fails, budget=120)
        small = [(True, small[0][1], small[0][2])] + list(small[1:])
        ds = run_cases(h, model, [(d["entry"], small)])[0]
        key = ds["text"]
        if key in seen:
            continue
        seen.add(key)
        ctx.violation("failing-input", judge(ds, model) or jf,
                      case={"entry": ds["entry"], "text": ds["text"], "lexemes": [list(l) for l in small],
                            "entry_encoding": "0: right-hand side of `x = ...`, 1: bare expression statement"},
                      impl={"tokens": ds["impl_toks"], "parse": show_res([0, ds["impl_tree"]] if "impl_tree" in ds else ds["impl_parse"])},
                      model={"parse": show_res(ds["model"][1]) if ds["model"][0][0] == 0 else None},
                      judge={"reference": show_res(ds["model"][2]) if ds["model"][0][0] == 0 and len(ds["model"]) > 2 else None})
        reported += 1
        if reported >= 3:
            break
    if reported == 0:
        what = []
        if not proof.ok:
            what.append("theorem(s) no longer check: " + proof.summary())
        if mism:
            what.append("%d cases on which model and erg_parser differ (first: %s)" % (len(mism), mism[0][1]))
        ctx.violation("broken-correspondence" if mism else "broken-theorem", "; ".join(what), case=first,
                      theorem=proof.summary() or None, no_input=True)


def replay(ctx, path):
    r = json.load(open(path))
    src = open(os.path.join(REPO, "crates", "erg_parser", "token.rs")).read()
    text, tables = translate_prec(src)
    ctx.write_gen("Prec", text)
    h = Harness(ctx, "exprparse")
    model = ctx.model("ExprParse")
    c = r["case"]
    d = run_cases(h, model, [(c["entry"], [tuple(l) for l in c["lexemes"]])])[0]
    print("text:", d["text"])
    print("impl tokens:", d["impl_toks"])
    print("impl parse:", show_res([0, d["impl_tree"]] if "impl_tree" in d else d["impl_parse"]))
    print("model:", [show_res(x) if i else x for i, x in enumerate(d["model"])])
    print("correspondence:", compare(d)[0])
    jf = judge(d, model)
    print("judge:", jf)
    if jf:
        ctx.violation("failing-input", jf, case=c, impl={"parse": show_res([0, d["impl_tree"]] if "impl_tree" in d else d["impl_parse"])},
                      judge={"reference": show_res(d["model"][2])})
