"""C05 — definite static errors are always rejected.

proof:   coq/Typing/Props_C05.v — mutation_ill_typed: in the reference checker of the fragment (Typing/Check.v) a node that
         is ill-typed in the environment of its position makes the whole program ill-typed at ANY position and nesting
         depth (inside lambda bodies, function locals, default arguments, if!/for! blocks, nested calls); the five
         mutation shapes are definite errors under their syntactic side conditions; a rejected program is not run.
         PARTIAL: the theorems are about the reference checker, erg is tied program by program.
tie:     every generated base program is type-checked by the *extracted* checker (a proof obligation discharged by
         computation) and by `erg check`; every mutant is built by the *extracted* `inject` (so it carries exactly one
         definite error, by construction and by theorem) and given to `erg check` and `erg run`.
judge:   Spec.judge_c05 (extracted): the mutant must be rejected (exit status != 0 with >= 1 error diagnostic) and must
         not run (a first statement `print!("MARK")` must leave no MARK on stdout).
"""
import shutil

from lib.vplib import *
from checks import c26
from pylib import typing_gen as T
from pylib import typing_run as R

REGISTRY = dict(
    category="proof",
    text="PARTIAL proof (level: proof (partial), fragment: expressions with operators, comparisons, and/or, list "
         "literals/index/push/+/sum/len, if-expressions, user functions and lambdas with annotated parameters, defaults "
         "and local definitions, builtin methods succ/pred/bit_count/abs, definitions, print!, assert, if!/for! "
         "blocks). Coq: a reference type checker for the fragment whose operator result classes are regenerated from "
         "the live compiler (gen/Sigs.v), an injection function for the five kinds of definite static error "
         "(undefined name, operand of an unsupported type, wrong number of arguments, argument of an incompatible "
         "type, attribute the receiver's type lacks) at an arbitrary path, and the theorem mutation_ill_typed: an "
         "injected error makes the program ill-typed wherever it sits (induction over positions: expression contexts, "
         "lambda bodies, locals, default arguments, nested blocks), plus rejected_not_executed and one definiteness "
         "theorem per kind. erg is tied by running `erg check`/`erg run` on every mutant the extracted inject produces "
         "from generated base programs that both the extracted checker and erg accept.",
    note="Trusted: Coq kernel, extraction + generic OCaml driver, pylib/typing_gen.py (Erg printer), the harness that "
         "dumps operator signatures (checks/c26.py gen_sigs). The theorem quantifies over the reference checker, not "
         "over erg's lowerer: erg's behaviour is sampled (a few hundred mutants per quick run). Not covered: classes, "
         "traits, generics, records, keyword arguments, pattern definitions, procedures, while!.",
    technique="Coq proof over a hand-written reference checker (error propagation through every context) + tables "
              "regenerated from the compiler + differential run of erg on mutants built by the extracted injector, "
              "judged by the extracted Spec.judge_c05",
    design="DESIGN.md §4 C05, CoreErg")

MARK = "MARK-c05"
WITNESSES = [
    # (name, erg source with one definite error; always run)
    ("missing-arg-default-elsewhere", "v3(v1: Nat, v2: Int := 3): Int =\n    v1 - v2\nv4 = v3()\nprint!(v4)\n"),
    ("undefined-in-lambda", "v2 = (v1: Nat) -> v1 + v99\nprint!(v2(1))\n"),
    ("undefined-in-loop", "for! [1, 2], v1 =>\n    print!(v1 + v99)\n"),
    ("operand-in-default", "v3(v1: Nat, v2: Int := (None + 1)) =\n    v1\nprint!(v3(1))\n"),
    ("attribute-in-nested-call", "v2(v1: Nat) =\n    v1\nprint!(v2(len([1].frobnicate())))\n"),
    ("too-many-args-nested", "v2(v1: Nat) =\n    v1\nv3 = [v2(1), v2(2, 3)]\nprint!(v3)\n"),
]


class Runner:
    def __init__(self, ctx):
        self.ctx = ctx
        self.erg = ctx.erg_bin()
        self.env = ctx.erg_env()
        self.model = ctx.model("Typing")
        self.work = os.path.join(CACHE, "tmp", "c05-%d" % os.getpid())
        shutil.rmtree(self.work, ignore_errors=True)
        os.makedirs(self.work, exist_ok=True)
        self.n = 0

    def close(self):
        shutil.rmtree(self.work, ignore_errors=True)

    def erg_obs(self, sources, mode):
        items = []
        for s in sources:
            self.n += 1
            items.append(("p%d" % self.n, s))
        return R.observe(self.erg, self.env, self.work, items, mode)

    def judge(self, accepted, executed):
        return self.model.run([[7, 1 if accepted else 0, 1 if executed else 0]])[0][0] == 1

    def mutant_verdict(self, mutant_prog):
        """(judge ok, observation dict) for one mutant tree"""
        src = T.to_erg(mutant_prog, mark=MARK)
        chk = self.erg_obs([src], "check")[0]
        run = self.erg_obs([src], "run")[0]
        return self.verdict(chk, run), src

    def verdict(self, chk, run):
        accepted = chk.rc == 0 or chk.errors == 0
        executed = MARK in run.out
        ok = self.judge(accepted, executed) and run.rc != 0
        return ok, {"check_rc": chk.rc, "check_errors": chk.errors, "run_rc": run.rc, "run_errors": run.errors,
                    "executed": executed, "crashed": chk.crashed or run.crashed,
                    "check_tail": (chk.out + chk.err)[-600:], "run_stdout_tail": run.out[-300:]}


def choose_mutants(ctx, model, progs, per_prog):
    """for every base program: candidate (position, mutation) pairs -> the valid injections the extracted inject accepts"""
    cands, owner = [], []
    for k, p in enumerate(progs):
        pos = T.positions(p)
        if not pos:
            continue
        # every (position, applicable mutation) pair, grouped by kind; kinds are drawn uniformly so that the rarer
        # shapes (arity, attribute, default arguments) are exercised as often as undefined names / operands
        by_kind = {}
        for path, e, c in pos:
            for kind, m in T.candidate_mutations(ctx.rng, e):
                by_kind.setdefault(kind, []).append((path, kind, m, c))
        picks = []
        kinds = sorted(by_kind)
        for _ in range(per_prog * 8):
            if not kinds:
                break
            cs = by_kind[ctx.rng.choice(kinds)]
            deep = max(ctx.rng.sample(cs, min(3, len(cs))), key=lambda x: len(x[3]) * 3 + len(x[0]))
            picks.append(deep if ctx.rng.random() < 0.6 else ctx.rng.choice(cs))
        for path, kind, m, c in picks:
            cands.append([2, 0, p, path, m])
            owner.append((k, path, kind, m, c))
    res = model.run(cands) if cands else []
    out = {}
    for (k, path, kind, m, c), r in zip(owner, res):
        if len(r) == 4 and r[1] == 1:
            lst = out.setdefault(k, [])
            if len(lst) < per_prog and not any(x["kind"] == kind and x["pos"] == path for x in lst):
                lst.append({"pos": path, "kind": kind, "mutation": m, "context": c, "base_ok": r[0], "mutant_ok": r[2], "mutant": r[3]})
    return out


def shrink_case(ctx, rn, base, inj):
    """delete top-level statements of the base (other than the one carrying the injection) while the mutant is still
    produced by the extracted inject and still accepted / executed by erg"""
    cur, pos = base, list(inj["pos"])
    budget = 14
    i = 0
    while i < len(cur) and budget > 0:
        if i == pos[0]:
            i += 1
            continue
        cand = cur[:i] + cur[i + 1:]
        cpos = [pos[0] - (1 if i < pos[0] else 0)] + pos[1:]
        r = rn.model.run([[2, 0, cand, cpos, inj["mutation"]]])[0]
        if len(r) == 4 and r[1] == 1 and r[0] == 1:
            budget -= 1
            (ok, _), _ = rn.mutant_verdict(r[3])
            if not ok:
                cur, pos = cand, cpos
                continue
        i += 1
    r = rn.model.run([[2, 0, cur, pos, inj["mutation"]]])[0]
    return cur, pos, r[3]


def run(ctx):
    c26.gen_sigs(ctx)
    proof = ctx.coq(["Typing/Props_C05.v"])
    ctx.log(proof.summary())
    rn = Runner(ctx)
    try:
        _run(ctx, rn, proof)
    finally:
        rn.close()


def _run(ctx, rn, proof):
    cov = ctx.cov
    cov["rule"] = ("a case = one mutant program (base program + one injected definite error); non-trivial = the base is "
                   "accepted by the extracted checker AND by erg, and the injection was produced by the extracted inject")
    cov["trusted_base"] = ["Coq kernel", "extraction + extract/driver.ml", "pylib/typing_gen.py (printer, positions)",
                           "harness/sigs (declared operator classes)"]
    ctx.assumptions = ["the theorem is about the reference checker Typing/Check.v; erg is sampled on the generated mutants",
                       "strings and numbers of the generated programs stay in the ranges of pylib/typing_gen.py"]
    failing = []

    # ---- always-run witnesses (hand-written definite errors in the contexts the property text names)
    obs_c = rn.erg_obs([MARK_SRC(w[1]) for w in WITNESSES], "check")
    obs_r = rn.erg_obs([MARK_SRC(w[1]) for w in WITNESSES], "run")
    for (name, src), c, r in zip(WITNESSES, obs_c, obs_r):
        ok, ob = rn.verdict(c, r)
        ctx.count("witness")
        ctx.case(["witness", name], nontrivial=True, sample={"witness": name, "erg": src, "rejected": ok})
        if not ok:
            failing.append(({"witness": name, "erg": MARK_SRC(src)}, ob))

    # ---- corpus (minimised past failures): {"base": tree, "pos": [...], "mutation": [...]}
    cdir = os.path.join(VERIF, "corpus", "C05")
    if os.path.isdir(cdir):
        for f in sorted(os.listdir(cdir)):
            if f.endswith(".json"):
                c = json.load(open(os.path.join(cdir, f)))
                r = rn.model.run([[2, 0, c["base"], c["pos"], c["mutation"]]])[0]
                if len(r) == 4 and r[1] == 1:
                    (ok, ob), src = rn.mutant_verdict(r[3])
                    ctx.count("corpus")
                    ctx.case(["corpus", f], nontrivial=True)
                    if not ok:
                        failing.append(({"corpus": f, "erg": src, "base": c["base"], "pos": c["pos"], "mutation": c["mutation"]}, ob))

    # ---- generated base programs
    n = ctx.scale(110, 2500)
    per_prog = 1 if not ctx.thorough else 2
    progs = [T.Gen(ctx.rng, "c05", max_stmts=ctx.rng.choice([5, 8, 10])).program() for _ in range(n)]
    verdicts = rn.model.run([[0, 0, p] for p in progs])
    typable = [p for p, v in zip(progs, verdicts) if v and v[0] == 1]
    ctx.count("base:generated", len(progs))
    ctx.count("base:typable-by-extracted-checker", len(typable))
    if len(typable) < len(progs) * 0.7:
        raise TieBroken("the extracted checker rejects %d of %d generated base programs: generator and model disagree"
                        % (len(progs) - len(typable), len(progs)))
    batch = 400
    disagreements_base = []
    for off in range(0, len(typable), batch):
        chunk = typable[off:off + batch]
        base_obs = rn.erg_obs([T.to_erg(p) for p in chunk], "check")
        good = []
        for p, o in zip(chunk, base_obs):
            if o.rc == 0:
                good.append(p)
            else:
                ctx.count("base:rejected-by-erg")
                disagreements_base.append((p, o))
        muts = choose_mutants(ctx, rn.model, good, per_prog)
        flat = [(p, inj) for k, p in enumerate(good) for inj in muts.get(k, [])]
        ctx.count("base:accepted-by-erg-and-model", len(good))
        ctx.count("base:no-valid-injection-found", sum(1 for k in range(len(good)) if k not in muts))
        srcs = [T.to_erg(inj["mutant"], mark=MARK) for _, inj in flat]
        chk = rn.erg_obs(srcs, "check")
        runs = rn.erg_obs(srcs, "run")
        for (p, inj), src, c, r in zip(flat, srcs, chk, runs):
            ok, ob = rn.verdict(c, r)
            ctx.count("mutation:" + inj["kind"])
            for cx in set(inj["context"]) or {"top-level"}:
                ctx.count("context:" + cx)
            ctx.count("depth:%d" % min(len(inj["pos"]), 9))
            if inj["mutant_ok"] != 0 or inj["base_ok"] != 1:
                raise FrameworkError("extracted inject returned a typable mutant / untypable base: theorem contradicted by computation")
            ctx.case(["mutant", src], nontrivial=True,
                     sample={"kind": inj["kind"], "context": inj["context"], "pos": inj["pos"], "erg_mutant": src, "rejected": ok})
            if ob["crashed"]:
                ctx.count("erg-crashed-on-mutant")
            if not ok:
                failing.append(({"base": p, "pos": inj["pos"], "mutation": inj["mutation"], "kind": inj["kind"],
                                 "context": inj["context"], "erg": src}, ob))
    if disagreements_base:
        p, o = disagreements_base[0]
        ctx.notes.append("%d base programs accepted by the reference checker are rejected by erg (generator/model vs erg "
                         "precision; first: %s ... %s)" % (len(disagreements_base), T.to_erg(p)[:400], (o.out + o.err)[-300:]))
        cov["base_rejected_by_erg_first"] = {"erg": T.to_erg(p), "diagnostics": (o.out + o.err)[-1200:]}

    # ---- verdict
    for case, ob in failing[:3]:
        if "base" in case and "witness" not in case:
            try:
                b, pos, mutant = shrink_case(ctx, rn, case["base"], {"pos": case["pos"], "mutation": case["mutation"]})
                case = dict(case, base=b, pos=pos, erg=T.to_erg(mutant, mark=MARK), base_erg=T.to_erg(b))
                (ok2, ob2), _ = rn.mutant_verdict(mutant)
                if not ok2:
                    ob = ob2
            except Exception as e:      # shrinking is best effort
                ctx.notes.append("shrink failed: %r" % (e,))
        ctx.violation("failing-input",
                      "a program with one injected definite static error (%s) is %s by erg" % (
                          case.get("kind", case.get("witness", "corpus")),
                          "executed" if ob["executed"] else "accepted (no error diagnostic)" if ob["check_errors"] == 0 else "not rejected"),
                      case=case, impl=ob, model={"typecheck(mutant)": False, "theorem": "mutation_ill_typed"},
                      judge={"judge_c05": False})
    if not failing and not proof.ok:
        ctx.violation("broken-theorem", "Props_C05 no longer builds: %s" % (proof.broken[:2],), theorem="mutation_ill_typed",
                      case={"broken": [list(b) for b in proof.broken[:3]]}, no_input=True)


def MARK_SRC(src):
    return 'print!("%s")\n' % MARK + src


def replay(ctx, path):
    r = json.load(open(path))
    rn = Runner(ctx)
    try:
        case = r["case"]
        src = case.get("erg")
        if "base" in case and "pos" in case:
            m = rn.model.run([[2, 0, case["base"], case["pos"], case["mutation"]]])[0]
            print("model: base typable=%s injected=%s mutant typable=%s" % (m[0], m[1], m[2]))
            if m[1] == 1:
                src = T.to_erg(m[3], mark=MARK)
        print(src)
        chk = rn.erg_obs([src], "check")[0]
        run = rn.erg_obs([src], "run")[0]
        ok, ob = rn.verdict(chk, run)
        print("erg check: rc=%d errors=%d; erg run: rc=%d executed=%s" % (chk.rc, chk.errors, run.rc, ob["executed"]))
        print("judge_c05:", ok)
        if not ok:
            ctx.violation("failing-input", r.get("what", "replayed"), case=case, impl=ob, judge={"judge_c05": False})
    finally:
        rn.close()
