"""ENABLED: properties whose check the integrator has accepted into MANIFEST.json (each carries a REGISTRY dict in
checks/cXX.py). NOT_APPLICABLE: reason text for properties not claimed."""
ENABLED = {"C21", "C31", "C16", "C27", "C11", "C22", "C14", "C26", "C28", "C25", "C08", "C32", "C03", "C20", "C19", "C12", "C18", "C17", "C04", "C15", "C23", "C29", "C30", "C06", "C33", "C01", "C02", "C05", "C34", "C13", "C09", "C24", "C10", "C07"}
NOT_APPLICABLE = {}
