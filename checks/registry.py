"""One entry per claimed property; lib/mkmanifest.py turns this into MANIFEST.json."""
CHECKS = {
    "C21": dict(
        category="proof",
        text="Coq model of ModuleGraph+tsort (coq/Graph/Model.v) with theorems over all operation histories "
             "(index invariant, no panic, DFS reachability, cycle refusal, acyclicity, tsort soundness), tied to the Rust "
             "code by step-wise simulation of generated histories from the implementation's own state; a plain reference "
             "graph (coq/Graph/Spec.v, extracted) judges every answer.",
        note="Trusted: Coq kernel, extraction (ExtrOcamlBasic) + 60-line OCaml driver, harness graph.rs. FxHash Set/Dict "
             "modelled as duplicate-free lists; rename only to a fresh path; is_dir() false.",
        technique="Coq proof over hand model + step-wise correspondence (extracted model vs ModuleGraph) + extracted reference-graph judge",
        design="DESIGN.md §4 C21"),
}
NOT_APPLICABLE = {}
