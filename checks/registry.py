"""Properties not claimed (with reason) and checks temporarily disabled. Claimed checks carry a REGISTRY dict in checks/cXX.py."""
NOT_APPLICABLE = {}
DISABLED = set()
