"""C09 — the parser is total and never exhausts the stack.

proof:          coq/ParseDepth/Props_C09.v over the model coq/ParseDepth/Model.v (recursion skeleton of
                crates/erg_parser/parse.rs for the nesting constructs, with Parser::nested's depth test): loops make
                progress, the model terminates on every token stream, depth <= LIMIT and at most 6*LIMIT+2 nested
                frames for EVERY token stream, uniform nests >= LIMIT deep are errors (any depth), <= 200 deep are fine
translators:    MAX_NEST (parse.rs) and STACK_SIZE (spawn.rs) -> coq/gen/ParseDepthConst.v (theorem limit_matches_source)
correspondence: harness ergv-parsedepth (real lexer + Parser + Desugarer, cfg erg_verif hook) and the extracted model on
                the same token streams: Ok/Err, number of errors, deepest nesting of parser frames, deepest `depth`
runtime part:   stack bytes per frame measured through the hook (debug and release build);
                bytes_per_level * (6*LIMIT+2) < STACK_SIZE; every case runs on a thread of exactly STACK_SIZE
judge:          Spec.judge (extracted): no crash / hang, Ok without errors or Err with >= 1 error, nesting <= 200 accepted,
                nesting > LIMIT rejected
"""
import glob
import signal
from lib.vplib import *

REGISTRY = dict(
    category="proof",
    text="proof (partial): Coq model of the recursion skeleton and loops of the recursive-descent parser (parse.rs: module/block "
         "loops, chunk, expression, bin_lhs, call/accessor chain, arguments, list, set, tuple, unary, lambda, recovery skips, "
         "Parser::nested) over token streams of the nesting constructs; theorems for every token stream: loops progress, "
         "termination, depth <= MAX_NEST and <= 6*MAX_NEST+2 nested frames; uniform nests of any depth >= MAX_NEST are errors, "
         "<= 200 deep parse. Tied to the real parser on generated nests 1..1000, mixed nests and random token sequences (exact "
         "agreement on result, error count, frame nesting, depth), to the lexer's token streams, and to the constants in the "
         "source. Not modelled: the 4 k-line statement parser beyond these constructs (judged by running it: random text, "
         "truncated/mutated corpus programs, CLI). Bytes per frame are measured (hook), not proved.",
    note="Trusted: Coq kernel, extraction (ExtrOcamlBasic) + generic OCaml driver, harness/parsedepth, the cfg(erg_verif) hook "
         "(RAII frame counter + address of a local), rustc's frame layout being the same for the measured inputs and the worst "
         "case. Known finding: the lexer rejects lines indented > 100 columns, so blocks cannot nest as deep as in CPython.",
    technique="Coq proof over hand model + exact correspondence (extracted model vs Parser through a hook) + translators for the "
              "constants + measured stack bytes per frame + extracted judge on in-process and CLI runs",
    design="DESIGN.md §4 C09")

TIMEOUT = 20            # seconds per input (judge: no hang)
KINDS = ["paren", "list", "set", "unary", "lambda", "call", "callnp", "subscr", "mul"]     # Spec.kind codes 0..8
OPEN = {"paren": "( ", "list": "[ ", "set": "{ ", "unary": "~ ", "lambda": "x -> ", "call": "f( ", "callnp": "f ",
        "subscr": "a[ ", "mul": "2 ( "}
CLOSE = {"paren": ") ", "list": "] ", "set": "} ", "unary": "", "lambda": "", "call": ") ", "callnp": "", "subscr": "] ",
         "mul": ") "}
# constructs outside the model's alphabet: opener, closer, units of `depth` per level (for the expected verdict only)
EXTRA = {"dict": ("{1: ", "}"), "record": ("{a = ", "}"), "kwarg": ("f(a := ", ")"), "interp": ("\"\\{", "}\""),
         "not": ("not ", ""), "star": ("f(*", ")"), "method": ("a.m(", ")"), "tuple": ("(1, ", ")"), "dictv": ("{1: 1, 2: ", "}"),
         "rec2": ("{a = 1; b = ", "}"), "typeapp": ("f|", "|"), "pipe": ("1 |> f(", ")"), "ref": ("ref ", "")}


# ------------------------------------------------------------------ translators
def read_consts(ctx):
    """MAX_NEST from parse.rs, STACK_SIZE (per build configuration) from spawn.rs"""
    src = open(os.path.join(REPO, "crates/erg_parser/parse.rs")).read()
    m = re.search(r"\bconst\s+MAX_NEST\s*:\s*usize\s*=\s*([0-9_]+)\s*;", src)
    if not m:
        raise TieBroken("crates/erg_parser/parse.rs: `const MAX_NEST: usize = <number>;` not found (the nesting limit the model "
                        "is about was removed or restructured)")
    max_nest = int(m.group(1).replace("_", ""))
    sp = open(os.path.join(REPO, "crates/erg_common/spawn.rs")).read()
    m = re.search(r"\bconst\s+STACK_SIZE\s*:\s*usize\s*=(.*?);", sp, re.S)
    if not m:
        raise TieBroken("crates/erg_common/spawn.rs: `const STACK_SIZE: usize = ...;` not found")
    toks = re.findall(r"cfg!\s*\(\s*[^()]*\)|if|else|\{|\}|[0-9_]+|\*", m.group(1))
    if "".join(toks).replace(" ", "") != re.sub(r"\s+", "", m.group(1)).replace(" ", ""):
        raise TieBroken("crates/erg_common/spawn.rs: STACK_SIZE is not an if/else chain over cfg!(..) with products of integers: %r"
                        % m.group(1).strip())
    pos = 0

    def prod():
        nonlocal pos
        v = 1
        while True:
            v *= int(toks[pos].replace("_", ""))
            pos += 1
            if pos < len(toks) and toks[pos] == "*":
                pos += 1
                continue
            return v

    def expr(env):
        nonlocal pos
        if toks[pos] == "if":
            cond = toks[pos + 1]
            pos += 2
            assert toks[pos] == "{"
            pos += 1
            a = expr(env)
            assert toks[pos] == "}" and toks[pos + 1] == "else"
            pos += 2
            if toks[pos] == "{":
                pos += 1
                b = expr(env)
                assert toks[pos] == "}"
                pos += 1
            else:
                b = expr(env)
            c = re.sub(r"\s+", "", cond)
            if c == "cfg!(debug_assertions)":
                return a if env["debug"] else b
            m2 = re.match(r'cfg!\(feature="(\w+)"\)', c)
            if m2:
                return a if m2.group(1) in env["features"] else b
            raise TieBroken("spawn.rs STACK_SIZE: unknown condition %s" % cond)
        return prod()

    out = {}
    try:
        for name, env in (("debug", dict(debug=True, features=[])), ("release", dict(debug=False, features=[])),
                          ("large", dict(debug=False, features=["large_thread"]))):
            pos = 0
            out[name] = expr(env)
            if pos != len(toks):
                raise ValueError("trailing tokens")
    except (AssertionError, ValueError, IndexError) as e:
        raise TieBroken("crates/erg_common/spawn.rs: cannot evaluate STACK_SIZE (%s): %r" % (e, m.group(1).strip()))
    text = ("(* GENERATED by checks/c09.py from crates/erg_parser/parse.rs (MAX_NEST) and crates/erg_common/spawn.rs\n"
            "   (STACK_SIZE) - regenerated on every run, do not edit. *)\n"
            "From Coq Require Import NArith.\nLocal Open Scope N_scope.\n\n"
            "(* parse.rs: pub const MAX_NEST: usize *)\n"
            "Definition MAX_NEST : N := %d.\n"
            "(* spawn.rs STACK_SIZE in bytes: debug build (cfg!(debug_assertions)), release build, release with feature large_thread *)\n"
            "Definition STACK_SIZE_DEBUG : N := %d.\nDefinition STACK_SIZE_RELEASE : N := %d.\nDefinition STACK_SIZE_LARGE : N := %d.\n"
            % (max_nest, out["debug"], out["release"], out["large"]))
    ctx.write_gen("ParseDepthConst", text)
    return max_nest, out


# ------------------------------------------------------------------ running the harness with a time limit per input
_BIN = {}


class Runner:
    """runs the harness on texts; an input is given TIMEOUT seconds (the harness answers line by line, so a stall is
    attributed to the input whose answer is due); the address space is limited (a loop that keeps allocating must not
    take the machine down)"""

    def __init__(self, ctx, release, stack_bytes):
        if release not in _BIN:
            _BIN[release] = ctx.harness("parsedepth", release=release)
        self.bin = _BIN[release]
        self.kib = stack_bytes // 1024
        self.release = release

    def _batch(self, cases, limit_s=None):
        """-> (answers read, 'ok' | 'hang' | ('crash', returncode))"""
        limit_s = limit_s or TIMEOUT
        import resource
        import select
        import threading

        def limit():
            resource.setrlimit(resource.RLIMIT_AS, (8 << 30, 8 << 30))
        p = subprocess.Popen([self.bin, str(self.kib)], stdin=subprocess.PIPE, stdout=subprocess.PIPE, stderr=subprocess.DEVNULL,
                             preexec_fn=limit)
        data = ("\n".join(sx_dump(c) for c in cases) + "\n").encode()

        def feed():
            try:
                p.stdin.write(data)
                p.stdin.close()
            except (BrokenPipeError, OSError):
                pass
        th = threading.Thread(target=feed, daemon=True)
        th.start()
        out, buf, state = [], b"", "ok"
        fd = p.stdout.fileno()
        deadline = time.time() + limit_s
        while len(out) < len(cases):
            r, _, _ = select.select([fd], [], [], max(0.0, deadline - time.time()))
            if not r:
                state = "hang"
                break
            chunk = os.read(fd, 1 << 16)
            if not chunk:
                state = "eof"
                break
            buf += chunk
            while b"\n" in buf:
                line, buf = buf.split(b"\n", 1)
                if line.strip():
                    out.append(line.decode(errors="replace"))
                    deadline = time.time() + limit_s
        if state == "hang":
            p.kill()
        try:
            rc = p.wait(timeout=10)
        except subprocess.TimeoutExpired:
            p.kill()
            rc = p.wait()
        if state == "eof":
            state = ("crash", rc)
        return out, state

    def run(self, texts, limit_s=None):
        """-> one result per text: the harness's answer, or ['hang'] / ['crash', returncode] / ['skipped']"""
        cases = [[0, t] for t in texts]
        res = [None] * len(cases)
        todo = list(range(len(cases)))
        culprits = 0
        while todo:
            if culprits >= 6:
                # enough failing inputs to report; do not spend 20 s on each of the rest
                for i in todo:
                    res[i] = ["skipped"]
                break
            lines, state = self._batch([cases[i] for i in todo], limit_s)
            for i, l in zip(todo, lines):
                res[i] = sx_load(l)
            if len(lines) >= len(todo):
                break
            # the input whose answer was due stalled or killed the process
            culprit = todo[len(lines)]
            culprits += 1
            res[culprit] = ["hang"] if state == "hang" else ["crash", state[1] if isinstance(state, tuple) else state]
            todo = todo[len(lines) + 1:]
        return res


def ending(r):
    """harness answer -> (ending code for Spec.dec_ending, number of errors, description)"""
    if r[0] == "skipped":
        return -1, 0, "not run (the harness had already failed on 6 inputs of this batch)"
    if r[0] == "hang":
        return 3, 0, "no answer within %d s" % TIMEOUT
    if r[0] == "crash":
        rc = r[1]
        name = ""
        if isinstance(rc, int) and rc < 0:
            try:
                name = " (%s)" % signal.Signals(-rc).name
            except ValueError:
                pass
        return 2, 0, "the process died: exit status %s%s" % (rc, name)
    if r[0] in (3, 4):
        return 2, 0, "%s panicked at %s: %s" % ("lexer" if r[0] == 3 else "parser", sx_str(r[1]), sx_str(r[2])[:200])
    if r[0] == -999:
        return 2, 0, "panic: " + sx_str(r[1])[:200]
    if r[0] == 2:
        return 1, r[1], "lexing failed with %d error(s)" % r[1]
    if r[0] == 0:
        return 0, r[1], "Ok(tree), %d error(s), %d warning(s)" % (r[1], r[2])
    return 1, r[1], "Err with %d error(s)%s" % (r[1], ", `nesting is too deep`" if r[7] else "")


def in_alphabet(r):
    return r[0] in (0, 1) and len(r) > 9 and all(t[0] >= 0 for t in r[9])


# ------------------------------------------------------------------ generators
def nest_text(kinds, atom="1"):
    return "".join(OPEN[k] for k in kinds) + atom + " " + "".join(CLOSE[k] for k in reversed(kinds)) + "\n"


def lamblock_text(n, indent=1):
    return "".join("x ->\n" + " " * (indent * (i + 1)) for i in range(n)) + "1\n"


def defblock_text(n, ind):
    """n nested function definitions; every block ends with an expression"""
    return ("".join(" " * (ind * i) + "f%d x =\n" % i for i in range(n)) + " " * (ind * n) + "x\n" +
            "".join(" " * (ind * i) + "x\n" for i in range(n - 1, 0, -1)))


def extra_text(name, n):
    o, c = EXTRA[name]
    return "x = " + o * n + "1" + c * n + "\n"


def gen_expr(rng, depth):
    """mostly valid expressions over the model's alphabet"""
    if depth <= 0 or rng.random() < 0.25:
        return rng.choice(["1", "x", "f", "x", "1"])
    k = rng.randrange(12)
    e = lambda: gen_expr(rng, depth - 1)
    if k == 0: return "( " + e() + " )"
    if k == 1: return "[ " + ", ".join(e() for _ in range(rng.randint(0, 3))) + " ]"
    if k == 2: return "{ " + ", ".join(e() for _ in range(rng.randint(1, 3))) + " }"
    if k == 3: return "~ " + e()
    if k == 4: return rng.choice(["x", "()", "1"]) + " -> " + e()
    if k == 5: return "f( " + ", ".join(e() for _ in range(rng.randint(0, 3))) + " )"
    if k == 6: return "f " + e()
    if k == 7: return "a[ " + e() + " ]"
    if k == 8: return "2 ( " + e() + " )"
    if k == 9: return "( " + e() + ", " + e() + " )"
    if k == 10: return "x ->\n" + "\n".join("  " + l for l in (e() + "\n" + e()).split("\n"))
    return e() + " [ " + e() + " ]"


SOUP = ["(", ")", "[", "]", "{", "}", "~", "x", "f", "1", "->", ",", "\n", "\n ", "\n  ", "\n   "]
SOUP_W = [6, 6, 4, 4, 3, 3, 3, 8, 4, 6, 3, 5, 3, 2, 2, 1]
WIDE = ["(", ")", "[", "]", "{", "}", "-", "~", "x", "f", "1", "->", "=>", ",", "\n", "\n ", "\n  ", " ", "=", ":", ".", "::", "|", ";",
        "+", "*", "do", "do!", "@", "!", ":=", "\"a\"", "if", "..", "_", "<-", "|>", "and", "not", "a.b", "0.1", "#c\n", "\\\n", "    ",
        "in", "as", "<:", "ref", "**", "\"a\\{x}b\"", "C", "Class", "...", "|", "::[", ".m", "x.0", "'a'", "\"", "\\{", "}", "$", "?"]
INS = ["(", ")", "[", "]", "{", "}", "-", "x", "1", "->", "=>", ",", "\n", "\n    ", " ", "=", ":", ".", "::", "|", ";", "+", "do", "@", "!",
       ":=", "\"", "\\{", "}", "if", "..", "_"]


def soup(rng, lex, weights, maxlen):
    n = rng.randint(1, maxlen)
    return "".join(rng.choices(lex, weights)[0] + rng.choice(["", " ", " "]) for _ in range(n)) + rng.choice(["", "\n"])


def mutate(rng, s):
    k = rng.randrange(4)
    if k == 0:
        return s[:rng.randrange(len(s) + 1)]
    if k == 1:
        i = rng.randrange(len(s) + 1)
        return s[:i] + rng.choice(INS) + s[i:]
    if k == 2:
        i = rng.randrange(len(s) + 1)
        return s[:i] + s[min(len(s), i + rng.randint(1, 8)):]
    t = s
    for _ in range(rng.randint(1, 4)):
        i = rng.randrange(len(t) + 1)
        t = t[:i] + rng.choice(INS) + t[min(len(t), i + rng.randint(0, 3)):]
    return t


# ------------------------------------------------------------------ the check
class Case:
    def __init__(self, kind, text, nest=None, cols=0, spine=None, sample=None, chain=0):
        self.kind, self.text, self.nest, self.cols, self.spine, self.sample, self.chain = kind, text, nest, cols, spine, sample, chain


def build_cases(ctx, limit):
    rng = ctx.rng
    cases = []
    corpus = os.path.join(VERIF, "corpus", "C09")
    if os.path.isdir(corpus):
        for f in sorted(os.listdir(corpus)):
            if f.endswith(".json"):
                c = json.load(open(os.path.join(corpus, f)))
                cases.append(Case("corpus", c["text"], nest=c.get("nest"), sample=f))
    # ---- uniform nests of the model's kinds, depths 1..1000
    depths = sorted(set([1, 2, 3, 5, 10, 50, 100, 150, 199, 200, 201, 300, 400, 500, limit - 2, limit - 1, limit, limit + 1, 600, 1000]))
    if ctx.thorough:
        depths = sorted(set(depths + list(range(1, 1001, 7)) + list(range(limit - 8, limit + 9))))
    else:
        depths = sorted(set(depths + [rng.randint(1, 1000) for _ in range(6)]))
    for k in KINDS:
        for n in depths:
            cases.append(Case("nest:" + k, nest_text([k] * n), nest=n, spine=[KINDS.index(k)] * n))
    for n in sorted(set([1, 2, 3, 10, 25, 50, 99, 100] + ([rng.randint(1, 100) for _ in range(3)] if not ctx.thorough else list(range(1, 101, 3))))):
        cases.append(Case("nest:lamblock", lamblock_text(n), nest=n, cols=n, spine=("lamblock", n)))
    # ---- indented blocks beyond what the lexer admits (known finding), and far beyond
    for n, ind in ((26, 4), (60, 2), (101, 1), (150, 1), (201, 1), (600, 1), (1000, 1)):
        cases.append(Case("nest:lamblock-deep", lamblock_text(n, ind), nest=n, cols=n * ind))
    for n in (10, 25, 26, 50, 100, 101, 300, 1000):
        ind = 1 if n > 25 else 4
        cases.append(Case("nest:defblock", defblock_text(n, ind), nest=n, cols=n * ind))
        cases.append(Case("nest:ifblock", "".join(" " * (ind * i) + "if x, do:\n" for i in range(n)) + " " * (ind * n) + "x\n", nest=n, cols=n * ind))
    # ---- mixed nests (model kinds)
    for _ in range(ctx.scale(150, 800)):
        ks = [rng.choice(KINDS) for _ in range(rng.randint(1, 4))]
        n = rng.choice([rng.randint(1, 30), rng.randint(30, 200), rng.randint(200, 1000)])
        seq = [ks[j % len(ks)] for j in range(n)]
        cases.append(Case("mixed", nest_text(seq), nest=n if n <= 200 else None, spine=[KINDS.index(k) for k in seq]))
    # ---- nests of constructs outside the model (judge only)
    for name in EXTRA:
        for n in [1, 50, 100, 200, 201, 300, limit + 1, 1000] + ([rng.randint(1, 1000)] if not ctx.thorough else list(range(5, 1000, 37))):
            cases.append(Case("nest:" + name, extra_text(name, n), nest=None if name in ("typeapp", "pipe") else n))
    for n in (1, 100, 200, 300, 513, 1000):
        cases.append(Case("nest:restriction", "x" + "::[" * n + "y" + "]" * n + " = 1\n"))
        cases.append(Case("nest:ascription", "x = " + "a: " * n + "Int\n"))
    # ---- long left-nested chains (no recursion in the parser; the tree is deep)
    for n in (10, 500, 1000):
        cases.append(Case("chain", "x = " + "1 + " * n + "1\n", chain=n))
        cases.append(Case("chain", "x = f" + "(1)" * n + "\n", chain=n))
        cases.append(Case("chain", "x = a" + ".b" * n + "\n", chain=n))
        cases.append(Case("chain", "x = a" + "[0]" * n + "\n", chain=n))
        cases.append(Case("chain", "x = 1" + " |> f()" * n + "\n", chain=n))
        cases.append(Case("chain", "x = \"" + "\\{a}" * n + "\"\n", chain=n))
        cases.append(Case("chain", "x = " + "1, " * n + "1\n"))
        cases.append(Case("chain", "x = 1\n" * n))
    # witness of the known finding: the desugarer recurses on the tree of a long chain
    cases.append(Case("chain", "x = " + "1 + " * 3000 + "1\n", chain=3000))
    # ---- structured expressions (mostly valid) and random token sequences over the model's alphabet
    for _ in range(ctx.scale(700, 4000)):
        e = "\n".join(gen_expr(rng, rng.randint(1, 6)) for _ in range(rng.randint(1, 3))) + "\n"
        if rng.random() < 0.3:
            e = mutate(rng, e)
        cases.append(Case("expr", e))
    for _ in range(ctx.scale(1500, 8000)):
        cases.append(Case("soup", soup(rng, SOUP, SOUP_W, rng.choice([6, 12, 25, 60]))))
    # ---- random text over a wide set of lexemes
    for _ in range(ctx.scale(1500, 8000)):
        cases.append(Case("text", soup(rng, WIDE, None, rng.choice([8, 30, 80]))))
    # ---- every .er file of the repository, truncated and mutated
    files = sorted(glob.glob(os.path.join(REPO, "examples", "**", "*.er"), recursive=True) +
                   glob.glob(os.path.join(REPO, "tests", "**", "*.er"), recursive=True))
    per = ctx.scale(6, 20)
    for f in files:
        s = open(f, encoding="utf-8", errors="replace").read()
        cases.append(Case("file", s, sample=os.path.relpath(f, REPO)))
        for _ in range(per):
            cases.append(Case("file-mutated", mutate(rng, s), sample=os.path.relpath(f, REPO)))
    ctx.cov["er_files"] = len(files)
    return cases


def judge_all(model, items):
    """items: (nest or None, cols, ending code, nerrs[, chain]) -> list of (ok, known-indent, known-chain)"""
    out = model.run([[1, -1 if it[0] is None else it[0], it[1], it[2], it[3], it[4] if len(it) > 4 else 0] for it in items]) if items else []
    return [(bool(o[0]), bool(o[1]), bool(o[2])) for o in out]


def run(ctx):
    ctx.cov["rule"] = ("texts: uniform nests of 9 one-line constructs + indented lambda blocks at depths 1..1000, mixed nests, nests of 13 "
                       "constructs outside the model, long chains, generated expressions, random sequences of the model's lexemes, random "
                       "sequences of 60 lexemes, every .er file of /repo/examples and /repo/tests truncated/mutated; each parsed in-process "
                       "(debug and release build, thread of STACK_SIZE) and a selection by the erg CLI; non-trivial = distinct text that "
                       "reaches the parser (lexes) and makes it nest at least 3 frames deep")
    ctx.cov["trusted_base"] = ["Coq 8.16.1 kernel", "extraction (ExtrOcamlBasic only) + extract/driver.ml",
                               "harness/parsedepth (drives Lexer, Parser, Desugarer through their public API)",
                               "hook erg_parser::parse::verif (cfg erg_verif): RAII frame counter, address of a local per frame",
                               "measured, not proved: stack bytes per frame; desugarer / Drop / Display recursion on the tree (run, not modelled)"]
    ctx.assumptions = ["the parser runs on a thread created by erg_common::spawn (STACK_SIZE), as every entry point of the project does; "
                       "a library caller on a smaller stack (8 MB main thread) overflows beyond ~240 nested calls (release) / ~45 (debug)",
                       "token streams come from the lexer (a stream without EOF, or with Newline/Indent inside brackets, can make the "
                       "model - and Parser::lpop - panic; the lexer does not produce them)"]
    limit, stack = read_consts(ctx)
    proof = ctx.coq(["ParseDepth/Props_C09.v"], timeout=3000)
    model = ctx.model("ParseDepth")
    mlimit, cpy = model.run([[3]])[0]
    tie_notes = []
    if mlimit != limit:
        tie_notes.append("the model's LIMIT is %d, parse.rs MAX_NEST is %d" % (mlimit, limit))
    cases = build_cases(ctx, limit)
    texts = [c.text for c in cases]
    runs = {}
    for build in ("debug", "release"):
        r = Runner(ctx, build == "release", stack[build])
        t = time.time()
        runs[build] = r.run(texts)
        ctx.log("%s build: %d texts parsed in %.1fs on a %d MiB thread" % (build, len(texts), time.time() - t, stack[build] >> 20))
    # ---- model on the token streams the parser was given
    mcases, midx = [], []
    for i, r in enumerate(runs["debug"]):
        if in_alphabet(r):
            mcases.append([0, r[9]])
            midx.append(i)
    mres = dict(zip(midx, model.run(mcases))) if mcases else {}
    # generator tie: the spine the theorems talk about is the token stream the lexer produced
    gen_idx = [i for i, c in enumerate(cases) if c.spine is not None]
    gen_toks = model.run([[2, [9], cases[i].spine[1]] if isinstance(cases[i].spine, tuple) else [2, cases[i].spine] for i in gen_idx]) if gen_idx else []
    # ---- compare, judge
    disagreements, failures = [], []
    jitems = []
    for i, c in enumerate(cases):
        for build in ("debug", "release"):
            e, k, _ = ending(runs[build][i])
            # an input that was not run is not judged: hand the judge a vacuous observation
            jitems.append((c.nest, c.cols, e, k, c.chain) if e >= 0 else (None, 0, 1, 1, 0))
    verdicts = judge_all(model, jitems)
    known_hit, chain_hit = {}, {}
    frames_for_bytes = {"debug": [], "release": []}
    for i, c in enumerate(cases):
        rd, rr = runs["debug"][i], runs["release"][i]
        ctx.count(c.kind.split(":")[0] if not c.kind.startswith("nest:") else "nest")
        lexed = rd[0] in (0, 1)
        ctx.case([c.kind, c.text], nontrivial=lexed and len(rd) > 4 and rd[4] >= 3,
                 sample={"kind": c.kind, "text": c.text[:120], "debug": ending(rd)[2]} if i % 997 == 0 else None)
        ctx.count("result: " + {0: "Ok", 1: "Err", 2: "crash", 3: "hang", -1: "not run"}[ending(rd)[0]])
        for b, build in enumerate(("debug", "release")):
            ok, known, known_chain = verdicts[2 * i + b]
            r = runs[build][i]
            if not ok:
                failures.append((i, build, ending(r)[2]))
            elif known and c.nest is not None and c.nest <= cpy and ending(r)[0] != 0:
                known_hit[i] = ending(r)[2]
            elif known_chain and ending(r)[0] == 2:
                chain_hit[i] = "%s build: %s" % (build, ending(r)[2])
            if r[0] in (0, 1) and len(r) > 6 and r[0] == 0:
                frames_for_bytes[build].append((r[4], r[6], c.kind))
            # the invariant proved for the model must hold for every input of the implementation
            if r[0] in (0, 1) and (r[5] > limit or r[4] > 6 * limit + 2) and c.kind not in ("file", "file-mutated", "text", "corpus") \
                    and i in mres and mres[i][0] in (0, 1):
                disagreements.append((i, "%s build: depth %d / %d frames exceed the proved bounds %d / %d" % (build, r[5], r[4], limit, 6 * limit + 2)))
        if rd[0] in (0, 1) and rr[0] in (0, 1) and (rd[0], rd[1], rd[4], rd[5]) != (rr[0], rr[1], rr[4], rr[5]):
            disagreements.append((i, "debug and release build differ: %s vs %s" % (rd[:6], rr[:6])))
        if i in mres:
            m = mres[i]
            if m[0] == 5:
                ctx.count("model: not modelled decision")
            elif m[0] in (6, 7):
                disagreements.append((i, "model %s, implementation %s" % ("ran out of fuel" if m[0] == 6 else "panics", ending(rd)[2])))
            else:
                ctx.count("model: compared")
                for build, r in (("debug", rd), ("release", rr)):
                    if r[0] in (0, 1) and (r[0], r[1], r[4], r[5]) != tuple(m):
                        disagreements.append((i, "%s build (result, errors, frames, depth) = %s, model %s" % (build, (r[0], r[1], r[4], r[5]), tuple(m))))
                        break
    for i, g in zip(gen_idx, gen_toks):
        r = runs["debug"][i]
        if r[0] in (0, 1):
            got = [[t[0], t[1]] for t in r[9]]
            want = [[t[0], t[1]] for t in g]
            same = len(got) == len(want) and all(a[0] == b[0] and (b[1] == 2 or a[1] == b[1]) for a, b in zip(got, want))
            if not same:
                disagreements.append((i, "the lexer's token stream is not Spec.nest / Spec.lamblock of this program"))
        elif isinstance(cases[i].spine, tuple) or True:
            if ending(r)[0] == 1 and r[0] == 2:
                pass       # lexing failed (deep indentation): not a parser observation
    # ---- stack bytes per frame
    stack_report = {}
    for build in ("debug", "release"):
        by_kind = {}
        for fr, span, kind in frames_for_bytes[build]:
            if kind.startswith("nest:"):
                by_kind.setdefault(kind, []).append((fr, span))
        slopes = {}
        for kind, pts in by_kind.items():
            pts = sorted(set(pts))
            lo = [p for p in pts if p[0] >= 60]
            if len(lo) >= 2 and lo[-1][0] - lo[0][0] >= 100:
                slopes[kind] = (lo[-1][1] - lo[0][1]) / (lo[-1][0] - lo[0][0])
        worst_span = max([s for _, s, _ in frames_for_bytes[build]] + [r[6] for r in runs[build] if r[0] == 1 and len(r) > 6] + [0])
        if not slopes:
            tie_notes.append("no stack measurements for the %s build" % build)
            continue
        bpl = max(slopes.values())
        need = bpl * (6 * limit + 2)
        stack_report[build] = {"bytes_per_frame_max": round(bpl), "worst_kind": max(slopes, key=slopes.get),
                               "bound_frames": 6 * limit + 2, "needed_bytes": round(need), "stack_size": stack[build],
                               "largest_span_observed": worst_span}
        ctx.log("%s build: %.0f bytes/frame (worst: %s) * %d frames = %.1f MiB of %d MiB; largest span observed %.1f MiB"
                % (build, bpl, stack_report[build]["worst_kind"], 6 * limit + 2, need / 2 ** 20, stack[build] >> 20, worst_span / 2 ** 20))
        if need >= stack[build] or worst_span >= 0.8 * stack[build]:
            tie_notes.append("%s build: %.0f bytes per frame * %d frames = %d bytes do not fit the %d bytes of STACK_SIZE (largest span seen: %d)"
                             % (build, bpl, 6 * limit + 2, need, stack[build], worst_span))
    ctx.cov["stack"] = stack_report
    # ---- CLI
    cli_fail = cli_check(ctx, limit, cpy, model)
    # ---- verdict
    ctx.cov["traces_validated_against_impl"] = len(mres)
    ctx.cov["disagreements"] = len(disagreements)
    known = {k["class"]: k for k in json.load(open(os.path.join(VERIF, "known", "C09.json"))) if k.get("status") == "finding"}
    for i, what in known_hit.items():
        if "Known_indent" in known:
            e = known["Known_indent"]
            ctx.known_finding(e, "%s [witness still reproduces: %s -> %s]" % (e["what"], cases[i].kind + " %d deep" % cases[i].nest, what))
        break
    for i, what in chain_hit.items():
        if "Known_chain" in known:
            e = known["Known_chain"]
            ctx.known_finding(e, "%s [witness still reproduces: chain of %d operations -> %s]" % (e["what"], cases[i].chain, what))
        break
    if "Known_indent" in known and not known_hit:
        ctx.notes.append("NOTE stale-known-finding: blocks indented beyond 100 columns are no longer rejected")
    if "Known_chain" in known and not chain_hit:
        ctx.notes.append("NOTE stale-known-finding: a chain of 3000 operations no longer crashes the desugarer")
    reported = confirmed = 0
    seen = set()
    for i, build, what in failures:
        c = cases[i]
        key = (c.kind, what[:60])
        if key in seen or reported >= 4:
            continue
        seen.add(key)
        # confirm on its own (a loaded machine can make one answer in a long batch late)
        r0 = Runner(ctx, build == "release", stack[build]).run([c.text])[0]
        e0, k0, what0 = ending(r0)
        if judge_all(model, [(c.nest, c.cols, e0, k0, c.chain)])[0][0]:
            ctx.notes.append("not reproduced when run alone (%s build, %s): %s -> %s" % (build, c.kind, what, what0))
            continue
        reported += 1
        confirmed += 1
        small = shrink_text(ctx, c, build, stack, model)
        r = Runner(ctx, build == "release", stack[build]).run([small])[0]
        ctx.violation("failing-input", "parsing this text in the %s build: %s" % (build, ending(r)[2]),
                      case={"text": small, "kind": c.kind, "nest": c.nest, "chain": c.chain, "build": build, "from": c.sample},
                      impl=r[:9] if isinstance(r, list) else r, model=mres.get(i), judge={"verdict": False, "observation": ending(r)[2]})
    for f in cli_fail[:2]:
        ctx.violation("failing-input", f["what"], case=f["case"], impl=f["impl"], judge={"verdict": False})
    if not confirmed and not cli_fail and (disagreements or tie_notes or not proof.ok):
        what = []
        if not proof.ok:
            what.append("theorem(s) no longer check: " + proof.summary())
        what += tie_notes
        if disagreements:
            what.append("%d texts on which model and parser differ; first: %s" % (len(disagreements), disagreements[0][1]))
        first = None
        if disagreements:
            i = disagreements[0][0]
            first = {"text": cases[i].text if len(cases[i].text) < 4000 else cases[i].text[:4000] + "...", "kind": cases[i].kind,
                     "impl_debug": runs["debug"][i][:9], "model": mres.get(i)}
        ctx.violation("broken-theorem" if (not proof.ok and not disagreements and not tie_notes) else "broken-correspondence",
                      "; ".join(what), case=first, theorem=proof.summary() or None, no_input=True)


def shrink_text(ctx, c, build, stack, model):
    """smallest text (list of lines, then characters) that still fails the judge"""
    r = Runner(ctx, build == "release", stack[build])
    hang = ending(r.run([c.text])[0])[0] == 3
    lim = 5 if hang else None          # a candidate that needs more than 5 s while the original hangs still counts as failing

    def fails(text):
        e, k, _ = ending(r.run([text], lim)[0])
        return not judge_all(model, [(c.nest if text == c.text else None, 0, e, k, 0)])[0][0]
    if c.nest is not None or c.chain or len(c.text) > 20000:
        return c.text
    lines = c.text.split("\n")
    if len(lines) > 2:
        lines = shrink_list(lines, lambda sub: fails("\n".join(sub)), budget=20 if hang else 60)
    text = "\n".join(lines)
    if len(text) <= 400:
        chars = shrink_list(list(text), lambda sub: fails("".join(sub)), budget=40 if hang else 150)
        text = "".join(chars)
    return text if fails(text) else c.text


def cli_check(ctx, limit, cpy, model):
    """erg --mode parse on nests: the exit status must not be a signal; <= 200 parses, > LIMIT is a syntax error"""
    fails = []
    # (the release build of the whole compiler takes half an hour here; the release parser is exercised in-process on a
    # thread of the release STACK_SIZE, which is what exec_new_thread gives the CLI)
    builds = [("debug", ctx.erg_bin())]
    tmp = os.path.join(CACHE, "tmp-c09")
    os.makedirs(tmp, exist_ok=True)
    kinds = ["paren", "call", "set", "lambda", "unary", "record", "dict", "interp", "kwarg"] if ctx.thorough else ["paren", "call", "record", "lambda"]
    depths = [1, 50, 100, 150, 200, 201, 300, 500, 1000]
    jobs = []
    for k in kinds:
        for n in depths:
            text = "x = " + (nest_text([k] * n) if k in OPEN else extra_text(k, n)[4:])
            p = os.path.join(tmp, "%s_%d.er" % (k, n))
            open(p, "w").write(text)
            jobs.append((k, n, p, text))
    for n in (10, 100):
        p = os.path.join(tmp, "lamblock_%d.er" % n)
        open(p, "w").write("f = " + lamblock_text(n))
        jobs.append(("lamblock", n, p, None))
    items, obs = [], []
    for bname, erg in builds:
        for k, n, p, text in jobs:
            rc, err = "timeout", ""
            for attempt in (1, 2):     # a loaded machine can make one run late: a time-out is confirmed by a second run
                try:
                    q = subprocess.run([erg, "--mode", "parse", p], env=dict(os.environ, **ctx.erg_env()), stdout=subprocess.PIPE,
                                       stderr=subprocess.PIPE, text=True, errors="replace", timeout=TIMEOUT * 3)
                    rc, err = q.returncode, q.stderr
                    break
                except subprocess.TimeoutExpired:
                    pass
            if rc == "timeout":
                e, nerr, what = 3, 0, "no answer within %d s" % (TIMEOUT * 3)
            elif rc < 0 or rc > 1 or "panicked" in err or "overflow" in err:
                e, nerr, what = 2, 0, "exit status %s: %s" % (rc, err.strip().splitlines()[-1][:200] if err.strip() else "")
            elif rc == 0:
                e, nerr, what = 0, 0, "exit 0"
            else:
                nerr = max(1, err.count("SyntaxError"))
                e, what = 1, "exit 1, %d SyntaxError" % nerr
            items.append((n, n if k == "lamblock" else 0, e, nerr))
            obs.append((bname, k, n, p, what))
            ctx.count("cli")
    for (ok, known, _), (bname, k, n, p, what), it in zip(judge_all(model, items), obs, items):
        ctx.case(["cli", bname, k, n], nontrivial=True)
        if not ok:
            fails.append({"what": "`erg --mode parse` (%s build) on %d nested %s: %s" % (bname, n, k, what),
                          "case": {"cli": "erg --mode parse <file>", "build": bname, "kind": k, "nest": n,
                                   "text": open(p).read() if n <= 300 else "(%d nested %s; regenerate with checks/c09.py nest_text/extra_text)" % (n, k)},
                          "impl": what})
    ctx.cov["cli_runs"] = len(items)
    return fails


def replay(ctx, path):
    r = json.load(open(path))
    c = r.get("case") or {}
    limit, stack = read_consts(ctx)
    model = ctx.model("ParseDepth")
    if "cli" in c:
        erg = ctx.erg_bin(release=(c.get("build") == "release"))
        text = c["text"]
        if text.startswith("("):
            k, n = c["kind"], c["nest"]
            text = "x = " + (nest_text([k] * n) if k in OPEN else extra_text(k, n)[4:])
        p = os.path.join(CACHE, "tmp-c09-replay.er")
        open(p, "w").write(text)
        q = subprocess.run([erg, "--mode", "parse", p], env=dict(os.environ, **ctx.erg_env()), stdout=subprocess.PIPE, stderr=subprocess.PIPE, text=True, errors="replace")
        print("exit status:", q.returncode)
        print(q.stderr[-1500:])
        bad = q.returncode < 0 or q.returncode > 1 or "panicked" in q.stderr
        if bad:
            ctx.violation("failing-input", "erg --mode parse: exit status %s" % q.returncode, case=c, impl=q.stderr[-500:])
        return
    if "text" not in c:
        print("no input in this replay file:", r.get("what"))
        return
    for build in ([c["build"]] if c.get("build") else ["debug", "release"]):
        res = Runner(ctx, build == "release", stack[build]).run([c["text"]])[0]
        e, k, what = ending(res)
        print("%s build: %s" % (build, what))
        if in_alphabet(res):
            print("model:", model.run([[0, res[9]]])[0], "(result errors frames depth); implementation:", (res[0], res[1], res[4], res[5]))
        ok, known, _ = judge_all(model, [(c.get("nest"), 0, e, k, c.get("chain", 0))])[0]
        print("judge:", ok)
        if not ok:
            ctx.violation("failing-input", what, case=c, impl=res[:9] if isinstance(res, list) else res, judge={"verdict": False})
