"""Small structural reader for Rust sources, used by the C16 translators (checks/c16.py).

 * tokenize(src)            comments/strings/chars/lifetimes removed, tokens with line numbers
 * parse_u8_enum(src, name) variants of `impl_u8_enum! {Name; A = 1, ...}` / `pub enum Name { A = 1, ... }`
 * EmitAnalysis(src, ...)   which `OpcodeXXX::NAME` / `CommonOpcode::NAME` / bare `NAME` (glob-imported CommonOpcode)
                            identifiers of codegen.rs are reachable for which target minor version: every mention is
                            attributed to the set of versions allowed by the enclosing `if self.py_version.minor OP Some(N)`,
                            `match self.py_version.minor { Some(..) => .. }` branches, match-arm guards and early returns,
                            intersected with the versions under which the enclosing function can be called (fixpoint over the
                            intra-file call graph; `pub` functions and functions nobody mentions are entry points = all versions).
                            Anything the reader does not understand is attributed to ALL versions (conservative: a superset).
Everything that does not have the expected shape raises TieBroken.
"""
import re
from lib.vplib import TieBroken

ALL = frozenset([7, 8, 9, 10, 11])


class Tok:
    __slots__ = ("s", "line")

    def __init__(self, s, line):
        self.s = s
        self.line = line

    def __repr__(self):
        return self.s


_PUNCT3 = ("..=", "<<=", ">>=", "...")
_PUNCT2 = ("::", "=>", "->", ">=", "<=", "==", "!=", "&&", "||", "..", "+=", "-=", "*=", "/=", "|=", "&=", "^=", "<<", ">>")


def tokenize(src):
    toks = []
    i, n, line = 0, len(src), 1
    while i < n:
        c = src[i]
        if c == "\n":
            line += 1
            i += 1
        elif c.isspace():
            i += 1
        elif src.startswith("//", i):
            j = src.find("\n", i)
            i = n if j < 0 else j
        elif src.startswith("/*", i):
            depth, i = 1, i + 2
            while i < n and depth:
                if src.startswith("/*", i):
                    depth += 1
                    i += 2
                elif src.startswith("*/", i):
                    depth -= 1
                    i += 2
                else:
                    if src[i] == "\n":
                        line += 1
                    i += 1
        elif c == '"' or (c in "rb" and re.match(r'(?:b?r#*"|b")', src[i:i + 6])):
            m = re.match(r'b?r(#*)"', src[i:i + 8])
            if m:
                close = '"' + m.group(1)
                j = src.find(close, i + len(m.group(0)))
                if j < 0:
                    raise TieBroken("unterminated raw string at line %d" % line)
                line += src.count("\n", i, j)
                i = j + len(close)
            else:
                j = i + (2 if c == "b" else 1)
                while j < n and src[j] != '"':
                    if src[j] == "\\":
                        j += 1
                    if src[j] == "\n":
                        line += 1
                    j += 1
                i = j + 1
            toks.append(Tok('"str"', line))
        elif c == "'":
            m = re.match(r"'(?:\\(?:u\{[0-9a-fA-F_]+\}|x[0-9a-fA-F]{2}|.)|[^\\'])'", src[i:i + 14])
            if m:
                toks.append(Tok("'c'", line))
                i += len(m.group(0))
            else:  # lifetime
                m = re.match(r"'[A-Za-z_][A-Za-z0-9_]*", src[i:])
                if not m:
                    raise TieBroken("cannot tokenize quote at line %d" % line)
                i += len(m.group(0))
        elif c.isalpha() or c == "_":
            m = re.match(r"[A-Za-z_][A-Za-z0-9_]*", src[i:])
            toks.append(Tok(m.group(0), line))
            i += len(m.group(0))
        elif c.isdigit():
            m = re.match(r"0x[0-9a-fA-F_]+|0b[01_]+|0o[0-7_]+|[0-9][0-9_]*(?:\.[0-9][0-9_]*)?(?:[eE][+-]?[0-9]+)?", src[i:])
            j = i + len(m.group(0))
            m2 = re.match(r"[A-Za-z_][A-Za-z0-9_]*", src[j:])   # type suffix
            if m2:
                j += len(m2.group(0))
            toks.append(Tok(m.group(0), line))
            i = j
        else:
            for p in _PUNCT3 + _PUNCT2:
                if src.startswith(p, i):
                    toks.append(Tok(p, line))
                    i += len(p)
                    break
            else:
                toks.append(Tok(c, line))
                i += 1
    return toks


def strip_comments(src):
    out = []
    i, n = 0, len(src)
    while i < n:
        if src.startswith("//", i):
            j = src.find("\n", i)
            i = n if j < 0 else j
        elif src.startswith("/*", i):
            j = src.find("*/", i)
            if j < 0:
                raise TieBroken("unterminated comment")
            out.append("\n" * src.count("\n", i, j))
            i = j + 2
        else:
            out.append(src[i])
            i += 1
    return "".join(out)


def parse_u8_enum(src, name):
    """[(variant, number)] of `impl_u8_enum! {name; V = n, ...}` or `pub enum name { V = n, ... }`"""
    s = strip_comments(src)
    m = re.search(r"impl_u8_enum!\s*\{\s*%s\s*;" % re.escape(name), s) or re.search(r"pub\s+enum\s+%s\s*\{" % re.escape(name), s)
    if not m:
        raise TieBroken("enum %s not found" % name)
    j = s.find("}", m.end())
    if j < 0:
        raise TieBroken("enum %s: no closing brace" % name)
    body = s[m.end():j]
    rows = []
    for ent in body.split(","):
        ent = ent.strip()
        if not ent:
            continue
        mm = re.fullmatch(r"([A-Za-z_][A-Za-z0-9_]*)\s*=\s*(0x[0-9a-fA-F]+|\d+)", ent)
        if not mm:
            raise TieBroken("enum %s: cannot read variant %r" % (name, ent[:60]))
        v = int(mm.group(2), 0)
        if not 0 <= v <= 255:
            raise TieBroken("enum %s: %s = %d is not a u8" % (name, mm.group(1), v))
        rows.append((mm.group(1), v))
    if len(rows) < 5:
        raise TieBroken("enum %s: only %d variants read" % (name, len(rows)))
    if len(set(n for n, _ in rows)) != len(rows):
        raise TieBroken("enum %s: duplicate variant name" % name)
    return rows


# --------------------------------------------------------------------------- version-branch analysis
ENUMS = {"CommonOpcode": 0, "Opcode308": 8, "Opcode309": 9, "Opcode310": 10, "Opcode311": 11}
_OPEN = {"(": ")", "[": "]", "{": "}"}
_CLOSE = {")", "]", "}"}


_CLOSE_CACHE = {}


def _closes(toks):
    """close_of[i] = index of the bracket closing the one opened at i (computed once per token list)"""
    key = id(toks)
    hit = _CLOSE_CACHE.get(key)
    if hit is not None and hit[0] is toks:
        return hit[1]
    close_of = {}
    stack = []
    for j, t in enumerate(toks):
        s = t.s
        if s in _OPEN:
            stack.append(j)
        elif s in _CLOSE:
            if not stack:
                raise TieBroken("unbalanced closing bracket at line %d" % t.line)
            close_of[stack.pop()] = j
    if stack:
        raise TieBroken("unbalanced bracket opened at line %d" % toks[stack[-1]].line)
    _CLOSE_CACHE.clear()
    _CLOSE_CACHE[key] = (toks, close_of)
    return close_of


def _match_close(toks, i):
    """index of the token closing the bracket opened at toks[i]"""
    return _closes(toks)[i]


def _find_at_depth0(toks, i, end, what):
    """first index in [i,end) of a token in `what` outside any bracket"""
    close_of = _closes(toks)
    j = i
    while j < end:
        s = toks[j].s
        if s in what:
            return j
        if s in _OPEN:
            j = close_of[j] + 1
        else:
            j += 1
    return -1


_VER = ["self", ".", "py_version", ".", "minor"]


def _cmp_set(op, n):
    f = {">=": lambda v: v >= n, "<=": lambda v: v <= n, ">": lambda v: v > n, "<": lambda v: v < n,
         "==": lambda v: v == n, "!=": lambda v: v != n}[op]
    return frozenset(v for v in ALL if f(v))


def cond_set(ts):
    """(sat, pure): versions for which the condition can hold; pure = the condition is exactly one version test
    (so its negation is the complement). Unknown conditions -> (ALL, False)."""
    strs = [t.s for t in ts]
    parts, cur, depth = [], [], 0
    for s in strs:
        if s in _OPEN:
            depth += 1
        elif s in _CLOSE:
            depth -= 1
        if depth == 0 and s == "&&":
            parts.append(cur)
            cur = []
        else:
            cur.append(s)
    parts.append(cur)
    if any("||" in p for p in parts) and len(parts) > 1:
        return ALL, False
    sat = ALL
    known = 0
    for p in parts:
        if len(p) == 10 and p[:5] == _VER and p[5] in (">=", "<=", ">", "<", "==", "!=") and p[6:8] == ["Some", "("] \
                and p[8].isdigit() and p[9] == ")":
            sat = sat & _cmp_set(p[5], int(p[8]))
            known += 1
        elif "py_version" in p:
            return ALL, False     # a version test of a shape we do not read: no information
    return sat, (known == 1 and len(parts) == 1)


def pat_set(strs):
    """versions matched by a pattern over Option<u8>: Some(11), Some(7..=10), Some(11 | 10), Some(7) | Some(8), _, None"""
    if strs == ["_"]:
        return ALL
    if strs == ["None"]:
        return frozenset()
    out = set()
    i = 0
    while i < len(strs):
        if strs[i] == "|":
            i += 1
            continue
        if strs[i] == "Some" and i + 1 < len(strs) and strs[i + 1] == "(":
            j = i + 2
            inner = []
            while j < len(strs) and strs[j] != ")":
                inner.append(strs[j])
                j += 1
            if j >= len(strs):
                return None
            k = 0
            while k < len(inner):
                if inner[k] == "|":
                    k += 1
                elif inner[k].isdigit() and k + 2 < len(inner) and inner[k + 1] == "..=" and inner[k + 2].isdigit():
                    out.update(range(int(inner[k]), int(inner[k + 2]) + 1))
                    k += 3
                elif inner[k].isdigit():
                    out.add(int(inner[k]))
                    k += 1
                else:
                    return None
            i = j + 1
        else:
            return None
    return frozenset(out) & ALL


def _diverges(toks, i, end):
    """does the block toks[i:end] (contents, without braces) end in return / todo! / unreachable! / panic! ?"""
    last_start = i
    depth = 0
    j = i
    while j < end:
        s = toks[j].s
        if s in _OPEN:
            depth += 1
        elif s in _CLOSE:
            depth -= 1
        elif depth == 0 and s == ";" and j + 1 < end:
            last_start = j + 1
        j += 1
    if last_start >= end:
        return False
    s = toks[last_start].s
    if s == "return":
        return True
    return s in ("todo", "unreachable", "panic", "unimplemented") and last_start + 1 < end and toks[last_start + 1].s == "!"


class EmitAnalysis:
    def __init__(self, src, common_names, enum_names):
        """enum_names: {enum identifier: set of variant names}"""
        self.toks = tokenize(src)
        self.common = set(common_names)
        self.enum_names = enum_names
        toks = self.toks
        strs = [t.s for t in toks]
        self.glob_common = False
        for i in range(len(strs) - 4):
            if strs[i] == "use" and strs[i + 2] == "::" and strs[i + 3] == "*":
                if strs[i + 1] == "CommonOpcode":
                    self.glob_common = True
                elif strs[i + 1] in ENUMS:
                    raise TieBroken("codegen.rs glob-imports %s: the emitted-opcode reader cannot attribute bare names" % strs[i + 1])
        # ---- functions
        self.fns = {}        # name -> list of (body_start, body_end, is_pub)
        covered = []
        i = 0
        while i < len(toks):
            if strs[i] == "fn" and i + 1 < len(toks) and re.match(r"[A-Za-z_]", strs[i + 1]):
                name = strs[i + 1]
                j = _find_at_depth0(toks, i + 2, len(toks), ("{", ";"))
                if j < 0:
                    raise TieBroken("fn %s: no body" % name)
                if strs[j] == "{":
                    e = _match_close(toks, j)
                    back = strs[max(0, i - 6):i]
                    is_pub = "pub" in back and all(b in ("pub", "(", ")", "crate", "super", "const", "unsafe", "async", "in", "self") for b in back[back.index("pub"):])
                    self.fns.setdefault(name, []).append((j + 1, e, is_pub))
                    covered.append((j + 1, e))
                    i = j + 1      # nested fns are found as the scan continues inside
                    continue
            i += 1
        if len(self.fns) < 20:
            raise TieBroken("codegen.rs: only %d functions found" % len(self.fns))
        self.mentions = []   # (fn or None, enum_id, name, relset, line)
        self.calls = []      # (caller fn or None, callee, relset)
        inside = [False] * len(toks)
        for a, b in covered:
            for k in range(a, b):
                inside[k] = True
        # tokens outside every function body: all versions
        k = 0
        while k < len(toks):
            if not inside[k]:
                self._note(None, k, ALL)
            k += 1
        nested = set()
        for name, bodies in self.fns.items():
            for a, b, _ in bodies:
                for name2, bodies2 in self.fns.items():
                    for a2, b2, _ in bodies2:
                        if a < a2 and b2 <= b:
                            nested.add((a2, b2))
        self.nested = nested
        for name, bodies in self.fns.items():
            for a, b, _ in bodies:
                self.cur = name
                self._walk(a, b, ALL)
        # ---- entry sets by fixpoint
        mentioned = set(c[1] for c in self.calls)
        self.entry = {}
        for name, bodies in self.fns.items():
            self.entry[name] = ALL if (any(p for _, _, p in bodies) or name not in mentioned) else frozenset()
        changed = True
        rounds = 0
        while changed:
            changed = False
            rounds += 1
            for caller, callee, rel in self.calls:
                base = ALL if caller is None else self.entry[caller]
                add = base & rel
                if not add <= self.entry[callee]:
                    self.entry[callee] = self.entry[callee] | add
                    changed = True
            if rounds > 1000:
                raise TieBroken("call-graph fixpoint does not converge")

    # one token: opcode mention / function mention
    def _note(self, fn, k, vs):
        toks = self.toks
        s = toks[k].s
        prev = toks[k - 1].s if k > 0 else ""
        nxt = toks[k + 1].s if k + 1 < len(toks) else ""
        if s in ENUMS and nxt == "::" and k + 2 < len(toks):
            v = toks[k + 2].s
            if v in self.enum_names[s]:
                self.mentions.append((fn, ENUMS[s], v, vs, toks[k].line))
            elif re.fullmatch(r"[A-Z][A-Z0-9_]*", v):
                raise TieBroken("codegen.rs line %d mentions %s::%s which is not a variant of the table" % (toks[k].line, s, v))
        elif self.glob_common and s in self.common and prev not in ("::", ".") and nxt != "::":
            self.mentions.append((fn, 0, s, vs, toks[k].line))
        elif s in self.fns and prev != "fn":
            self.calls.append((fn, s, vs))

    def _walk(self, i, end, vs):
        """scan toks[i:end) as a statement sequence under version set vs; returns nothing"""
        toks = self.toks
        while i < end:
            s = toks[i].s
            if s == "if":
                i, vs = self._if(i, end, vs)
            elif s == "match":
                i = self._match(i, end, vs)
            elif s in _OPEN:
                e = _match_close(toks, i)
                if (i + 1, e) in self.nested:
                    pass        # body of a nested fn: walked on its own
                else:
                    self._walk(i + 1, e, vs)
                i = e + 1
            else:
                self._note(self.cur, i, vs)
                i += 1

    def _if(self, i, end, vs):
        """toks[i] == 'if'; returns (index after the whole if/else chain, version set for the rest of the enclosing block)"""
        toks = self.toks
        rest = vs          # versions that can still reach the next branch of the chain
        after = vs         # versions that can fall out of the chain
        fall = frozenset()
        all_pure = True
        while True:
            b = _find_at_depth0(toks, i + 1, end, ("{",))
            if b < 0:
                # `if` without a block (macro fragment?): just scan
                self._note(self.cur, i, vs)
                return i + 1, vs
            cond = toks[i + 1:b]
            self._walk(i + 1, b, rest)          # calls/mentions inside the condition
            sat, pure = cond_set(cond)
            e = _match_close(toks, b)
            then_vs = rest & sat
            self._walk(b + 1, e, then_vs)
            if not _diverges(toks, b + 1, e):
                fall = fall | then_vs
            if pure:
                rest = rest - sat
            else:
                all_pure = False
            i = e + 1
            if i < end and toks[i].s == "else":
                if i + 1 < end and toks[i + 1].s == "if":
                    i += 1
                    continue
                if i + 1 < end and toks[i + 1].s == "{":
                    e2 = _match_close(toks, i + 1)
                    self._walk(i + 2, e2, rest)
                    if not _diverges(toks, i + 2, e2):
                        fall = fall | rest
                    i = e2 + 1
                    return i, (fall if all_pure else vs)
                return i + 1, vs
            # no else: the chain falls through for the versions no branch took
            fall = fall | rest
            return i, (fall if all_pure else vs)

    def _match(self, i, end, vs):
        toks = self.toks
        b = _find_at_depth0(toks, i + 1, end, ("{",))
        if b < 0:
            self._note(self.cur, i, vs)
            return i + 1
        scrut = [t.s for t in toks[i + 1:b]]
        self._walk(i + 1, b, vs)
        e = _match_close(toks, b)
        on_version = scrut == _VER
        taken = frozenset()
        k = b + 1
        while k < e:
            arrow = _find_at_depth0(toks, k, e, ("=>",))
            if arrow < 0:
                self._walk(k, e, vs)
                break
            pat = toks[k:arrow]
            g = _find_at_depth0(toks, k, arrow, ("if",))
            guard_sat = ALL
            if g >= 0:
                guard_sat, _ = cond_set(toks[g + 1:arrow])
                self._walk(g + 1, arrow, vs)
                pat = toks[k:g]
            arm_vs = vs & guard_sat
            if on_version:
                ps = pat_set([t.s for t in pat])
                if ps is not None:
                    arm_vs = arm_vs & (ps - taken)
                    if g < 0:
                        taken = taken | ps
            else:
                for q in range(k, (g if g >= 0 else arrow)):
                    self._note(self.cur, q, vs)
            # arm body
            if arrow + 1 < e and toks[arrow + 1].s == "{":
                e2 = _match_close(toks, arrow + 1)
                self._walk(arrow + 2, e2, arm_vs)
                k = e2 + 1
                if k < e and toks[k].s == ",":
                    k += 1
            else:
                c = _find_at_depth0(toks, arrow + 1, e, (",",))
                stop = e if c < 0 else c
                self._walk(arrow + 1, stop, arm_vs)
                k = stop + 1
        return e + 1

    # ---- results
    def sites(self):
        """{(minor, enum_id, name): [lines]} of all mentions reachable for minor"""
        out = {}
        for fn, e, name, rel, line in self.mentions:
            vs = rel if fn is None else (self.entry[fn] & rel)
            for v in vs:
                out.setdefault((v, e, name), []).append(line)
        return out
