"""C04 — compile-time evaluation agrees with run time and never crashes.

proof:          coq/ConstEval/Props_C04.v over coq/ConstEval/Model.v (transcription of ValueObj::try_* in
                crates/erg_compiler/ty/value.rs and Context::eval_bin / eval_unary_val in context/eval.rs; machine
                integers with debug-panic / release-wrap, floats as Coq's IEEE-754 specification spec_float)
correspondence: the same (op, operands) through the real functions (harness ergv-consteval, debug AND release
                build; hook verif_eval_bin for the private evaluator) and through the extracted model
judge:          coq/ConstEval/Spec.v (extracted): Python semantics on unbounded Z / binary64; a crash or a folded
                value different from the run-time value violates the property, "not evaluated" does not
also:           the Python semantics of Spec.v is itself compared with CPython on every run; an end-to-end subset
                goes through the erg CLI (`N = e` / `x: {V} = N` accepted exactly for the run-time value V,
                `print! e` run under Python)
"""
import math
import struct
import tempfile
from concurrent.futures import ThreadPoolExecutor

from lib.vplib import *

REGISTRY = dict(
    category="proof",
    text="Coq model of the constant evaluator on Int/Nat/Float/Bool values (coq/ConstEval/Model.v: ValueObj::try_*, "
         "eval_bin, eval_unary_val; i32/u64/i128 arithmetic with debug-panic/release-wrap explicit; floats as Coq's IEEE-754 "
         "specification spec_float) with theorems fold_total/unary_total (no operand panics, either build), fold_agrees_int "
         "(integer/bool fragment, all operators: a folded value is the Python value), fold_agrees_partial (also + - * / // % with "
         "a Float operand and Float comparisons; guarded by Known_C04 and By_correspondence_C04), unary_agrees, fold_in_range, "
         "judge_sound; tied to the Rust code by correspondence under a debug and a release harness build and an end-to-end "
         "subset through the erg CLI; Python semantics (coq/ConstEval/Spec.v, extracted) is the judge and is itself checked "
         "against CPython on every run.",
    note="Trusted: Coq kernel, extraction (ExtrOcamlBasic) + generic OCaml driver, harness/consteval, IEEE-754 conformance of "
         "f64 and CPython float (spec_float is their specification). Float `**` (libm pow/powi) is outside the model: known "
         "finding C04-float-pow, class Known_C04. Values other than Int/Nat/Float/Bool (Str, Inf, containers, types) are out of scope.",
    technique="Coq proof over hand model + correspondence (extracted model vs ValueObj::try_*/eval_bin, debug+release) + extracted Python-semantics judge + CLI end-to-end subset",
    design="DESIGN.md §4 C04")

BINOPS = ["+", "-", "*", "/", "//", "**", "%", ">", ">=", "<", "<=", "==", "!=", "and", "or", "&&", "||", "^^", "<<", ">>"]
UNOPS = ["+", "-", "~", "not"]
DIRECT_OPS = list(range(13)) + [14]           # try_add .. try_ne, try_or
BINARY_OPS = [0, 1, 2, 3, 7, 8, 9, 10, 11, 12]  # ValueObj::try_binary
NAN_BITS = 0x7ff8000000000000
NOFIX = os.environ.get("C04_NOFIX") == "1"    # compare with the model of the code before the repairs (Regress.v)

I32 = (-2**31, 2**31 - 1)
U64 = (0, 2**64 - 1)
INT_POOL = [0, 1, -1, 2, -2, 3, -3, 5, 7, -7, 10, 31, 32, 33, 63, 64, 65, 127, 128, 255, 256, 65535, 65536, 46340, 46341,
            2**31 - 2, 2**31 - 1, 2**31, 2**31 + 1, 2**32 - 1, 2**32, 2**32 + 1, 3000000000, 2**53 - 1, 2**53, 2**53 + 1,
            2**53 + 2, 2**63 - 1, 2**63, 2**63 + 1, 2**64 - 2, 2**64 - 1, 4294967296 * 3 + 1, 3037000499, 3037000500,
            -2**31, -2**31 + 1, -2**31 + 2, -46340, -46341, -65536]
FLOAT_POOL = [0.0, -0.0, 1.0, -1.0, 0.5, -0.5, 1.5, -1.5, 0.1, 0.2, 0.3, -0.1, 2.0, -2.0, 3.0, -3.0, 7.0, -7.0, 10.0, 0.25,
              1e308, -1e308, 5e-324, -5e-324, 2.2250738585072014e-308, 1.7976931348623157e308, float(2**31), float(2**32),
              float(2**53), float(2**53 + 2), float(2**63), float(2**64), 9007199254740993.0, 1e16, 1e19, 123456.789, 1e-5,
              float("inf"), float("-inf"), float("nan")]


def f2b(f):
    return NAN_BITS if f != f else struct.unpack("<Q", struct.pack("<d", f))[0]


def b2f(b):
    return struct.unpack("<d", struct.pack("<Q", b))[0]


def gen_int(rng, lo, hi):
    k = rng.random()
    if k < 0.45:
        v = rng.choice(INT_POOL)
    elif k < 0.6:
        v = rng.choice(INT_POOL) + rng.randint(-3, 3)
    elif k < 0.8:
        v = rng.randint(-40, 40)
    elif k < 0.9:
        v = rng.randint(-2**32, 2**32)
    else:
        v = rng.randint(lo, hi)
    if v < lo or v > hi:
        v = rng.choice([lo, hi, lo + 1, hi - 1, 0, 1]) if rng.random() < 0.5 else rng.randint(max(lo, -50), min(hi, 50))
    return v


def gen_float(rng):
    k = rng.random()
    if k < 0.5:
        return rng.choice(FLOAT_POOL)
    if k < 0.7:
        return rng.randint(-64, 64) / 8.0
    if k < 0.8:
        return float(gen_int(rng, -2**63, 2**64))
    if k < 0.9:
        return rng.uniform(-1000, 1000)
    return b2f(rng.getrandbits(64))


def gen_value(rng, kinds=(0, 1, 2, 3), w=(3, 4, 3, 1)):
    k = rng.choices(kinds, weights=w[:len(kinds)])[0]
    if k == 0:
        return [0, gen_int(rng, *I32)]
    if k == 1:
        return [1, gen_int(rng, *U64)]
    if k == 2:
        return [2, f2b(gen_float(rng))]
    return [3, rng.randint(0, 1)]


def gen_case(rng):
    """('b', api, op, a, b) or ('u', op, a)"""
    if rng.random() < 0.1:
        return ("u", rng.randrange(4), gen_value(rng, w=(3, 3, 2, 2)))
    api = rng.choices([0, 1, 2], weights=[5, 4, 1])[0]
    if api == 0:
        op = rng.choice(DIRECT_OPS)
    elif api == 2:
        op = rng.choice(BINARY_OPS + [4, 5, 6, 13])
    else:
        op = rng.choices(range(20), weights=[4] * 7 + [2] * 6 + [1] * 7)[0]
    if op in (13, 14, 15, 16, 17) and rng.random() < 0.6:
        a, b = [3, rng.randint(0, 1)], [3, rng.randint(0, 1)]
    elif op == 5:   # pow: small exponents most of the time so that something is folded
        a = gen_value(rng, (0, 1, 2), (3, 3, 1))
        b = [rng.choice([0, 1]), rng.randint(0, 70)] if rng.random() < 0.6 else gen_value(rng, (0, 1, 2), (3, 3, 1))
        if b[0] == 0 and rng.random() < 0.3:
            b = [0, -rng.randint(0, 5)]
    else:
        a, b = gen_value(rng), gen_value(rng)
        k = rng.random()
        if k < 0.12:   # equal operands, possibly of the other integer kind (comparisons, x - x, x // x)
            b = list(a)
            if b[0] in (0, 1) and rng.random() < 0.5:
                b = [rng.choice([0, 1]), max(0, a[1])] if a[1] <= I32[1] else [1, a[1]]
        elif k < 0.3:  # numerically neighbouring operands of different kinds (int vs its float conversion +- 1 ulp / +- 1)
            if a[0] in (0, 1):
                f = float(a[1])
                f = rng.choice([f, f, math.nextafter(f, math.inf), math.nextafter(f, -math.inf)])
                b = [2, f2b(f)]
            elif a[0] == 2:
                f = b2f(a[1])
                if f == f and abs(f) < 2.0**65:
                    n = int(f) + rng.choice([0, 0, 1, -1, 2])
                    b = [0, n] if I32[0] <= n <= I32[1] and rng.random() < 0.5 else [1, min(max(n, 0), U64[1])]
            if rng.random() < 0.5:
                a, b = b, a
    return ("b", api, op, a, b)


def exhaustive_small():
    vals = [[0, v] for v in (-2**31, -3, -2, -1, 0, 1, 2, 3, 2**31 - 1)] + \
           [[1, v] for v in (0, 1, 2, 3, 2**31, 2**53 + 1, 2**63, 2**64 - 1)] + \
           [[2, f2b(x)] for x in (0.0, -0.0, 1.0, -1.5, 0.1, 2.0**53, 2.0**63, 2.0**64, float("inf"), float("nan"))] + [[3, 0], [3, 1]]
    out = [("b", 1, op, a, b) for op in range(20) for a in vals for b in vals]
    out += [("b", 0, op, a, b) for op in DIRECT_OPS for a in vals for b in vals]
    out += [("u", op, a) for op in range(4) for a in vals]
    return out


def show_val(v):
    k, x = v
    if k == 0:
        return "Int(%d)" % x
    if k == 1:
        return "Nat(%d)" % x
    if k == 2:
        return "Float(%r)" % b2f(x)
    if k == 3:
        return "Bool(%s)" % bool(x)
    return "Float(<libm>)"


def show_case(c):
    if c[0] == "b":
        return "%s %s %s   [via %s]" % (show_val(c[3]), BINOPS[c[2]], show_val(c[4]),
                                        ["ValueObj::try_*", "Context::eval_bin", "ValueObj::try_binary"][c[1]])
    return "%s %s   [via Context::eval_unary_val]" % (UNOPS[c[1]], show_val(c[2]))


def show_res(r):
    if r[0] == 0:
        return "not evaluated"
    if r[0] == 1:
        return "= " + show_val(r[1])
    if r[0] == 2:
        return "= <object of another kind>"
    if r[0] == -997:
        return "process died (rc %s)" % r[1]
    return "PANIC" + (": " + sx_str(r[1]) if len(r) > 1 and isinstance(r[1], list) else "")


def show_py(p):
    if p[0] == 1:
        k, x = p[1]
        return repr(b2f(x)) if k == 2 else (str(bool(x)) if k == 3 else "%d" % x)
    if p[0] == 2:
        return "raises " + ["ZeroDivisionError", "TypeError", "OverflowError"][p[1]]
    return "an integer beyond 2**128" if p[0] == 4 else "(not modelled)"


def impl_case(c):
    return [0, c[1], c[2], c[3], c[4]] if c[0] == "b" else [1, c[1], c[2]]


def model_case(c, debug):
    m = 10 if NOFIX else 0
    return [m, int(debug), c[1], c[2], c[3], c[4]] if c[0] == "b" else [m + 1, int(debug), c[1], c[2]]


def judge_case(c, r):
    rr = [-999] if r[0] in (-999, -997) else r
    return [2, c[2], c[3], c[4], rr] if c[0] == "b" else [3, c[1], c[2], rr]


def canon_res(r):
    if r[0] in (-999, -997):
        return [-999]
    return r


def same_answer(impl, model):
    i, m = canon_res(impl), canon_res(model)
    if m[0] == 1 and m[1][0] == 4:      # model: a float from libm pow -> any Float answer corresponds
        return i[0] == 1 and i[1][0] == 2
    return i == m


# ------------------------------------------------------------------ CPython as a check of Spec.v
PY_ORACLE = r'''
import sys, json, struct, math
NAN = 0x7ff8000000000000
def b2f(b): return struct.unpack("<d", struct.pack("<Q", b))[0]
def f2b(f): return NAN if f != f else struct.unpack("<Q", struct.pack("<d", f))[0]
def val(v):
    k, x = v
    return int(x) if k in (0, 1) else b2f(x) if k == 2 else bool(x)
def enc(r):
    if isinstance(r, bool): return [1, [3, int(r)]]
    if isinstance(r, int): return [1, [0, r]]
    if isinstance(r, float): return [1, [2, f2b(r)]]
    return [5, repr(type(r))]
def ev(c):
    try:
        if c[0] == "u":
            a = val(c[2]); o = c[1]
            return enc(+a if o == 0 else -a if o == 1 else ~a if o == 2 else (not a))
        a, b, o = val(c[3]), val(c[4]), c[2]
        if o == 5:
            if isinstance(a, float) or isinstance(b, float) or b < 0:
                r = a ** b
                return enc(r) if not isinstance(r, complex) else [5, "complex"]
            if abs(a) >= 2 and b * math.log2(abs(a)) >= 200: return [4]
            r = a ** b
            return enc(r) if abs(r) < 2 ** 128 else [4]     # Spec.py_eval_x: XHuge from 2**128 on
        if o in (18, 19): return [3]
        f = [lambda: a + b, lambda: a - b, lambda: a * b, lambda: a / b, lambda: a // b, None, lambda: a % b,
             lambda: a > b, lambda: a >= b, lambda: a < b, lambda: a <= b, lambda: a == b, lambda: a != b,
             lambda: a & b, lambda: a | b, lambda: a & b, lambda: a | b, lambda: a ^ b][o]
        return enc(f())
    except ZeroDivisionError: return [2, 0]
    except TypeError: return [2, 1]
    except OverflowError: return [2, 2]
for line in sys.stdin:
    print(json.dumps(ev(json.loads(line))))
'''


def cpython_eval(cases, py=None):
    py = py or PY_VERSIONS["3.11"]
    p = sh([py, "-c", PY_ORACLE], inp="\n".join(json.dumps(list(c)) for c in cases) + "\n", timeout=600)
    if p.returncode != 0:
        raise FrameworkError("python oracle failed: " + p.stderr[-2000:])
    return [json.loads(l) for l in p.stdout.splitlines()]


def spec_case(c):
    return [4, c[2], c[3], c[4]] if c[0] == "b" else [5, c[1], c[2]]


# ------------------------------------------------------------------ end to end through the erg CLI
def lit(v):
    """erg source text of a literal, or None if it has none"""
    k, x = v
    if k in (0, 1):
        return str(x) if x >= 0 else "(%d)" % x
    if k == 3:
        return "True" if x else "False"
    f = b2f(x)
    if f != f or f in (float("inf"), float("-inf")):
        return None
    s = repr(f)
    if "e" in s or "E" in s:
        return None
    return s if f >= 0 and not s.startswith("-") else "(%s)" % s


E2E_BIN = [0, 1, 2, 3, 4, 5, 6, 7, 8, 9, 10, 11, 12]


def gen_e2e(rng):
    if rng.random() < 0.12:
        op = rng.randrange(4)
        a = [3, rng.randint(0, 1)] if op == 3 else gen_value(rng, (0, 1, 2, 3), (3, 3, 2, 1 if op == 2 else 0))
        return ("u", op, a)
    if rng.random() < 0.12:
        return ("b", 1, rng.choice([13, 14, 15, 16, 17, 11, 12]), [3, rng.randint(0, 1)], [3, rng.randint(0, 1)])
    op = rng.choice(E2E_BIN)
    c = gen_case(rng)
    while c[0] != "b" or c[3][0] == 3 or c[4][0] == 3:
        c = gen_case(rng)
    a, b = c[3], c[4]
    if op == 5:
        b = [1, rng.randint(0, 66)] if rng.random() < 0.8 else [0, -rng.randint(1, 3)]
    return ("b", 1, op, a, b)


def e2e_source(c):
    if c[0] == "u":
        a = lit(c[2])
        return None if a is None else "%s %s" % (UNOPS[c[1]], a) if c[1] == 3 else "%s%s" % (UNOPS[c[1]], a)
    a, b = lit(c[3]), lit(c[4])
    if a is None or b is None:
        return None
    return "%s %s %s" % (a, BINOPS[c[2]], b)


def strip_ansi(s):
    return re.sub(r"\x1b\[[0-9;]*m", "", s)


class ErgTimeout(Exception):
    pass


ERG_TIMEOUT = [120]


def run_erg(ctx, erg, mode, text, tmp, i):
    p = os.path.join(tmp, "c%d_%s.er" % (i, mode))
    with open(p, "w") as f:
        f.write(text)
    try:
        r = sh([erg, mode, p], env=ctx.erg_env(), timeout=ERG_TIMEOUT[0])
    except subprocess.TimeoutExpired:
        raise ErgTimeout()
    return r.returncode, strip_ansi(r.stdout + r.stderr)


def crashed(rc, out):
    return rc < 0 or rc in (101, 134, 139) or "panicked" in out or "RUST_BACKTRACE" in out or "stack overflow" in out


def e2e_one(ctx, erg, tmp, i, c, pyv):
    """pyv: python value of the expression per Spec.v (extracted): [1,[k,x]] | [2,e] | [3] | [4].
    returns dict(kind=..., detail=...) with kind in ok-folded | ok-not-folded | crash | wrong | skipped | timeout"""
    try:
        return e2e_one_(ctx, erg, tmp, i, c, pyv)
    except ErgTimeout:
        return {"kind": "timeout", "program": "N = %s" % e2e_source(c)}


def e2e_one_(ctx, erg, tmp, i, c, pyv):
    src = e2e_source(c)
    if src is None:
        return {"kind": "skipped"}
    rc, out = run_erg(ctx, erg, "check", "N = %s\n" % src, tmp, i)
    if crashed(rc, out):
        return {"kind": "crash", "program": "N = %s" % src, "output": out[-600:]}
    m = re.search(r"::N\(: \{(.*?)\}\)", out)
    if not m:
        return {"kind": "ok-not-folded", "program": "N = %s" % src}
    shown = m.group(1)
    if pyv[0] != 1:
        if pyv[0] in (3, 4):
            return {"kind": "skipped"}
        return {"kind": "wrong", "program": "N = %s" % src, "compile_time_type": "{%s}" % shown,
                "run_time": "raises " + ["ZeroDivisionError", "TypeError"][pyv[1]]}
    v = lit(pyv[1])
    if v is None:
        return {"kind": "skipped"}
    k, x = pyv[1]
    other = lit([k, x + 1]) if k in (0, 1) else lit([3, 1 - x]) if k == 3 else lit([2, f2b(b2f(x) + 1.0 if abs(b2f(x)) < 1e15 else b2f(x) * 2)])
    prog = "N = %s\nx: {%s} = N\ny: {%s} = N\n" % (src, v.strip("()"), (other or "12345").strip("()"))
    rc2, out2 = run_erg(ctx, erg, "check", prog, tmp, i)
    if crashed(rc2, out2):
        return {"kind": "crash", "program": prog, "output": out2[-600:]}
    err_lines = set(int(n) for n in re.findall(r"Error\[#\d+\]: File [^\n]*?, line (\d+)", out2))
    # run-time side: the same expression bound to a variable (not folded) and printed
    rc3, out3 = run_erg(ctx, erg, "run", "n = %s\nprint! n\n" % src, tmp, i)
    rt = out3.strip().splitlines()[-1].strip() if out3.strip() else ""
    res = {"program": prog, "compile_time_type": "{%s}" % shown, "python_value": v, "run_time_print": rt}
    # The compile-time value is the singleton type of N.  For Int/Nat/Bool it is printed exactly and must be the
    # run-time value; for Float (printed rounded) it is decided by acceptance of `x: {V} = N`.  That a different
    # singleton `y: {V'} = N` is rejected is only a sanity check of the observation and only used where singleton
    # subtyping itself is exact (it compares through f64: integers beyond 2**53 are C03's business, not C04's).
    exact_shown = str(x) if k in (0, 1) else ("True" if x else "False") if k == 3 else None
    if exact_shown is not None and shown != exact_shown:
        res["kind"] = "wrong"
        res["why"] = "N = %s has the compile-time type {%s}; the run-time value is %s" % (src, shown, v)
    elif 2 in err_lines:
        res["kind"] = "wrong"
        res["why"] = "`x: {%s} = N` is rejected although %s is the run-time value" % (v, v)
    elif other is not None and 3 not in err_lines and (k == 3 or (k in (0, 1) and abs(x) < 2**52)):
        res["kind"] = "wrong"
        res["why"] = "`y: {%s} = N` is accepted as well" % other
    else:
        res["kind"] = "ok-folded"
    return res


def run_e2e(ctx, model, n):
    erg = ctx.erg_bin()
    cases, seen = [], set()
    corpus = os.path.join(VERIF, "corpus", "C04")
    if os.path.isdir(corpus):
        for f in sorted(os.listdir(corpus)):
            j = json.load(open(os.path.join(corpus, f)))
            if j.get("e2e") and e2e_source(tuple(j["case"])) is not None:
                cases.append(tuple(j["case"]))
    while len(cases) < n:
        c = gen_e2e(ctx.rng)
        key = json.dumps(c)
        if key in seen or e2e_source(c) is None:
            continue
        seen.add(key)
        cases.append(c)
    pyvals = model.run([spec_case(c) for c in cases])
    tmp = tempfile.mkdtemp(prefix="c04-", dir=CACHE)
    try:
        with ThreadPoolExecutor(max_workers=12) as ex:
            results = list(ex.map(lambda t: e2e_one(ctx, erg, tmp, t[0], t[1][0], t[1][1]), enumerate(zip(cases, pyvals))))
        # a process that got no answer within the limit while 12 ran in parallel on a loaded machine is tried again
        # alone with a long limit; only then is it a hang
        ERG_TIMEOUT[0] = 900
        for j, r in enumerate(results):
            if r["kind"] == "timeout":
                ctx.count("e2e retried after timeout")
                r2 = e2e_one(ctx, erg, tmp, j, cases[j], pyvals[j])
                results[j] = r2 if r2["kind"] != "timeout" else {"kind": "crash", "program": r2["program"], "why": "no answer within 900 s (hang)", "output": "timeout"}
    finally:
        ERG_TIMEOUT[0] = 120
        shutil.rmtree(tmp, ignore_errors=True)
    bad = []
    for c, pv, r in zip(cases, pyvals, results):
        ctx.count("e2e " + r["kind"])
        if r["kind"] in ("ok-folded", "ok-not-folded"):
            ctx.case(["e2e"] + list(c), nontrivial=r["kind"] == "ok-folded",
                     sample={"program": r.get("program"), "compile_time_type": r.get("compile_time_type"), "python_value": r.get("python_value")})
        if r["kind"] == "ok-folded" and r.get("run_time_print") and r.get("python_value") is not None:
            if r["run_time_print"].strip("()") != r["python_value"].strip("()"):
                ctx.count("e2e run-time print differs from Spec (note only)")
                if len(ctx.notes) < 5:
                    ctx.notes.append("run-time print of `%s` is %r, Spec.v says %s" % (e2e_source(c), r["run_time_print"][:80], r["python_value"]))
        if r["kind"] in ("crash", "wrong"):
            bad.append((c, pv, r))
    return bad


# ------------------------------------------------------------------ the check
def make_harnesses(ctx):
    """debug build: overflow checks and debug assertions on; release build: both off (asked of the binaries themselves)"""
    hs = {"debug": Harness(ctx, "consteval"), "release": Harness(ctx, "consteval", release=True)}
    for b, want in (("debug", [1, 1]), ("release", [0, 0])):
        got = hs[b].run([[2]])[0]
        if got != want:
            raise FrameworkError("%s harness build reports (debug_assertions, overflow_checks) = %s, expected %s" % (b, got, want))
    ctx.cov["builds"] = {"debug": "debug_assertions + overflow checks on", "release": "both off (opt-level 0: see harness/consteval/Cargo.toml)"}
    return hs


def evaluate(ctx, cases, harnesses, model):
    """returns per case: dict(impl={build: res}, model={build: res}, judge={build: [verdict, pyval, known]})"""
    impl = {b: h.run([impl_case(c) for c in cases]) for b, h in harnesses.items()}
    mod = {b: model.run([model_case(c, b == "debug") for c in cases]) for b in harnesses}
    jud = {b: model.run([judge_case(c, r) for c, r in zip(cases, impl[b])]) for b in harnesses}
    return [{"impl": {b: impl[b][i] for b in harnesses}, "model": {b: mod[b][i] for b in harnesses},
             "judge": {b: jud[b][i] for b in harnesses}} for i in range(len(cases))]


def describe(c, e, b):
    return {"case": show_case(c), "build": b, "implementation": show_res(e["impl"][b]), "model": show_res(e["model"][b]),
            "python (Spec.v)": show_py(e["judge"][b][1])}


def load_corpus():
    out = []
    d = os.path.join(VERIF, "corpus", "C04")
    if os.path.isdir(d):
        for f in sorted(os.listdir(d)):
            out.append(tuple(json.load(open(os.path.join(d, f)))["case"]))
    return out


def run(ctx):
    ctx.cov["rule"] = ("(operator, operand pair) through ValueObj::try_<op> / Context::eval_bin / ValueObj::try_binary / eval_unary_val, "
                       "each under a debug and a release build; operands Int(i32), Nat(u64), Float(f64 bits), Bool drawn from a "
                       "boundary-heavy pool (0, +-1, 2^31+-1, 2^32, 2^53+-1, 2^63+-1, 2^64-1, signed zeros, inf, nan, subnormals) mixed with "
                       "small and uniformly random values, 18% numerically neighbouring operands of different kinds (an integer and its float conversion +-1 ulp), "
                       "ill-typed combinations (Bool with arithmetic, shifts) as the malformed stream; thorough adds all pairs over a 29-value boundary set for every operator; "
                       "plus programs `N = a op b` through the erg CLI. distinct = canonical (api, op, a, b); non-trivial = the "
                       "implementation folded the expression to a value (not `not evaluated`)")
    ctx.cov["trusted_base"] = ["Coq 8.16.1 kernel", "extraction (ExtrOcamlBasic only) + extract/driver.ml",
                               "harness/consteval/src/main.rs (calls the real functions; hook verif_eval_bin/verif_eval_unary in context/eval.rs)",
                               "IEEE-754 binary64 conformance of Rust f64 and CPython float (Coq's SpecFloat is the specification of both)",
                               "Rust `as` casts, checked_* and try_from semantics as transcribed in Model.v (validated by the correspondence, both builds)"]
    ctx.assumptions = ["only Int, Nat, Float, Bool operands (no Str, Inf/NegInf, containers, types)",
                       "float ** (f64::powf / powi, libm) is not modelled: known finding C04-float-pow (class Known_C04)",
                       "`and`/`or` are given their `&`/`|` meaning, which is the Python meaning on Bool, the only operands the checker admits",
                       "the CompilerSystemError diagnostic printed when a constant definition is not evaluated counts as 'reported as a diagnostic'"]
    proof = ctx.coq(["ConstEval/Props_C04.v"])
    harnesses = make_harnesses(ctx)
    model = ctx.model("ConstEval")

    cases = load_corpus()
    n_corpus = len(cases)
    seen = set(json.dumps(c) for c in cases)
    for _ in range(ctx.scale(6000, 150000)):
        c = gen_case(ctx.rng)
        k = json.dumps(c)
        if k not in seen:
            seen.add(k)
            cases.append(c)
    if ctx.thorough:
        ex = [c for c in exhaustive_small() if json.dumps(c) not in seen]
        ctx.cov["exhaustive_small_scope"] = "all operand pairs over a 29-value boundary set for every operator and API: %d cases" % len(ex)
        cases += ex
    ev = evaluate(ctx, cases, harnesses, model)

    # Spec.v against CPython
    sample = cases[:ctx.scale(3000, 40000)]
    spec = model.run([spec_case(c) for c in sample])
    real = cpython_eval(sample)
    spec_bad = []
    for c, s, r in zip(sample, spec, real):
        if s[0] == 3:
            continue          # not modelled (libm pow, shifts)
        if s != r:
            spec_bad.append({"case": show_case(c), "Spec.v": s, "CPython 3.11": r})
    ctx.cov["spec_vs_cpython"] = {"compared": len(sample), "disagreements": len(spec_bad)}

    corr_bad, judge_bad, known_hits = [], [], 0
    for c, e in zip(cases, ev):
        folded = any(e["impl"][b][0] == 1 for b in e["impl"])
        ctx.case(list(c), nontrivial=folded, sample=show_case(c) + "  ->  " + show_res(e["impl"]["debug"]))
        ctx.count(("binary " + BINOPS[c[2]]) if c[0] == "b" else ("unary " + UNOPS[c[1]]))
        for b in e["impl"]:
            r = e["impl"][b]
            ctx.count("%s: %s" % (b, "panic" if r[0] in (-999, -997) else "not evaluated" if r[0] == 0 else "folded"))
            verdict, pyv, known = e["judge"][b]
            if verdict == 0:
                judge_bad.append((c, e, b))
            elif verdict == 2:
                known_hits += 1
            if not same_answer(r, e["model"][b]):
                corr_bad.append((c, e, b))
    ctx.cov["traces_validated_against_impl"] = len(cases) * 2
    # the known class (float **): not decided by Spec.v; compared with CPython for the record only
    kc = [c for c, e in zip(cases, ev) if e["judge"]["debug"][0] == 2]
    kpy = cpython_eval(kc) if kc else []
    kdiff = sum(1 for c, p, e in zip(kc, kpy, [e for e in ev if e["judge"]["debug"][0] == 2]) if canon_res(e["impl"]["debug"]) != p)
    ctx.cov["known_class_float_pow"] = {"cases": len(kc), "folded_value_differs_from_CPython": kdiff}

    # end to end
    e2e_bad = run_e2e(ctx, model, ctx.scale(120, 600)) if not NOFIX else []

    # known finding: float ** through libm
    for k in ctx.known():
        w = tuple(k["witness"]["case"])
        r = harnesses["debug"].run([impl_case(w)])[0]
        py = cpython_eval([w])[0]
        if r[0] == 1 and py != r:
            ctx.known_finding(k)
        else:
            ctx.notes.append("stale-known-finding %s: witness no longer reproduces (impl %s, CPython %s)" % (k["id"], r, py))
            print("NOTE stale-known-finding property=C04 %s" % k["id"])

    # ---- verdict
    reported = 0
    for c, e, b in judge_bad[:200]:
        if reported >= 3:
            break
        reported += 1
        ctx.violation("failing-input",
                      "constant evaluation of %s (%s build): %s; run time: %s" % (show_case(c), b, show_res(e["impl"][b]), show_py(e["judge"][b][1])),
                      case={"case": list(c), "readable": show_case(c), "build": b}, impl=show_res(e["impl"][b]),
                      model=show_res(e["model"][b]), judge={"verdict": e["judge"][b][0], "python_value": e["judge"][b][1]})
    for c, pv, r in e2e_bad[:3 - min(reported, 3)]:
        reported += 1
        ctx.violation("failing-input", "erg CLI: %s" % (r.get("why") or r["kind"]), case={"case": list(c), "program": r.get("program"), "e2e": True},
                      impl=r, judge={"python_value": pv})
    if reported == 0 and (corr_bad or spec_bad or not proof.ok):
        what = []
        if not proof.ok:
            what.append("theorem(s) no longer check: " + proof.summary())
        if corr_bad:
            what.append("%d cases on which the model and the implementation differ (none violates the property by the judge)" % len(corr_bad))
        if spec_bad:
            what.append("%d cases on which Spec.v differs from CPython" % len(spec_bad))
        first = describe(*corr_bad[0]) if corr_bad else (spec_bad[0] if spec_bad else None)
        ctx.violation("broken-correspondence" if (corr_bad or spec_bad) else "broken-theorem", "; ".join(what), case=first,
                      theorem=proof.summary() or None, no_input=True)
    ctx.cov["disagreements"] = {"correspondence": len(corr_bad), "judge": len(judge_bad), "e2e": len(e2e_bad), "spec_vs_cpython": len(spec_bad)}
    if corr_bad:
        ctx.cov["first_correspondence_disagreements"] = [describe(*x) for x in corr_bad[:5]]


def replay(ctx, path):
    r = json.load(open(path))
    case = r["case"]
    model = ctx.model("ConstEval")
    if case and case.get("e2e"):
        c = tuple(case["case"])
        pv = model.run([spec_case(c)])[0]
        tmp = tempfile.mkdtemp(prefix="c04-", dir=CACHE)
        res = e2e_one(ctx, ctx.erg_bin(), tmp, 0, c, pv)
        shutil.rmtree(tmp, ignore_errors=True)
        print("e2e:", json.dumps(res, indent=1))
        if res["kind"] in ("crash", "wrong"):
            ctx.violation("failing-input", "erg CLI: %s" % (res.get("why") or res["kind"]), case=case, impl=res, judge={"python_value": pv})
        return
    if not case or "case" not in case:
        print("replay file names no input (broken correspondence/theorem): re-running the whole check")
        return run(ctx)
    c = tuple(case["case"])
    harnesses = make_harnesses(ctx)
    e = evaluate(ctx, [c], harnesses, model)[0]
    for b in harnesses:
        print(json.dumps(describe(c, e, b)), "verdict:", e["judge"][b][0])
        if e["judge"][b][0] == 0:
            ctx.violation("failing-input", "constant evaluation of %s (%s build): %s; run time: %s" % (
                show_case(c), b, show_res(e["impl"][b]), show_py(e["judge"][b][1])), case=case, impl=show_res(e["impl"][b]),
                model=show_res(e["model"][b]), judge={"verdict": 0, "python_value": e["judge"][b][1]})
