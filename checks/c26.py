"""C26 — runtime classes agree with Python and with their declared types.

proof:          coq/Runtime/Props_C26.v over coq/Runtime/Model.v (transcription of lib/core/_erg_{int,nat,bool,float,str,list,
                control,mutate_operator,type}.py + Python's operator dispatch) and the declaration table coq/gen/Sigs.v
translator:     harness `ergv-sigs` type-checks `f(a: A, b: B) = a op b` (and the method calls) for every class pair with the
                live compiler of the working tree; the result classes become coq/gen/Sigs.v
correspondence: the real modules of REPO/crates/erg_compiler/lib/core are run by pylib/c26_driver.py under every interpreter
                3.7-3.11 on generated operand pairs; result class, value, exception class and receiver-after-call are compared
                with the extracted model
judge:          coq/Runtime/Spec.v (extracted): value = Python built-in on the unwrapped operands (Spec's own semantics,
                itself compared with what the interpreter computes), declared class after the call-site re-wrap, no negative
                Nat, immutable receivers unchanged
"""
from lib.vplib import *

REGISTRY = dict(
    category="proof",
    text="Coq model of the Erg runtime classes and of Python's operator dispatch (coq/Runtime/Model.v), theorems for all "
         "operand values (value = Python built-in, class = declared class from the live compiler's table gen/Sigs.v, no "
         "negative Nat, Mut variants keep it); tied to the real lib/core modules by running them under Python 3.7-3.11 on "
         "generated operands and comparing with the extracted model; an extracted judge (coq/Runtime/Spec.v) decides every "
         "observed result.",
    note="Floats are uninterpreted (oracle = the interpreter's own answers); trusted: Coq kernel, extraction + generic OCaml "
         "driver, pylib/c26_driver.py, harness/sigs. Declared class is taken modulo the constructor call codegen.rs puts "
         "around every typed expression.",
    technique="Coq proof over hand model + generated declaration table + correspondence against the real Python modules "
              "under 5 interpreters + extracted judge",
    design="DESIGN.md §4 C26")

# ------------------------------------------------------------------------------------------------ declaration table
ERG_CLASSES = [(0, "Nat"), (1, "Int"), (2, "Bool"), (5, "Float"), (7, "Str"), (9, "List(Int)"),
               (11, "Nat!"), (12, "Int!"), (13, "Bool!"), (14, "Float!"), (15, "Str!")]
BINOPS = ["+", "-", "*", "/", "//", "%", "**", "==", "!=", "<", "<=", ">", ">="]
UNOPS = ["-", "+"]
# method id (as in pylib/c26_driver.py METHODS / Model.meth) -> (template, is_procedure); {a} receiver, {b} argument
METHOD_SIGS = {
    0: ("{a}.succ()", None, False), 1: ("{a}.pred()", None, False), 2: ("{a}.bit_count()", None, False),
    3: ("!{a}", None, False), 5: ("{a}.invert()", None, False),
    6: ("{a}.get({b})", "Nat", False), 7: ("{a}.from({b})", "Nat", False), 8: ("{a}.push({b})", "Int", False),
    9: ("{a}.reversed()", None, False), 10: ("{a}.sum()", None, False), 11: ("{a}.prod()", None, False),
    12: ("{a}[{b}]", "Nat", False),
    14: ("{a}.inc!({b})", "Nat", True), 15: ("{a}.dec!({b})", "Nat", True),
    16: ("{a}.inc!()", None, True), 17: ("{a}.dec!()", None, True), 18: ("{a}.copy()", None, False),
    30: ("{a}.abs()", None, False),
}
RESULT_TAGS = {"Nat": 0, "Int": 1, "Bool": 2, "Float": 5, "Str": 7, "Nat!": 11, "Int!": 12, "Bool!": 13, "Float!": 14,
               "Str!": 15, "NoneType": 16}


def result_tag(t):
    """declared return type (Display form) -> class tag; -1 = not typeable (Never), -2 = some other type"""
    if "->" not in t and "=>" not in t:
        return -1
    ret = re.split(r"-> |=> ", t)[-1].strip()
    if ret in ("Never", "Failure", ""):
        return -1
    if ret in RESULT_TAGS:
        return RESULT_TAGS[ret]
    if re.match(r"^(List|Array)\(", ret) or ret.startswith("["):
        return 9
    if re.match(r"^(List|Array)!\(", ret):
        return 19
    return -2


def gen_sigs(ctx):
    """type-check one definition per (operator|method, class...) with the compiler of the working tree"""
    from concurrent.futures import ThreadPoolExecutor
    h = Harness(ctx, "sigs", env={"ERG_PATH": os.path.join(REPO, "crates", "erg_compiler")})
    chunks = []
    for i, (ta, a) in enumerate(ERG_CLASSES):
        lines, keys = [], []
        for j, (tb, b) in enumerate(ERG_CLASSES):
            for o, sym in enumerate(BINOPS):
                nm = "b_%d_%d_%d" % (o, i, j)
                lines.append("%s(a: %s, b: %s) = a %s b" % (nm, a, b, sym))
                keys.append(("bin", o, ta, tb, nm))
        for o, sym in enumerate(UNOPS):
            nm = "u_%d_%d" % (o, i)
            lines.append("%s(a: %s) = %sa" % (nm, a, sym))
            keys.append(("un", o, ta, None, nm))
        for m, (tmpl, argt, proc) in sorted(METHOD_SIGS.items()):
            nm = "m_%d_%d%s" % (m, i, "!" if proc else "")
            if argt:
                lines.append("%s(a: %s, b: %s) = %s" % (nm, a, argt, tmpl.format(a="a", b="b")))
            else:
                lines.append("%s(a: %s) = %s" % (nm, a, tmpl.format(a="a")))
            keys.append(("meth", m, ta, None, nm))
        chunks.append(("\n".join(lines) + "\n", keys))
    # the answer is a function of the compiler binary, the declaration files it loads and the probe text: cache on those
    hh = hashlib.sha1()
    hh.update(open(h.bin, "rb").read())
    for root, dirs, files in sorted(os.walk(os.path.join(REPO, "crates", "erg_compiler", "lib"))):
        dirs.sort()
        for f in sorted(files):
            if f.endswith(".er"):
                hh.update(f.encode())
                hh.update(open(os.path.join(root, f), "rb").read())
    for src, _ in chunks:
        hh.update(src.encode())
    cache = os.path.join(CACHE, "c26_sigs_%s.json" % hh.hexdigest()[:16])
    if os.path.exists(cache):
        outs = json.load(open(cache))
    else:
        t0 = time.time()
        with ThreadPoolExecutor(max_workers=len(chunks)) as ex:
            outs = list(ex.map(lambda ck: h.run([[0, ck[0], [k[4] for k in ck[1]]]])[0], chunks))
        ctx.log("signature probe: %d definitions type-checked in %.1fs" % (sum(len(k) for _, k in chunks), time.time() - t0))
        json.dump(outs, open(cache, "w"))
    keys, out = [], [0]
    for (src, ks), o in zip(chunks, outs):
        if not isinstance(o, list) or len(o) != len(ks) + 1 or o[0] == -999:
            raise TieBroken("ergv-sigs could not type-check the signature probe module: %r" % (o[:3] if isinstance(o, list) else o,))
        keys += ks
        out += o[1:]
    table = {}
    for k, t in zip(keys, out[1:]):
        table[k[:4]] = (result_tag(sx_str(t)) if t else -1, sx_str(t) if t else "")
    # sanity: the probe itself must still work (a restructured compiler API would give Never everywhere)
    if table[("bin", 7, 1, 1)][0] != 2 or table[("bin", 0, 7, 7)][0] != 7:
        raise TieBroken("signature probe lost Int == Int : Bool / Str + Str : Str: %r" % (table[("bin", 7, 1, 1)],))
    bins = ["(%d, %d, %d, %d)" % (o, a, b, r) for (kind, o, a, b), (r, _) in sorted(table.items(), key=lambda kv: (kv[0][0], kv[0][1], kv[0][2], kv[0][3] or 0)) if kind == "bin" and r != -1]
    uns = ["(%d, %d, %d)" % (o, a, r) for (kind, o, a, b), (r, _) in sorted(table.items(), key=lambda kv: (kv[0][0], kv[0][1], kv[0][2])) if kind == "un" and r != -1]
    ms = ["(%d, %d, %d)" % (o, a, r) for (kind, o, a, b), (r, _) in sorted(table.items(), key=lambda kv: (kv[0][0], kv[0][1], kv[0][2])) if kind == "meth" and r != -1]

    def wrap(items):
        out, cur = [], "  "
        for it in items:
            if len(cur) + len(it) > 116:
                out.append(cur)
                cur = "  "
            cur += it + "; "
        out.append(cur)
        body = "\n".join(out).rstrip()
        return body[:-1] if body.endswith(";") else body
    txt = ("(** GENERATED by checks/c26.py from the live builtin Context (harness/sigs): declared result classes.\n"
           "    class tags: 0 Nat 1 Int 2 Bool 5 Float 7 Str 9 List 11 Nat! 12 Int! 13 Bool! 14 Float! 15 Str! 16 NoneType\n"
           "    19 List! -2 other type; absent = the expression does not type-check.\n"
           "    operators: 0 + 1 - 2 * 3 / 4 // 5 %% 6 ** 7 == 8 != 9 < 10 <= 11 > 12 >= ; unary 0 - 1 + ; methods: ids of Model.meth, 30 abs *)\n"
           "From Coq Require Import ZArith List.\nImport ListNotations.\nOpen Scope Z_scope.\n\n"
           "Definition sig_binop : list (Z * Z * Z * Z) := [\n%s].\n\n"
           "Definition sig_unop : list (Z * Z * Z) := [\n%s].\n\n"
           "Definition sig_method : list (Z * Z * Z) := [\n%s].\n" % (wrap(bins), wrap(uns), wrap(ms)))
    ctx.write_gen("Sigs", txt)
    return table


# ------------------------------------------------------------------------------------------------ cases
CORE = os.path.join(REPO, "crates", "erg_compiler", "lib", "core")
DRIVER = os.path.join(VERIF, "pylib", "c26_driver.py")
INTERPRETERS = ["3.7", "3.8", "3.9", "3.10", "3.11"]
CLS_NAMES = {0: "Nat", 1: "Int", 2: "Bool", 3: "int", 4: "bool", 5: "Float", 6: "float", 7: "Str", 8: "str", 9: "List",
             10: "list", 11: "NatMut", 12: "IntMut", 13: "BoolMut", 14: "FloatMut", 15: "StrMut", 16: "None",
             17: "NotImplemented", 18: "Error", 19: "complex", 20: "other"}
OP_NAMES = ["+", "-", "*", "/", "//", "%", "**", "==", "!=", "<", "<=", ">", ">="]
UOP_NAMES = ["neg", "pos", "abs"]
METH_NAMES = ["succ", "pred", "bit_count", "mutate(!)", "saturating_sub", "invert", "get", "from_", "push", "reversed", "sum",
              "prod", "getitem", "update", "inc", "dec", "inc()", "dec()", "copy"]
EXC_NAMES = {1: "ValueError", 2: "TypeError", 3: "ZeroDivisionError", 4: "OverflowError", 5: "AttributeError",
             6: "IndexError", 7: "other exception"}
# the code variant the working tree is expected to be: (fx_nat_arith, fx_natmut_incdec, fx_list_push) -- see Model.cur
CUR_FX = [1, 1, 1]
INT_EDGES = [0, 1, -1, 2, -2, 3, -3, 7, -7, 10, 255, 256, 2**31 - 1, 2**31, -2**31, -2**31 - 1, 2**32, 2**53, 2**53 + 1,
             2**63 - 1, 2**63, -2**63, -2**63 - 1, 2**64, -2**64, 2**100, -2**100 - 3, 10**30 + 7]
FLOAT_EDGES = [0.0, -0.0, 1.0, -1.0, 0.5, -0.5, 1.5, -1.5, 2.5, 2.0, -2.0, 3.0, 1e308, -1e308, 5e-324, 2.0**53, 2.0**53 + 2,
               1e16, -123456.789, float("inf"), float("-inf"), float("nan"), 0.1, 7.0, 1e-7]
STR_POOL = ["", "a", "ab", "b", "A", "é", "日本", "\U0001F600", "0", "12", "a b", "\n"]


def f2b(f):
    import struct
    return struct.unpack(">Q", struct.pack(">d", f))[0]


def b2f(b):
    import struct
    return struct.unpack(">d", struct.pack(">Q", b))[0]


def gen_int(rng, nonneg=False, small=False):
    r = rng.random()
    if small:
        z = rng.randint(-6, 12)
    elif r < 0.45:
        z = rng.choice(INT_EDGES)
    elif r < 0.8:
        z = rng.randint(-20, 20)
    elif r < 0.9:
        z = rng.randint(-2**64, 2**64)
    else:
        z = rng.randint(-2**130, 2**130)
    return abs(z) if nonneg else z


def gen_float(rng):
    r = rng.random()
    if r < 0.6:
        return rng.choice(FLOAT_EDGES)
    if r < 0.8:
        return float(rng.randint(-50, 50)) / 4
    return b2f(rng.getrandbits(64))


def gen_str(rng):
    if rng.random() < 0.7:
        return rng.choice(STR_POOL)
    return "".join(rng.choice("abéz0 \U0001F600") for _ in range(rng.randint(0, 6)))


def gen_elem(rng, small=True):
    t = rng.choice([0, 0, 1, 1, 2, 3, 3, 4, 7, 8])
    return gen_val(rng, t, small=small)


def gen_val(rng, t, small=False, canonical=True):
    """a wire value of class tag t (well-formed: Nat >= 0, Bool 0/1)"""
    if t == 0:
        return [0, gen_int(rng, nonneg=True, small=small)]
    if t in (1, 3):
        return [t, gen_int(rng, small=small)]
    if t in (2, 4):
        return [t, rng.randint(0, 1)]
    if t in (5, 6):
        return [t, f2b(gen_float(rng))]
    if t in (7, 8):
        return [t, [ord(c) for c in gen_str(rng)]]
    if t in (9, 10):
        return [t, [gen_elem(rng) for _ in range(rng.choice([0, 1, 1, 2, 3, 3, 5]))]]
    if t in (11, 12, 13, 14, 15):
        inner = {11: 0, 12: 1, 13: 2, 14: 5, 15: 7}[t]
        if not canonical:   # payload classes reachable through NatMut.__pow__/__truediv__/try_new, StrMut.clear, IntMut.dec on a NatMut
            inner = {11: rng.choice([1, 3, 6, 2]), 12: 1, 13: rng.choice([1, 0]), 14: 5, 15: 8}[t]
            v = gen_val(rng, inner, small=small)
            if t == 11 and inner in (1, 3):
                v[1] = abs(v[1])
            if t == 11 and inner == 6:
                v[1] = f2b(abs(b2f(v[1]))) if b2f(v[1]) == b2f(v[1]) else f2b(1.5)
            if t == 13 and inner in (1, 0):
                v[1] = abs(v[1]) % 3
            return [t, v]
        return [t, gen_val(rng, inner, small=small)]
    return [16]


TYPED_PAIRS = None


def gen_binop(rng, table):
    global TYPED_PAIRS
    if TYPED_PAIRS is None:
        TYPED_PAIRS = sorted((o, a, b) for (k, o, a, b), (r, _) in table.items() if k == "bin" and r != -1)
    r = rng.random()
    if r < 0.6:      # a combination the compiler accepts, wrapper operands
        o, ta, tb = rng.choice(TYPED_PAIRS)
    elif r < 0.85:   # mixed wrapper / plain Python operands
        o = rng.randrange(13)
        ta = rng.choice([0, 1, 2, 3, 4, 5, 6, 7, 8, 9, 10])
        tb = rng.choice([0, 1, 2, 3, 4, 5, 6, 7, 8, 9, 10])
    else:            # anything, including Mut and None
        o = rng.randrange(13)
        ta = rng.randrange(17)
        tb = rng.randrange(17)
    small = o == 6 or (o == 2 and (ta in (7, 8, 9, 10, 15) or tb in (7, 8, 9, 10, 15)))
    a = gen_val(rng, ta, small=small and o == 2 and ta not in (7, 8, 9, 10, 15), canonical=rng.random() < 0.9)
    b = gen_val(rng, tb, small=small, canonical=rng.random() < 0.9)
    if o == 6:       # keep powers computable
        def shrink(v, lim):
            if v[0] in (0, 1, 2, 3, 4) and abs(v[1]) > lim:
                v[1] = (abs(v[1]) % lim) * (1 if v[1] > 0 or v[0] == 0 else -1)
            elif v[0] in (11, 12, 13):
                shrink(v[1], lim)
        shrink(b, 40)
        big = a[1] if a[0] in (0, 1, 3) else (a[1][1] if a[0] in (11, 12) and a[1][0] in (0, 1, 3) else 0)
        if isinstance(big, int) and abs(big) > 2**70:
            shrink(b, 6)
    return [0, o, a, b]


RECV_FOR = {0: [0, 1, 2, 11, 12, 13], 1: [0, 1, 2, 11, 12, 13], 2: [0, 1, 2, 11, 12, 13], 3: list(range(0, 16)),
            4: [0, 2, 11], 5: [2, 13], 6: [7, 9, 15], 7: [7, 9, 15], 8: [9], 9: [9], 10: [9], 11: [9], 12: [7, 8, 9, 10],
            13: [11, 12, 13, 14, 15], 14: [11, 12, 13, 14], 15: [11, 12, 13, 14], 16: [11, 12, 13, 14],
            17: [11, 12, 13, 14], 18: [11, 12, 13, 14, 15]}


def gen_method(rng):
    m = rng.randrange(19)
    t = rng.choice(RECV_FOR[m]) if rng.random() < 0.9 else rng.randrange(16)
    recv = gen_val(rng, t, canonical=rng.random() < 0.9)
    if m in (10, 11) and t == 9:     # sum/prod over numbers
        recv = [9, [gen_val(rng, rng.choice([0, 1, 2, 3]), small=(m == 11)) for _ in range(rng.randint(0, 5))]]
    args = []
    if m == 4:
        args = [gen_val(rng, rng.choice([0, 0, 1, 2, 3, 11]))]
    elif m in (6, 7, 12):
        ln = len(recv[1]) if t in (7, 8, 9, 10) and isinstance(recv[1], list) else 3
        args = [[rng.choice([0, 0, 1, 3]), 0]]
        args[0][1] = rng.randint(0 if args[0][0] == 0 else -ln - 2, ln + 2)
        if m == 12 and rng.random() < 0.15:
            args = [[11, [0, rng.randint(0, ln + 1)]]]
    elif m == 8:
        args = [gen_elem(rng)]
    elif m == 13:
        inner = {11: [0, 0, 1, 3, 2], 12: [1, 1, 0, 3, 6], 13: [2, 4], 14: [5, 5, 6, 1], 15: [7, 8]}.get(t, [1])
        args = [gen_val(rng, rng.choice(inner))]
    elif m in (14, 15):
        inner = {11: [0, 0, 1, 3, 2], 12: [1, 0, 3, 2], 13: [0, 1, 2], 14: [5, 6, 1, 0]}.get(t, [1])
        args = [gen_val(rng, rng.choice(inner))]
    return [2, m, recv, args]


BIG_DIVIDENDS = [2**53 + 1, 2**53 + 3, 9007199254740993, 2**54 + 2, 10**17 + 1, 2**63 + 1, 2**64 + 3, 10**30 + 7, 3**200,
                 10**308 * 2, 10**400, 10**400 + 1, 7 * 10**399]
BIG_DIVISORS = [1, 3, 7, 10, 2**53 + 1, 10**17 + 1, 100000000000000001, 10**30 + 7, 3**199, 10**399, 10**400, 2**1030]


def gen_int_stress(rng, table):
    """integer operators on operands that are not exactly representable as doubles (beyond 2**53) or beyond the float range:
    a wrapper that converts to float too early (or at all, for //, %, comparisons) differs from Python here"""
    def big(pool):
        r = rng.random()
        if r < 0.55:
            return rng.choice(pool)
        if r < 0.8:
            return rng.randint(2**53, 2**70) | 1
        if r < 0.93:
            return rng.randint(2**100, 2**160) | 1
        return rng.randint(2**1024, 2**1100)
    o = 3 if rng.random() < 0.7 else rng.choice([0, 1, 2, 4, 5, 7, 9, 12])
    ta = rng.choice([0, 0, 1, 1, 1, 3, 2])
    tb = rng.choice([0, 0, 1, 1, 3])
    x = big(BIG_DIVIDENDS) if ta != 2 else rng.randint(0, 1)
    y = big(BIG_DIVISORS) if rng.random() < 0.8 else rng.choice([1, 2, 3, 5, 7, 10])
    if ta in (1, 3) and rng.random() < 0.4:
        x = -x
    if tb in (1, 3) and rng.random() < 0.3:
        y = -y
    return [0, o, [ta, x], [tb, y]]


def gen_case(rng, table):
    r = rng.random()
    if r < 0.07:
        return gen_int_stress(rng, table)
    if r < 0.62:
        return gen_binop(rng, table)
    if r < 0.70:
        return [1, rng.randrange(3), gen_val(rng, rng.choice([0, 1, 2, 3, 4, 5, 6, 7, 9, 11, 12, 13, 14, 15, 16]),
                                             canonical=rng.random() < 0.9)]
    if r < 0.93:
        return gen_method(rng)
    cls = rng.choice([0, 1, 2, 5, 7, 9])
    src = {0: [0, 1, 2, 3, 4, 6, 11, 12], 1: [0, 1, 2, 3, 4, 6, 11, 12], 2: [2, 4, 0, 3], 5: [5, 6, 0, 1, 3, 14, 11],
           7: [7, 8, 15], 9: [9, 10, 3, 16]}[cls]
    return [3, cls, gen_val(rng, rng.choice(src), canonical=rng.random() < 0.85)]


def show_val(v):
    t = v[0]
    n = CLS_NAMES.get(t, "?")
    if t in (0, 1, 2, 3, 4):
        return "%s(%d)" % (n, v[1])
    if t in (5, 6):
        return "%s(%s)" % (n, b2f(v[1]).hex())
    if t in (7, 8):
        return "%s(%r)" % (n, "".join(chr(c) for c in v[1]))
    if t in (9, 10):
        return "%s([%s])" % (n, ", ".join(show_val(e) for e in v[1]))
    if t in (11, 12, 13, 14, 15):
        return "%s(%s)" % (n, show_val(v[1]))
    return n


def show_outcome(o):
    if not isinstance(o, list) or not o:
        return str(o)
    if o[0] == 0:
        return show_val(o[1])
    if o[0] == 1:
        return "raise " + EXC_NAMES.get(o[1], "?")
    return "(not modelled)"


def show_case(c):
    if c[0] == 0:
        return "%s %s %s" % (show_val(c[2]), OP_NAMES[c[1]], show_val(c[3]))
    if c[0] == 1:
        return "%s(%s)" % (UOP_NAMES[c[1]], show_val(c[2]))
    if c[0] == 2:
        return "%s.%s(%s)" % (show_val(c[2]), METH_NAMES[c[1]], ", ".join(show_val(a) for a in c[3]))
    return "%s(%s)" % (CLS_NAMES[c[1]], show_val(c[2]))


_CORE_COPY = {}


def core_copy(core=None):
    """Nothing is carried from one run to the next: the runtime modules are imported from a fresh private copy of
    REPO/crates/erg_compiler/lib/core/*.py made for this process (so no __pycache__ of an earlier tree can be picked up
    and none is written into the tree under test); removed at exit."""
    import atexit
    import tempfile
    src = core or CORE
    if src not in _CORE_COPY:
        os.makedirs(os.path.join(CACHE, "tmp"), exist_ok=True)
        d = tempfile.mkdtemp(prefix="c26-core-", dir=os.path.join(CACHE, "tmp"))
        n = 0
        for f in sorted(os.listdir(src)):
            if f.endswith(".py"):
                shutil.copy(os.path.join(src, f), os.path.join(d, f))
                n += 1
        if n == 0:
            raise TieBroken("no runtime modules (*.py) in %s" % src)
        atexit.register(shutil.rmtree, d, True)
        _CORE_COPY[src] = d
    return _CORE_COPY[src]


def run_driver(ctx, ver, cases, core=None):
    """the real runtime modules under one interpreter; one process, one line per case"""
    inp = "\n".join(sx_dump(c) for c in cases) + "\n"
    p = sh([PY_VERSIONS[ver], "-B", DRIVER, core_copy(core)], inp=inp, timeout=1800, env={"PYTHONDONTWRITEBYTECODE": "1"})
    lines = [l for l in p.stdout.splitlines() if l.strip()]
    if p.returncode != 0 or len(lines) != len(cases):
        # the runtime modules no longer import / crash the interpreter: that is a broken tie, not a framework error
        raise TieBroken("c26_driver under python %s failed on %s (rc=%s, %d/%d answers): %s" % (
            ver, core or CORE, p.returncode, len(lines), len(cases), p.stderr[-1500:]))
    return [sx_load(l.split(" ; ")[0]) for l in lines]


# ------------------------------------------------------------------------------------------------ check
def check_coherence(bat):
    """the one assumption the theorems make about the float oracle (Props_C26: orc_coherent): int ** float converts the
    int first.  Returns a description of a counterexample or None."""
    ent = {sx_dump(e[:3]): e[3] for e in bat}
    for e in bat:
        if e[0] == 6 and e[1][0] == 0 and e[2][0] == 1:
            tf = ent.get(sx_dump([20, e[1], [2]]))
            if tf is None:
                continue
            exp = ent.get(sx_dump([6, [1, tf[1]], e[2]])) if tf[0] == 0 else tf
            if exp is not None and exp != e[3]:
                return "int ** float: %r but float(int) ** float: %r" % (e[3], exp)
    return None


class Batch:
    """implementation answers (one interpreter), model answers, Spec reference, judge verdicts for a list of cases"""

    def __init__(self, ctx, model, ver, cases, fx=None):
        self.ver = ver
        self.cases = cases
        self.impl = run_driver(ctx, ver, cases)
        fx = fx or CUR_FX
        lines = [[0, fx, c, a[4]] for c, a in zip(cases, self.impl)]
        lines += [[1, c, a[4]] for c, a in zip(cases, self.impl)]
        lines += [[2, c, a[0][:2], a[1], a[2], a[4]] for c, a in zip(cases, self.impl)]
        out = model.run(lines)
        n = len(cases)
        self.model, self.spec, self.judge = out[:n], out[n:2 * n], out[2 * n:]

    def rows(self):
        for i, c in enumerate(self.cases):
            a = self.impl[i]
            iout = a[0][:2] if a[0] and a[0][0] == 1 else a[0]
            m = self.model[i]
            modelled = m[0] != [2]
            corr = None
            if modelled and (m[0] != iout or m[1] != a[1]):
                corr = {"impl": show_outcome(a[0]), "impl_receiver_after": show_val(a[1]),
                        "model": show_outcome(m[0]), "model_receiver_after": show_val(m[1])}
            spec_bad = None
            if c[0] in (0, 1) and self.spec[i] != [2] and a[3]:
                rr = a[3][:2] if a[3][0] == 1 else a[3]
                if self.spec[i] != rr:
                    spec_bad = {"python": show_outcome(a[3]), "spec": show_outcome(self.spec[i])}
            j = self.judge[i]
            failed = [x for x in j[0] if x != 5]
            yield i, c, a, iout, modelled, corr, spec_bad, failed, (5 in j[0]), j[1], check_coherence(a[4])


CLAUSE = {1: "value differs from the Python built-in on the unwrapped operands",
          2: "result is not an instance of the declared class (after the call-site re-wrap)",
          3: "a negative Nat exists after the operation", 4: "a method of an immutable class changed its receiver"}
KNOWN_CLASS = {1: "K_mut", 2: "K_pow"}


def small_scope(table):
    """every operator on every pair of classes with a few small values each (thorough tier)"""
    vals = {0: [0, 1, 3], 1: [-2, 0, 5], 2: [0, 1], 3: [-1, 2], 4: [1], 5: [f2b(-1.5), f2b(2.0)], 6: [f2b(0.5)],
            7: [[], [97, 98]], 8: [[98]], 9: [[], [[0, 1], [1, -1]]], 10: [[[3, 2]]]}
    out = []
    for ta in range(16):
        for tb in range(16):
            for o in range(13):
                for pa in (vals.get(ta) or [None])[:2]:
                    for pb in (vals.get(tb) or [None])[:2]:
                        def mk(t, p):
                            if t in vals:
                                return [t, p]
                            inner = {11: 0, 12: 1, 13: 2, 14: 5, 15: 7}[t]
                            return [t, [inner, vals[inner][-1]]]
                        out.append([0, o, mk(ta, pa), mk(tb, pb)])
    return out


def int_grid():
    """deterministic part of every run: every operator on every ordered pair of the integer classes (and Float against
    them) over a boundary grid of values -- negative, zero, one, beyond 2**64 -- so that a wrapper that mis-handles one
    (operator, class pair, sign) combination cannot slip through the random stream"""
    vals = {0: [0, 1, 7, 2**64 + 3], 1: [-7, -1, 0, 3, -(2**64) - 3], 2: [0, 1], 3: [-2, 5], 4: [1],
            5: [f2b(-1.5), f2b(0.0), f2b(2.0)]}
    out = []
    for o in range(13):
        for ta in (0, 1, 2, 3, 4, 5):
            for tb in (0, 1, 2, 3, 4, 5):
                if ta == 5 and tb == 5:
                    continue
                for x in vals[ta]:
                    for y in vals[tb]:
                        if o == 6 and tb != 5 and abs(y) > 7:       # keep powers computable
                            continue
                        if o == 6 and ta != 5 and tb != 5 and abs(x) > 2**64 and abs(y) > 3:
                            continue
                        out.append([0, o, [ta, x], [tb, y]])
    for u in range(3):
        for ta in (0, 1, 2, 3, 4, 5):
            for x in vals[ta]:
                out.append([1, u, [ta, x]])
    return out


def shrink_case(c, still_fails):
    """make the integers of a failing case small"""
    import copy

    def ints(v, path, acc):
        if v[0] in (0, 1, 2, 3, 4):
            acc.append(path)
        elif v[0] in (11, 12, 13, 14, 15):
            ints(v[1], path + [1], acc)
        elif v[0] in (9, 10):
            for i, e in enumerate(v[1]):
                ints(e, path + [1, i], acc)
    best = c
    slots = {0: [2, 3], 1: [2], 2: [2], 3: [2]}[c[0]]
    paths = []
    for s in slots:
        ints(c[s], [s], paths)
    if c[0] == 2:
        for i, a in enumerate(c[3]):
            ints(a, [3, i], paths)
    for p in paths:
        node = best
        for k in p:
            node = node[k]
        z = node[1]
        for cand in [0, 1, -1, 2, -2, 3, -3, 5, -5, 10, -10, 2**53 + 1, -2**53 - 1, 10**17 + 1, 2**64 + 3, 10**400]:
            if abs(cand) >= abs(z) or (node[0] in (0, 2, 4) and cand < 0) or (node[0] in (2, 4) and cand > 1):
                continue
            t = copy.deepcopy(best)
            n2 = t
            for k in p:
                n2 = n2[k]
            n2[1] = cand
            if still_fails(t):
                best = t
                break
    return best


def run(ctx):
    from concurrent.futures import ThreadPoolExecutor
    ctx.cov["rule"] = ("single operations on the real runtime classes: binary operators (+ - * / // % ** == != < <= > >=) on pairs "
                       "of operands of classes Nat Int Bool Float Str List, their Mut variants and plain int/bool/float/str/list "
                       "(60% class pairs the compiler accepts, rest mixed/arbitrary), unary - + abs, the modelled named methods, "
                       "constructor calls (the compiler's re-wrap); values boundary-heavy (0, +-1, +-2^31, +-2^63, 2^100.., "
                       "signed zeros, inf, nan, subnormals, empty/non-ASCII strings), 7% integer operators on operands beyond 2**53 / beyond the float range (10**400); every case under Python 3.7-3.11; "
                       "non-trivial = distinct case that the model covers and that does not end in TypeError/AttributeError")
    ctx.cov["trusted_base"] = ["Coq 8.16.1 kernel", "extraction (ExtrOcamlBasic only) + extract/driver.ml",
                               "pylib/c26_driver.py (builds operands, encodes results, computes the built-in reference and the float oracle)",
                               "harness/sigs (asks the live compiler for the type of `a op b`)",
                               "float arithmetic is an uninterpreted oracle in the model (answers taken from the interpreter)"]
    ctx.assumptions = ["operands are distinct objects (no `a op a` aliasing)",
                       "float oracle coherence: int ** float = float(int) ** float (checked on every case that exercises it)",
                       "declared class is judged modulo the constructor call codegen.rs (emit_expr/should_wrap) puts around every "
                       "typed operator/call expression; `strict` instances are reported separately (known/C26.json K_plain)",
                       "str % (formatting), list ordering, str()/int() of strings, a plain str/list left of a Mut operand are not modelled"]
    for f in os.listdir(os.path.join(OUT, "replays")):
        if f.startswith("C26-%d-" % ctx.seed):
            os.remove(os.path.join(OUT, "replays", f))      # replay files of an earlier run must not be mistaken for this run's
    table = gen_sigs(ctx)
    proof = ctx.coq(["Runtime/Props_C26.v"])
    model = ctx.model("Runtime")
    cases = []
    corpus = os.path.join(VERIF, "corpus", "C26")
    if os.path.isdir(corpus):
        for f in sorted(os.listdir(corpus)):
            cases.append(json.load(open(os.path.join(corpus, f)))["case"])
    known = ctx.known()
    kw = [(k, k["witness"]["case"]) for k in known if isinstance(k.get("witness"), dict) and "case" in k["witness"]]
    cases += [w for _, w in kw]
    grid = int_grid()
    ctx.cov["boundary_grid"] = "%d cases: 13 operators x ordered pairs of Nat Int Bool int bool Float x boundary values, 3 unary operators" % len(grid)
    cases += grid
    n = ctx.scale(2500, 60000)
    for _ in range(n):
        cases.append(gen_case(ctx.rng, table))
    if ctx.thorough:
        ex = small_scope(table)
        ctx.cov["exhaustive_small_scope"] = "%d cases: every operator on every ordered pair of the 16 classes, 2x2 small values" % len(ex)
        cases += ex
    t0 = time.time()
    with ThreadPoolExecutor(max_workers=len(INTERPRETERS)) as ex:
        batches = list(ex.map(lambda v: Batch(ctx, model, v, cases), INTERPRETERS))
    ctx.log("%d cases x %d interpreters run and judged in %.1fs" % (len(cases), len(INTERPRETERS), time.time() - t0))
    n_corr = n_spec = n_coh = 0
    first_corr = first_spec = None
    fails = []          # (ver, case, failed clauses, impl row) outside the known classes
    known_hits = {}
    strict_n = 0
    for b in batches:
        for i, c, a, iout, modelled, corr, spec_bad, failed, nonstrict, kcls, coh in b.rows():
            if b.ver == INTERPRETERS[-1]:
                kind = ["binop", "unop", "method", "construct"][c[0]]
                ctx.count(kind)
                if c[0] == 0:
                    ctx.count("op " + OP_NAMES[c[1]])
                    ctx.count("left " + CLS_NAMES[c[2][0]])
                    ctx.count("right " + CLS_NAMES[c[3][0]])
                ctx.count("outcome " + ("value" if a[0][0] == 0 else EXC_NAMES.get(a[0][1], "?")))
                if not modelled:
                    ctx.count("not modelled")
                nt = modelled and not (a[0][0] == 1 and a[0][1] in (2, 5))
                ctx.case(c, nontrivial=nt, sample={"case": show_case(c), "result": show_outcome(a[0])})
                if nonstrict:
                    strict_n += 1
            if corr:
                n_corr += 1
                first_corr = first_corr or {"python": b.ver, "case": c, "readable": show_case(c), "detail": corr}
            if spec_bad:
                n_spec += 1
                first_spec = first_spec or {"python": b.ver, "case": c, "readable": show_case(c), "detail": spec_bad}
            if coh:
                n_coh += 1
                first_spec = first_spec or {"python": b.ver, "case": c, "readable": show_case(c), "detail": coh}
            if failed:
                if kcls in KNOWN_CLASS and any(k.get("class") == KNOWN_CLASS[kcls] for k in known):
                    known_hits[kcls] = known_hits.get(kcls, 0) + 1
                else:
                    fails.append((b.ver, c, failed, a))
    ctx.cov["correspondence_disagreements"] = n_corr
    ctx.cov["judge_failures_in_known_classes"] = {KNOWN_CLASS[k]: v for k, v in known_hits.items()}
    ctx.cov["raw_results_not_strict_instances"] = strict_n
    # ---- known findings: report those whose witness still reproduces
    wb = {sx_dump(c): (a, j) for c, a, j in zip(batches[-1].cases, batches[-1].impl, batches[-1].judge)}
    for k, w in kw:
        a, j = wb[sx_dump(w)]
        bad = [x for x in j[0] if x in k.get("clauses", [1, 2, 3, 4, 5])]
        if bad:
            ctx.known_finding(k)
        else:
            ctx.notes.append("stale-known-finding %s: witness %s no longer fails" % (k.get("id"), show_case(w)))
            print("NOTE stale-known-finding property=C26 %s" % k.get("id"))
    # ---- verdict
    reported = set()
    for ver, c, failed, a in fails:
        key = (c[0], c[1], c[2][0], c[3][0] if c[0] == 0 else -1, tuple(failed))
        if key in reported or len(reported) >= 4:
            continue
        reported.add(key)

        def still(t, ver=ver, failed=failed):
            bb = Batch(ctx, model, ver, [t])
            r = list(bb.rows())[0]
            return bool(r[7]) and set(r[7]) & set(failed) and r[9] not in KNOWN_CLASS
        small = shrink_case(c, still)
        bb = Batch(ctx, model, ver, [small])
        r = list(bb.rows())[0]
        ctx.violation("failing-input",
                      "%s -> %s under Python %s: %s" % (show_case(small), show_outcome(r[2][0]), ver,
                                                         "; ".join(CLAUSE[x] for x in r[7])),
                      case={"case": small, "readable": show_case(small), "python": ver},
                      impl={"outcome": show_outcome(r[2][0]), "receiver_after": show_val(r[2][1]),
                            "python_builtin_on_unwrapped": show_outcome(r[2][3]) if r[2][3] else None},
                      model={"outcome": show_outcome(bb.model[0][0])},
                      judge={"failed_clauses": {str(x): CLAUSE[x] for x in r[7]}})
    if not fails and (n_corr or n_spec or n_coh or not proof.ok):
        what = []
        if not proof.ok:
            what.append("theorem(s) no longer check: " + proof.summary())
        if n_corr:
            what.append("%d (case, interpreter) pairs on which model and runtime modules differ" % n_corr)
        if n_spec or n_coh:
            what.append("%d cases on which Spec.v's Python semantics / oracle assumption differ from the interpreter" % (n_spec + n_coh))
        ctx.violation("broken-correspondence" if (n_corr or n_spec or n_coh) else "broken-theorem", "; ".join(what),
                      case=first_corr or first_spec, theorem=proof.summary() or None, no_input=True)


def replay(ctx, path):
    r = json.load(open(path))
    gen_sigs(ctx)      # the judge reads the declaration table of the tree under test
    model = ctx.model("Runtime")
    c = r["case"]["case"] if isinstance(r.get("case"), dict) and "case" in r["case"] else r["case"]
    vers = [r["case"].get("python")] if isinstance(r.get("case"), dict) and r["case"].get("python") else INTERPRETERS
    for ver in vers:
        b = Batch(ctx, model, ver, [c])
        i, c, a, iout, modelled, corr, spec_bad, failed, nonstrict, kcls, coh = list(b.rows())[0]
        print("python %s: %s -> %s ; receiver afterwards %s ; built-in on unwrapped operands: %s" % (
            ver, show_case(c), show_outcome(a[0]), show_val(a[1]), show_outcome(a[3]) if a[3] else "-"))
        print("  model:", show_outcome(b.model[0][0]), "| correspondence:", corr or "agrees")
        print("  judge:", {x: CLAUSE[x] for x in failed} or "property holds", "| known class:", KNOWN_CLASS.get(kcls, "-"))
        if failed and kcls not in KNOWN_CLASS:
            ctx.violation("failing-input", "; ".join(CLAUSE[x] for x in failed), case=r["case"],
                          impl={"outcome": show_outcome(a[0])}, judge={"failed_clauses": failed})
